//! C08: collections are lazy, immutable and re-runnable; branches do not interfere.
//!
//! kind "hist":   in = [nthreads, programs, schedule]
//!   programs[t] = list of calls of thread t on ONE shared `Pipeline`:
//!     ["src", [[k,v],..]]            from_vec (from_iter when the number of rows is odd)
//!     ["map", c, [t,k]]              parent.map(|(k,v)| (k, v.bump(c)))
//!     [builder, a, b, [t,k]]         any other public transform builder, see the table `Op`
//!                                    (filter, flat_map, map_values, filter_values, map_batches,
//!                                    map_values_batches, combine_values, combine_globally(_lifted),
//!                                    apply_transform, distinct, distinct_per_key, gbk_lifted, key_by,
//!                                    group_by_key, top_k_per_key, key_by_window, group_by_window,
//!                                    group_by_key_and_window); 2 locks per inserted node
//!     ["join", kind, [t,k], [t,k]]   left.join_{inner,left,right,full}(&right) -> RAW handle, then
//!                                    raw.map(wrap) -> general handle   (two handles, 5 + 2 locks)
//!     ["collect", mode, [t,k]]       mode 0: collect_seq(); mode p>0: collect_par(None, Some(p))
//!   a reference [t,k] is the k-th handle produced by thread t (a join produces two).
//!   schedule = sequence of thread ids.  Real std::threads run the programs; a cooperative
//!   scheduler, driven through `ironbeam::verif::set_yield_hook`, parks every thread at each
//!   `yield_point("pipeline")` (= immediately before each acquisition of the pipeline mutex) and
//!   before the start of each call, and grants turns in schedule order; a granted thread runs
//!   until its next yield point.  After the schedule the threads are drained in thread order.
//!   out = ["ok", turns, results] | ["invalid"] | ["hang"]
//!     turns   = [[tid, call index, lock index inside the call, closure-call counter after the turn], ..]
//!     results = per thread, per call: ["h", node_id, nlocks] | ["hh", raw_id, id, nlocks]
//!               | ["c", ["ok", rows] | ["err", class], nlocks] | ["panic"] | ["unavailable"]
//! kind "stress": in = [nthreads, programs]; same programs, no hook, threads run freely and
//!   only wait for the handles they reference.  out = ["ok", results, final counter].
//!
//! Round 4 additions (sources created through the public `from_custom_source` API, streamed file
//! sources, several pipelines, every public collect entry point, big inputs):
//!   in = [nthreads, programs, schedule, env]   (hist)   /   [nthreads, programs, env]   (stress)
//!   env = [pipes, files]
//!     pipes[t]  = index (0..3) of the Pipeline thread t works on; a call may only reference
//!                 handles made by threads of the same pipeline (the pipelines are independent
//!                 state machines; what they SHARE are the files and the adapter objects)
//!     files[f]  = [fmt, p, lines]   fmt 0 JSONL / 1 CSV / 2 Parquet;  p: CSV has_headers (0/1),
//!                 Parquet max row-group size (0 = ironbeam's own writer), JSONL 0;
//!                 lines = [[k,v] | null, ..] (null = a blank line, JSONL only) or
//!                 ["gen", n, base, kmod, blank]: line i = row (i mod kmod, base + i), blank when
//!                 blank > 0 and i mod blank = blank - 1.   Written to a scratch dir before the run.
//!   new calls:
//!     ["src", ["gen", n, base, kmod]]   from_vec of the generated rows (big sources)
//!     ["custom", lm, sp, pages]         from_custom_source(p, Pages(pages), PagesOps{lm, sp}): a USER
//!                                       written VecOps; lm 0: len() = None ("unknown until read"),
//!                                       lm 1: len() = Some(total); sp 0: split() = None (the runner
//!                                       falls back to clone_any), sp 1: split() = the pages as they
//!                                       are (n ignored), sp 2: split() = the built-in chunking of the
//!                                       concatenated pages; clone_any() = the concatenated pages;
//!                                       sp 3: the payload is the plain Vec of the rows and the adapter
//!                                       is ONE built-in `vec_ops_for::<Row>()` object shared by all
//!                                       such sources of the case (lm 0: wrapped so that len() = None)
//!     ["file", a, f, s]                 a streamed source over file f with shard size s.
//!                                       a = 0: read_{jsonl,csv,parquet}_streaming (a fresh adapter);
//!                                       a > 0: from_custom_source(p, build_*_shards(file, s), ADAPTER a)
//!                                       where adapter a (one per format) is ONE Jsonl/Csv/ParquetVecOps
//!                                       instance shared by all sources of the case that name it, in
//!                                       whatever pipeline.  Parquet rows are a struct, the call maps
//!                                       them to rows: 1 + 2 locks; JSONL / CSV: 1 lock.
//!     ["collect", mode, [t,k]]          mode 0 collect_seq; 1..=999 collect_par(None, Some(mode));
//!                                       1000 collect_par(None, None); 1001 collect();
//!                                       1002 collect_seq_sorted; 1003 collect_par_sorted(None, Some(2));
//!                                       1004 collect_par_sorted_by_key(None, Some(3));
//!                                       1005 Runner{Sequential, default_partitions 1}.run_collect;
//!                                       1006 Runner{Parallel{None,None}, default_partitions 3}.run_collect
//!                                       1007 / 1008 Runner{Sequential / Parallel{None, Some(2)}} with
//!                                       checkpointing ENABLED (the two further copies of the engine)
//!                                       in a directory of its own
//!     ["digest", mode, [t,k]]           the same, but only [n, sum h, sum (i+1) h] of the rows is
//!                                       reported (["okd", n, s1, s2]); h = row_hash, see below
//!
//! Values: rows are (i64 key, Val); Val = int | pair | none | some, JSON: z | [a,b] | null | [a].
use ibv::{Emitter, SplitMix64, Tier, drive};
use ironbeam::verif::set_yield_hook;
use ironbeam::collection::LiftableCombiner;
use ironbeam::checkpoint::{CheckpointConfig, CheckpointPolicy};
use ironbeam::io::csv::{CsvVecOps, build_csv_shards};
use ironbeam::io::jsonl::{JsonlVecOps, build_jsonl_shards};
use ironbeam::io::parquet::{ParquetVecOps, build_parquet_shards};
use ironbeam::type_token::{VecOps, vec_ops_for};
use ironbeam::{
    CombineFn, DynOp, ExecMode, PCollection, Partition, Pipeline, Runner, Timestamped, Window,
    from_custom_source, from_iter, from_vec, read_csv_streaming, read_jsonl_streaming, read_parquet_streaming,
};
use serde::{Deserialize, Serialize};
use serde_json::{Value, json};
use std::any::Any;
use std::path::{Path, PathBuf};
use std::cell::Cell;
use std::collections::HashMap;
use std::panic::{AssertUnwindSafe, catch_unwind};
use std::sync::atomic::{AtomicUsize, Ordering};
use std::sync::{Arc, Condvar, Mutex};
use std::time::{Duration, Instant};

// ------------------------------------------------------------------ values

#[derive(Clone, PartialEq, Eq, Hash, Debug)]
enum Val {
    I(i64),
    P(Box<Val>, Box<Val>),
    N,
    S(Box<Val>),
}
/// order by score first (top_k_per_key then keeps the values with the largest scores), ties
/// broken structurally so that Ord is consistent with Eq
impl Ord for Val {
    fn cmp(&self, o: &Val) -> std::cmp::Ordering {
        (self.score(), format!("{self:?}")).cmp(&(o.score(), format!("{o:?}")))
    }
}
impl PartialOrd for Val {
    fn partial_cmp(&self, o: &Val) -> Option<std::cmp::Ordering> {
        Some(self.cmp(o))
    }
}
impl Val {
    fn bump(&self, c: i64) -> Val {
        match self {
            Val::I(z) => Val::I(z + c),
            Val::P(a, b) => Val::P(Box::new(a.bump(c)), Box::new(b.bump(c))),
            Val::N => Val::N,
            Val::S(a) => Val::S(Box::new(a.bump(c))),
        }
    }
    fn score(&self) -> i64 {
        match self {
            Val::I(z) => *z,
            Val::P(a, b) => a.score() + b.score(),
            Val::N => 0,
            Val::S(a) => a.score(),
        }
    }
    fn json(&self) -> Value {
        match self {
            Val::I(z) => json!(z),
            Val::P(a, b) => json!([a.json(), b.json()]),
            Val::N => Value::Null,
            Val::S(a) => json!([a.json()]),
        }
    }
}
fn opt(v: Option<Val>) -> Val {
    v.map_or(Val::N, |x| Val::S(Box::new(x)))
}
type Row = (i64, Val);
fn rows_json(rows: &[Row]) -> Value {
    Value::Array(rows.iter().map(|(k, v)| json!([k, v.json()])).collect())
}
/// a value read from a file is an integer leaf (JSONL line `[k,v]`, CSV record `k,v`)
impl<'de> Deserialize<'de> for Val {
    fn deserialize<D: serde::Deserializer<'de>>(d: D) -> Result<Val, D::Error> {
        i64::deserialize(d).map(Val::I)
    }
}
/// Parquet rows are structs
#[derive(Clone, Serialize, Deserialize)]
struct PRow {
    k: i64,
    v: i64,
}

/// hash of a value / a row for the digests of big results (mirrored in Corr/C08.v; no division:
/// the Coq side evaluates it on every row under vm_compute)
fn val_hash(v: &Val) -> i128 {
    match v {
        Val::I(z) => i128::from(*z),
        Val::P(a, b) => val_hash(a) * 31 + val_hash(b) * 17 + 1,
        Val::N => 7,
        Val::S(a) => val_hash(a) * 13 + 3,
    }
}
fn row_hash(r: &Row) -> i128 {
    (i128::from(r.0) * 1_000_003 + val_hash(&r.1)) & 0xF_FFFF
}
/// ["okd", n, sum of h, sum of (i+1) h]
fn rows_digest(rows: &[Row]) -> Value {
    let (mut s1, mut s2) = (0i128, 0i128);
    for (i, r) in rows.iter().enumerate() {
        let h = row_hash(r);
        s1 += h;
        s2 += (i as i128 + 1) * h;
    }
    json!(["okd", rows.len(), s1 as i64, s2 as i64])
}

// ------------------------------------------------------------------ row / file specifications

/// rows of a source: listed, or generated (row i = (i mod kmod, base + i))
#[derive(Clone, Debug, PartialEq)]
enum RowsSpec {
    List(Vec<(i64, i64)>),
    Gen(usize, i64, i64),
}
impl RowsSpec {
    fn rows(&self) -> Vec<(i64, i64)> {
        match self {
            RowsSpec::List(d) => d.clone(),
            RowsSpec::Gen(n, base, kmod) => {
                (0..*n as i64).map(|i| (i.rem_euclid(*kmod), base + i)).collect()
            }
        }
    }
    fn json(&self) -> Value {
        match self {
            RowsSpec::List(d) => Value::Array(d.iter().map(|(k, v)| json!([k, v])).collect()),
            RowsSpec::Gen(n, base, kmod) => json!(["gen", n, base, kmod]),
        }
    }
    fn parse(v: &Value) -> Option<RowsSpec> {
        let a = v.as_array()?;
        if a.first().and_then(Value::as_str) == Some("gen") {
            if a.len() != 4 {
                return None;
            }
            let (n, base, kmod) = (a[1].as_u64()? as usize, a[2].as_i64()?, a[3].as_i64()?);
            if n > MAX_ROWS || kmod < 1 || base.abs() > 1_000_000 {
                return None;
            }
            return Some(RowsSpec::Gen(n, base, kmod));
        }
        let mut d = Vec::new();
        for r in a {
            d.push(parse_pair(r)?);
        }
        Some(RowsSpec::List(d))
    }
}
const MAX_ROWS: usize = 1 << 17;
fn parse_pair(r: &Value) -> Option<(i64, i64)> {
    let r = r.as_array()?;
    if r.len() != 2 {
        return None;
    }
    Some((r[0].as_i64()?, r[1].as_i64()?))
}

/// lines of a file: listed (None = blank line), or generated
#[derive(Clone, Debug, PartialEq)]
enum LinesSpec {
    List(Vec<Option<(i64, i64)>>),
    Gen(usize, i64, i64, usize),
}
impl LinesSpec {
    fn lines(&self) -> Vec<Option<(i64, i64)>> {
        match self {
            LinesSpec::List(d) => d.clone(),
            LinesSpec::Gen(n, base, kmod, blank) => (0..*n)
                .map(|i| {
                    if *blank > 0 && i % blank == blank - 1 {
                        None
                    } else {
                        Some(((i as i64).rem_euclid(*kmod), base + i as i64))
                    }
                })
                .collect(),
        }
    }
    fn has_blank(&self) -> bool {
        match self {
            LinesSpec::List(d) => d.iter().any(Option::is_none),
            LinesSpec::Gen(n, _, _, blank) => *blank > 0 && *blank <= *n,
        }
    }
    fn json(&self) -> Value {
        match self {
            LinesSpec::List(d) => Value::Array(
                d.iter().map(|l| l.map_or(Value::Null, |(k, v)| json!([k, v]))).collect(),
            ),
            LinesSpec::Gen(n, base, kmod, blank) => json!(["gen", n, base, kmod, blank]),
        }
    }
    fn parse(v: &Value) -> Option<LinesSpec> {
        let a = v.as_array()?;
        if a.first().and_then(Value::as_str) == Some("gen") {
            if a.len() != 5 {
                return None;
            }
            let (n, base, kmod, blank) =
                (a[1].as_u64()? as usize, a[2].as_i64()?, a[3].as_i64()?, a[4].as_u64()? as usize);
            if n > MAX_ROWS || kmod < 1 || base.abs() > 1_000_000 {
                return None;
            }
            return Some(LinesSpec::Gen(n, base, kmod, blank));
        }
        let mut d = Vec::new();
        for r in a {
            d.push(if r.is_null() { None } else { Some(parse_pair(r)?) });
        }
        Some(LinesSpec::List(d))
    }
}
#[derive(Clone, Debug, PartialEq)]
struct FileSpec {
    fmt: u8,  // 0 JSONL, 1 CSV, 2 Parquet
    p: usize, // CSV: has_headers; Parquet: max row-group size (0 = ironbeam's writer)
    lines: LinesSpec,
}
impl FileSpec {
    fn json(&self) -> Value {
        json!([self.fmt, self.p, self.lines.json()])
    }
    fn parse(v: &Value) -> Option<FileSpec> {
        let a = v.as_array()?;
        if a.len() != 3 {
            return None;
        }
        let f = FileSpec {
            fmt: u8::try_from(a[0].as_u64()?).ok()?,
            p: a[1].as_u64()? as usize,
            lines: LinesSpec::parse(&a[2])?,
        };
        let ok = match f.fmt {
            0 => f.p == 0,
            1 => f.p <= 1 && !f.lines.has_blank(),
            // an empty Parquet file has no schema to infer the columns from: not generated
            2 => f.p <= MAX_ROWS && !f.lines.has_blank() && !f.lines.lines().is_empty(),
            _ => false,
        };
        if ok { Some(f) } else { None }
    }
    /// write the file (by hand for JSONL / CSV; Parquet through arrow or ironbeam's writer)
    fn write(&self, path: &Path) -> anyhow::Result<()> {
        use std::fmt::Write as _;
        let lines = self.lines.lines();
        match self.fmt {
            0 => {
                let mut s = String::new();
                for l in &lines {
                    match l {
                        Some((k, v)) => writeln!(s, "[{k},{v}]")?,
                        None => s.push('\n'),
                    }
                }
                std::fs::write(path, s)?;
            }
            1 => {
                let mut s = String::new();
                if self.p == 1 {
                    s.push_str("k,v\n");
                }
                for (k, v) in lines.iter().flatten() {
                    writeln!(s, "{k},{v}")?;
                }
                std::fs::write(path, s)?;
            }
            _ => {
                let data: Vec<PRow> = lines.iter().flatten().map(|(k, v)| PRow { k: *k, v: *v }).collect();
                if self.p == 0 {
                    ironbeam::write_parquet_vec(path, &data)?;
                } else {
                    write_parquet_groups(path, &data, self.p)?;
                }
            }
        }
        Ok(())
    }
}
fn write_parquet_groups(path: &Path, data: &Vec<PRow>, rg: usize) -> anyhow::Result<()> {
    use arrow::datatypes::FieldRef;
    use parquet::arrow::arrow_writer::ArrowWriter;
    use parquet::file::properties::WriterProperties;
    use serde_arrow::schema::{SchemaLike, TracingOptions};
    let fields: Vec<FieldRef> = Vec::<FieldRef>::from_type::<PRow>(TracingOptions::default())?;
    let batch = serde_arrow::to_record_batch(&fields, data)?;
    let props = WriterProperties::builder().set_max_row_group_size(rg).build();
    let mut w = ArrowWriter::try_new(std::fs::File::create(path)?, batch.schema(), Some(props))?;
    w.write(&batch)?;
    w.close()?;
    Ok(())
}
#[derive(Clone, Debug, Default, PartialEq)]
struct Env {
    pipes: Vec<usize>,
    files: Vec<FileSpec>,
}
impl Env {
    fn plain(n: usize) -> Env {
        Env { pipes: vec![0; n], files: Vec::new() }
    }
    fn is_plain(&self) -> bool {
        self.files.is_empty() && self.pipes.iter().all(|q| *q == 0)
    }
    fn json(&self) -> Value {
        json!([self.pipes, self.files.iter().map(FileSpec::json).collect::<Vec<_>>()])
    }
    fn parse(v: &Value, n: usize) -> Option<Env> {
        let a = v.as_array()?;
        if a.len() != 2 {
            return None;
        }
        let mut pipes = Vec::new();
        for q in a[0].as_array()? {
            let q = q.as_u64()? as usize;
            if q > 3 {
                return None;
            }
            pipes.push(q);
        }
        if pipes.len() != n {
            return None;
        }
        let mut files = Vec::new();
        for f in a[1].as_array()? {
            files.push(FileSpec::parse(f)?);
        }
        if files.len() > 16 {
            return None;
        }
        Some(Env { pipes, files })
    }
}

/// a user adapter that reads like the wrapped one but cannot tell the length
struct NoLen(Arc<dyn VecOps>);
impl VecOps for NoLen {
    fn len(&self, _data: &dyn Any) -> Option<usize> {
        None
    }
    fn split(&self, data: &dyn Any, n: usize) -> Option<Vec<Partition>> {
        self.0.split(data, n)
    }
    fn clone_any(&self, data: &dyn Any) -> Option<Partition> {
        self.0.clone_any(data)
    }
}
/// A user-written source (the shape of the example in the `from_custom_source` documentation and
/// of tests/extensions.rs): the payload is a list of pages.
struct Pages(Vec<Vec<Row>>);
struct PagesOps {
    lm: u8,
    sp: u8,
}
impl VecOps for PagesOps {
    fn len(&self, data: &dyn Any) -> Option<usize> {
        let p = data.downcast_ref::<Pages>()?;
        if self.lm == 0 { None } else { Some(p.0.iter().map(Vec::len).sum()) }
    }
    fn split(&self, data: &dyn Any, n: usize) -> Option<Vec<Partition>> {
        let p = data.downcast_ref::<Pages>()?;
        match self.sp {
            0 => None,
            1 => Some(p.0.iter().map(|pg| Box::new(pg.clone()) as Partition).collect()),
            _ => {
                let flat: Vec<Row> = p.0.iter().flatten().cloned().collect();
                vec_ops_for::<Row>().split(&flat, n)
            }
        }
    }
    fn clone_any(&self, data: &dyn Any) -> Option<Partition> {
        let p = data.downcast_ref::<Pages>()?;
        Some(Box::new(p.0.iter().flatten().cloned().collect::<Vec<Row>>()) as Partition)
    }
}

// ------------------------------------------------------------------ the builder table
// Every public transform builder of ironbeam has its own copy of "insert_node; connect; return
// a new handle".  A derive op of a history is one of these builders (followed, where the
// builder changes the element type, by a `map` back to Row so that every general handle is a
// PCollection<Row>).  `nodes` = number of nodes the op inserts = half its pipeline locks.
// Value-only operators (map_values, filter_values, map_values_batches) are chosen to commute
// pairwise: the planner's re-ordering of value-only runs is the open finding C02/C03-reorder
// and not this property's subject.
#[derive(Clone, Copy, Debug, PartialEq, Eq)]
enum Op {
    Map,
    Filter,
    FlatMap,
    MapValues,
    FilterValues,
    MapBatches,
    MapValuesBatches,
    CombineValues,
    CombineGlobally,
    CombineGloballyLifted,
    ApplyTransform,
    Distinct,
    DistinctPerKey,
    GbkLifted,
    KeyBy,
    GroupByKey,
    TopKPerKey,
    KeyByWindow,
    GroupByWindow,
    GroupByKeyAndWindow,
}
const OPS: [Op; 20] = [
    Op::Map,
    Op::Filter,
    Op::FlatMap,
    Op::MapValues,
    Op::FilterValues,
    Op::MapBatches,
    Op::MapValuesBatches,
    Op::CombineValues,
    Op::CombineGlobally,
    Op::CombineGloballyLifted,
    Op::ApplyTransform,
    Op::Distinct,
    Op::DistinctPerKey,
    Op::GbkLifted,
    Op::KeyBy,
    Op::GroupByKey,
    Op::TopKPerKey,
    Op::KeyByWindow,
    Op::GroupByWindow,
    Op::GroupByKeyAndWindow,
];
impl Op {
    fn name(self) -> &'static str {
        match self {
            Op::Map => "map",
            Op::Filter => "filter",
            Op::FlatMap => "flat_map",
            Op::MapValues => "map_values",
            Op::FilterValues => "filter_values",
            Op::MapBatches => "map_batches",
            Op::MapValuesBatches => "map_values_batches",
            Op::CombineValues => "combine_values",
            Op::CombineGlobally => "combine_globally",
            Op::CombineGloballyLifted => "combine_globally_lifted",
            Op::ApplyTransform => "apply_transform",
            Op::Distinct => "distinct",
            Op::DistinctPerKey => "distinct_per_key",
            Op::GbkLifted => "gbk_lifted",
            Op::KeyBy => "key_by",
            Op::GroupByKey => "group_by_key",
            Op::TopKPerKey => "top_k_per_key",
            Op::KeyByWindow => "key_by_window",
            Op::GroupByWindow => "group_by_window",
            Op::GroupByKeyAndWindow => "group_by_key_and_window",
        }
    }
    fn from_name(n: &str) -> Option<Op> {
        OPS.iter().copied().find(|o| o.name() == n)
    }
    /// nodes inserted (each: one insert_node lock + one connect lock)
    fn nodes(self) -> usize {
        match self {
            Op::Distinct | Op::GbkLifted | Op::KeyBy | Op::GroupByKey | Op::TopKPerKey => 2,
            Op::DistinctPerKey | Op::KeyByWindow => 3,
            Op::GroupByWindow | Op::GroupByKeyAndWindow => 4,
            _ => 1,
        }
    }
    fn params_ok(self, a: i64, b: i64) -> bool {
        match self {
            Op::Filter | Op::FilterValues => a > 0 && (0..a).contains(&b),
            Op::MapBatches => (1..=8).contains(&a) && b.abs() < 1000,
            Op::MapValuesBatches => (1..=8).contains(&a),
            Op::CombineGlobally | Op::CombineGloballyLifted => (0..=8).contains(&a),
            Op::KeyBy => (1..=8).contains(&a),
            Op::TopKPerKey => (0..=8).contains(&a),
            Op::KeyByWindow | Op::GroupByWindow | Op::GroupByKeyAndWindow => (1..=100).contains(&a),
            _ => a.abs() < 1000,
        }
    }
    fn gen_params(self, rng: &mut SplitMix64) -> (i64, i64) {
        match self {
            Op::Filter | Op::FilterValues => {
                let m = rng.range(2, 3);
                (m, rng.range(0, m - 1))
            }
            Op::MapBatches => (rng.range(1, 3), rng.range(1, 3)),
            Op::MapValuesBatches => (rng.range(1, 3), 0),
            Op::CombineGlobally | Op::CombineGloballyLifted => (rng.range(0, 3), 0),
            Op::KeyBy => (rng.range(2, 3), 0),
            Op::TopKPerKey => (rng.range(0, 2), 0),
            Op::KeyByWindow | Op::GroupByWindow | Op::GroupByKeyAndWindow => (rng.range(2, 5), 0),
            Op::Map | Op::FlatMap | Op::ApplyTransform => (rng.range(1, 3), 0),
            _ => (0, 0),
        }
    }
}

#[derive(Clone)]
struct Tick(Arc<AtomicUsize>);
impl Tick {
    fn hit(&self) {
        self.0.fetch_add(1, Ordering::SeqCst);
    }
}
fn some(v: &Val) -> Val {
    Val::S(Box::new(v.clone()))
}
fn fanout(a: i64) -> Option<usize> {
    if a == 0 { None } else { Some(a as usize) }
}
/// sum of the scores of the values, per key (CombineFn user code: counted)
struct ScoreSum(Tick);
impl CombineFn<Val, i64, Val> for ScoreSum {
    fn create(&self) -> i64 {
        0
    }
    fn add_input(&self, acc: &mut i64, v: Val) {
        self.0.hit();
        *acc += v.score();
    }
    fn merge(&self, acc: &mut i64, other: i64) {
        *acc += other;
    }
    fn finish(&self, acc: i64) -> Val {
        Val::I(acc)
    }
}
impl LiftableCombiner<Val, i64, Val> for ScoreSum {}
/// sum of key + score over all rows, one output row (0, sum)
struct RowSum(Tick);
impl CombineFn<Row, i64, Row> for RowSum {
    fn create(&self) -> i64 {
        0
    }
    fn add_input(&self, acc: &mut i64, r: Row) {
        self.0.hit();
        *acc += r.0 + r.1.score();
    }
    fn merge(&self, acc: &mut i64, other: i64) {
        *acc += other;
    }
    fn finish(&self, acc: i64) -> Row {
        (0, Val::I(acc))
    }
}
impl LiftableCombiner<Row, i64, Row> for RowSum {}
/// custom operator for apply_transform
struct BumpOp(i64, Tick);
impl DynOp for BumpOp {
    fn apply(&self, input: Partition) -> Partition {
        self.1.hit();
        let v = *input.downcast::<Vec<Row>>().expect("BumpOp expects Vec<Row>");
        Box::new(v.into_iter().map(|(k, x)| (k, x.bump(self.0))).collect::<Vec<Row>>())
    }
}
fn len_sum(scores: impl Iterator<Item = i64>) -> Val {
    let (mut n, mut s) = (0i64, 0i64);
    for x in scores {
        n += 1;
        s += x;
    }
    pair(Val::I(n), Val::I(s))
}

fn build_derive(tk: &Tick, op: Op, a: i64, b: i64, p: PCollection<Row>) -> PCollection<Row> {
    let (t1, t2, t3) = (tk.clone(), tk.clone(), tk.clone());
    match op {
        Op::Map => p.map(move |(k, v): &Row| {
            t1.hit();
            (*k, v.bump(a))
        }),
        Op::Filter => p.filter(move |(_, v): &Row| {
            t1.hit();
            v.score().rem_euclid(a) == b
        }),
        Op::FlatMap => p.flat_map(move |(k, v): &Row| {
            t1.hit();
            if v.score().rem_euclid(2) == 0 {
                vec![(*k, v.clone()), (*k, v.bump(a))]
            } else {
                vec![(*k, v.clone())]
            }
        }),
        Op::MapValues => p.map_values(move |v: &Val| {
            t1.hit();
            some(v)
        }),
        Op::FilterValues => p.filter_values(move |v: &Val| {
            t1.hit();
            v.score().rem_euclid(a) == b
        }),
        Op::MapBatches => p.map_batches(a as usize, move |batch: &[Row]| {
            t1.hit();
            batch.iter().map(|(k, v)| (*k, v.bump(b))).collect::<Vec<Row>>()
        }),
        Op::MapValuesBatches => p.map_values_batches(a as usize, move |vs: &[Val]| {
            t1.hit();
            vs.iter().map(some).collect::<Vec<Val>>()
        }),
        Op::CombineValues => p.combine_values(ScoreSum(t1)),
        Op::CombineGlobally => p.combine_globally(RowSum(t1), fanout(a)),
        Op::CombineGloballyLifted => p.combine_globally_lifted(RowSum(t1), fanout(a)),
        Op::ApplyTransform => p.apply_transform::<Row>(Arc::new(BumpOp(a, t1))),
        Op::Distinct => p.distinct(),
        Op::DistinctPerKey => p.distinct_per_key(),
        Op::GbkLifted => p.group_by_key().combine_values_lifted(ScoreSum(t1)),
        Op::KeyBy => p
            .key_by(move |(_, v): &Row| {
                t1.hit();
                v.score().rem_euclid(a)
            })
            .map(move |(k2, (k, v)): &(i64, Row)| {
                t2.hit();
                (*k2, pair(Val::I(*k), v.clone()))
            }),
        Op::GroupByKey => p.group_by_key().map(move |(k, vs): &(i64, Vec<Val>)| {
            t1.hit();
            (*k, len_sum(vs.iter().map(Val::score)))
        }),
        Op::TopKPerKey => p.top_k_per_key(a as usize).map(move |(k, vs): &(i64, Vec<Val>)| {
            t1.hit();
            (*k, Val::I(vs.iter().map(Val::score).sum()))
        }),
        Op::KeyByWindow => p
            .attach_timestamps(move |(_, v): &Row| {
                t1.hit();
                v.score().max(0) as u64
            })
            .key_by_window(a as u64, 0)
            .map(move |(w, (k, v)): &(Window, Row)| {
                t2.hit();
                (w.start as i64, pair(Val::I(*k), v.clone()))
            }),
        Op::GroupByWindow => p
            .attach_timestamps(move |(_, v): &Row| {
                t1.hit();
                v.score().max(0) as u64
            })
            .group_by_window(a as u64, 0)
            .map(move |(w, rows): &(Window, Vec<Row>)| {
                t2.hit();
                (w.start as i64, len_sum(rows.iter().map(|(k, v)| *k + v.score())))
            }),
        Op::GroupByKeyAndWindow => p
            .map_values(move |v: &Val| {
                t1.hit();
                Timestamped::new(v.score().max(0) as u64, v.clone())
            })
            .group_by_key_and_window(a as u64, 0)
            .map(move |((k, w), vs): &((i64, Window), Vec<Val>)| {
                t3.hit();
                (*k * 1000 + w.start as i64, len_sum(vs.iter().map(Val::score)))
            }),
    }
}

// ------------------------------------------------------------------ programs

type Ref = (usize, usize);
#[derive(Clone, Debug)]
enum Call {
    Src(RowsSpec),
    /// from_custom_source over a user-written VecOps: (len mode, split mode, pages)
    Custom(u8, u8, Vec<Vec<(i64, i64)>>),
    /// a streamed file source: adapter (0 = the read_*_streaming entry point), file, shard size,
    /// and the file's format (copied from the file table when the call is parsed)
    File(usize, usize, usize, u8),
    /// one public transform builder (table `Op`) with two integer parameters
    Derive(Op, i64, i64, Ref),
    Join(u8, Ref, Ref),
    /// mode, handle, report a digest instead of the rows
    Collect(usize, Ref, bool),
}
fn mode_ok(m: usize) -> bool {
    m <= 999 || (1000..=1008).contains(&m)
}
impl Call {
    /// number of pipeline-lock acquisitions (= yield points) of the call
    fn steps(&self) -> usize {
        match self {
            Call::Src(_) | Call::Custom(..) => 1,
            Call::File(_, _, _, fmt) => if *fmt == 2 { 3 } else { 1 },
            Call::Derive(op, ..) => 2 * op.nodes(),
            Call::Join(..) => 7,
            Call::Collect(..) => 3,
        }
    }
    fn inserts(&self) -> usize {
        match self {
            Call::Src(_) | Call::Custom(..) => 1,
            Call::File(_, _, _, fmt) => if *fmt == 2 { 2 } else { 1 },
            Call::Derive(op, ..) => op.nodes(),
            Call::Join(..) => 3,
            Call::Collect(..) => 0,
        }
    }
    fn is_source(&self) -> bool {
        matches!(self, Call::Src(_) | Call::Custom(..) | Call::File(..))
    }
    fn json(&self) -> Value {
        match self {
            Call::Src(d) => json!(["src", d.json()]),
            Call::Custom(lm, sp, pages) => json!([
                "custom",
                lm,
                sp,
                pages
                    .iter()
                    .map(|pg| pg.iter().map(|(k, v)| json!([k, v])).collect::<Vec<_>>())
                    .collect::<Vec<_>>()
            ]),
            Call::File(a, f, s, _) => json!(["file", a, f, s]),
            Call::Derive(Op::Map, c, _, r) => json!(["map", c, [r.0, r.1]]),
            Call::Derive(op, a, b, r) => json!([op.name(), a, b, [r.0, r.1]]),
            Call::Join(k, l, r) => json!(["join", k, [l.0, l.1], [r.0, r.1]]),
            Call::Collect(m, x, false) => json!(["collect", m, [x.0, x.1]]),
            Call::Collect(m, x, true) => json!(["digest", m, [x.0, x.1]]),
        }
    }
}
fn programs_json(ps: &[Vec<Call>]) -> Value {
    Value::Array(ps.iter().map(|p| Value::Array(p.iter().map(Call::json).collect())).collect())
}

fn parse_ref(v: &Value) -> Option<Ref> {
    let a = v.as_array()?;
    if a.len() != 2 {
        return None;
    }
    Some((a[0].as_u64()? as usize, a[1].as_u64()? as usize))
}
fn parse_call(v: &Value, files: &[FileSpec]) -> Option<Call> {
    let a = v.as_array()?;
    match (a.first()?.as_str()?, a.len()) {
        ("src", 2) => Some(Call::Src(RowsSpec::parse(&a[1])?)),
        ("custom", 4) => {
            let (lm, sp) = (a[1].as_u64()?, a[2].as_u64()?);
            if lm > 1 || sp > 3 {
                return None;
            }
            let mut pages = Vec::new();
            for pg in a[3].as_array()? {
                let mut rows = Vec::new();
                for r in pg.as_array()? {
                    rows.push(parse_pair(r)?);
                }
                pages.push(rows);
            }
            Some(Call::Custom(lm as u8, sp as u8, pages))
        }
        ("file", 4) => {
            let (ad, f, sh) = (a[1].as_u64()? as usize, a[2].as_u64()? as usize, a[3].as_u64()? as usize);
            if ad > 8 || sh > 2 * MAX_ROWS + 1 {
                return None;
            }
            Some(Call::File(ad, f, sh, files.get(f)?.fmt))
        }
        ("map", 3) => Some(Call::Derive(Op::Map, a[1].as_i64()?, 0, parse_ref(&a[2])?)),
        (name, 4) if Op::from_name(name).is_some() => {
            let op = Op::from_name(name)?;
            let (x, y) = (a[1].as_i64()?, a[2].as_i64()?);
            if !op.params_ok(x, y) {
                return None;
            }
            Some(Call::Derive(op, x, y, parse_ref(&a[3])?))
        }
        ("join", 4) => {
            let k = a[1].as_u64()?;
            if k > 3 {
                return None;
            }
            Some(Call::Join(k as u8, parse_ref(&a[2])?, parse_ref(&a[3])?))
        }
        (tag @ ("collect" | "digest"), 3) => {
            let m = a[1].as_u64()? as usize;
            if !mode_ok(m) {
                return None;
            }
            Some(Call::Collect(m, parse_ref(&a[2])?, tag == "digest"))
        }
        _ => None,
    }
}
fn parse_programs(n: &Value, v: &Value, files: &[FileSpec]) -> Option<Vec<Vec<Call>>> {
    let n = n.as_u64()? as usize;
    let a = v.as_array()?;
    if a.len() != n || n == 0 || n > 8 {
        return None;
    }
    let mut out = Vec::new();
    for p in a {
        let mut calls = Vec::new();
        for c in p.as_array()? {
            calls.push(parse_call(c, files)?);
        }
        out.push(calls);
    }
    Some(out)
}

/// is the k-th handle produced by program `p` a general one (not the raw output of a join)?
fn handle_kinds(p: &[Call]) -> Vec<bool> {
    let mut out = Vec::new();
    for c in p {
        match c {
            Call::Src(_) | Call::Custom(..) | Call::File(..) | Call::Derive(..) => out.push(true),
            Call::Join(..) => {
                out.push(false);
                out.push(true);
            }
            Call::Collect(..) => {}
        }
    }
    out
}

// ------------------------------------------------------------------ step-count simulation
// (validates an input and drives the generator; it knows nothing about values)

struct Sim<'a> {
    programs: &'a [Vec<Call>],
    pipes: Vec<usize>,
    kinds: Vec<Vec<bool>>,
    pos: Vec<(usize, usize)>, // next (call, step) of each thread
    produced: Vec<usize>,     // handles completed by each thread
}
impl<'a> Sim<'a> {
    fn new(programs: &'a [Vec<Call>], pipes: &[usize]) -> Self {
        Sim {
            programs,
            pipes: (0..programs.len()).map(|t| pipes.get(t).copied().unwrap_or(0)).collect(),
            kinds: programs.iter().map(|p| handle_kinds(p)).collect(),
            pos: vec![(0, 0); programs.len()],
            produced: vec![0; programs.len()],
        }
    }
    fn done(&self, t: usize) -> bool {
        self.pos[t].0 >= self.programs[t].len()
    }
    /// thread t may use handle r: it exists, belongs to t's pipeline (and is a general one)
    fn avail(&self, t: usize, r: Ref, need_general: bool) -> bool {
        r.0 < self.programs.len()
            && self.pipes[r.0] == self.pipes[t]
            && r.1 < self.produced[r.0]
            && (!need_general || self.kinds[r.0][r.1])
    }
    /// one turn of thread t; Err = the call it starts uses a handle that is not available
    fn turn(&mut self, t: usize) -> Result<Option<(usize, usize)>, ()> {
        if t >= self.programs.len() {
            return Err(());
        }
        if self.done(t) {
            return Ok(None);
        }
        let (ci, st) = self.pos[t];
        let call = &self.programs[t][ci];
        if st == 0 {
            let ok = match call {
                Call::Src(_) | Call::Custom(..) | Call::File(..) => true,
                Call::Derive(_, _, _, r) => self.avail(t, *r, true),
                Call::Join(_, l, r) => self.avail(t, *l, true) && self.avail(t, *r, true),
                Call::Collect(_, r, _) => self.avail(t, *r, false),
            };
            if !ok {
                return Err(());
            }
        }
        // handles appear with the last lock of the API call that returns them
        match call {
            Call::Src(_) | Call::Custom(..) | Call::File(..) if st + 1 == call.steps() => {
                self.produced[t] += 1;
            }
            Call::Derive(op, ..) if st + 1 == 2 * op.nodes() => self.produced[t] += 1,
            Call::Join(..) if st == 4 || st == 6 => self.produced[t] += 1,
            _ => {}
        }
        self.pos[t] = if st + 1 == call.steps() { (ci + 1, 0) } else { (ci, st + 1) };
        Ok(Some((ci, st)))
    }
}

/// the turns (tid, call, step) of schedule + drain, or None when the input is not a valid history
fn simulate(
    programs: &[Vec<Call>],
    pipes: &[usize],
    schedule: &[usize],
) -> Option<Vec<(usize, usize, usize)>> {
    let mut sim = Sim::new(programs, pipes);
    let mut turns = Vec::new();
    for &t in schedule {
        if let Some((c, s)) = sim.turn(t).ok()? {
            turns.push((t, c, s));
        }
    }
    for t in 0..programs.len() {
        while !sim.done(t) {
            let (c, s) = sim.turn(t).ok()??;
            turns.push((t, c, s));
        }
    }
    Some(turns)
}

// ------------------------------------------------------------------ cooperative scheduler

thread_local! {
    static TID: Cell<Option<usize>> = const { Cell::new(None) };
    static EPOCH: Cell<usize> = const { Cell::new(0) };
    static PASS_FIRST: Cell<bool> = const { Cell::new(false) };
    static CALL: Cell<usize> = const { Cell::new(0) };
    static STEP: Cell<usize> = const { Cell::new(0) };
}

#[derive(Clone, Copy, PartialEq, Debug)]
enum St {
    Running,
    Waiting,
    Done,
}
struct SchedState {
    turn: Option<usize>,
    st: Vec<St>,
    pos: Vec<(usize, usize)>,
    abort: bool,
}
struct Sched {
    m: Mutex<SchedState>,
    cv: Condvar,
    /// threads of an abandoned earlier case may still be running: they carry another epoch and
    /// pass every yield point without taking part in this case's schedule
    epoch: usize,
}
/// Watchdog limit of one grant / one wait for a handle.  60 s covers a loaded machine; once
/// real hangs have been observed in this process the limit shrinks, so that an implementation
/// that hangs in EVERY case still lets the run finish (each case is reported as ["hang"]).
static HANGS: AtomicUsize = AtomicUsize::new(0);
static EPOCHS: AtomicUsize = AtomicUsize::new(1);
fn step_limit() -> Duration {
    match HANGS.load(Ordering::SeqCst) {
        0..=1 => Duration::from_secs(60),
        _ => Duration::from_secs(5),
    }
}
/// after this many observed hangs the generator stops emitting further cases (every emitted case
/// has really been run; the hangs already are failing cases)
const MAX_HANGS: usize = 12;
fn too_many_hangs() -> bool {
    HANGS.load(Ordering::SeqCst) >= MAX_HANGS
}
/// lock that survives poisoning (a panicking implementation call never holds these locks, but
/// the harness must not die with it)
fn lk<T>(m: &Mutex<T>) -> std::sync::MutexGuard<'_, T> {
    m.lock().unwrap_or_else(std::sync::PoisonError::into_inner)
}

impl Sched {
    fn new(n: usize) -> Arc<Self> {
        Arc::new(Self {
            m: Mutex::new(SchedState {
                turn: None,
                st: vec![St::Running; n],
                pos: vec![(0, 0); n],
                abort: false,
            }),
            cv: Condvar::new(),
            epoch: EPOCHS.fetch_add(1, Ordering::SeqCst),
        })
    }
    /// park thread t at position (call, step) until it is granted a turn
    fn park(&self, t: usize, call: usize, step: usize) {
        let mut g = lk(&self.m);
        if g.abort {
            return;
        }
        g.st[t] = St::Waiting;
        g.pos[t] = (call, step);
        self.cv.notify_all();
        while g.turn != Some(t) && !g.abort {
            g = self.cv.wait(g).unwrap_or_else(std::sync::PoisonError::into_inner);
        }
        if g.turn == Some(t) {
            g.turn = None;
        }
    }
    /// hook body
    fn at_yield(&self) {
        let Some(t) = TID.with(Cell::get) else { return };
        if EPOCH.with(Cell::get) != self.epoch {
            return;
        }
        let step = STEP.with(Cell::get);
        STEP.with(|s| s.set(step + 1));
        if PASS_FIRST.with(Cell::get) {
            PASS_FIRST.with(|p| p.set(false));
            return;
        }
        self.park(t, CALL.with(Cell::get), step);
    }
    fn finish(&self, t: usize) {
        let mut g = lk(&self.m);
        g.st[t] = St::Done;
        self.cv.notify_all();
    }
    fn give_up(&self) {
        let mut g = lk(&self.m);
        g.abort = true;
        self.cv.notify_all();
    }
    fn quiesce(&self) -> bool {
        let deadline = Instant::now() + step_limit();
        let mut g = lk(&self.m);
        while g.st.iter().any(|s| *s == St::Running) {
            let now = Instant::now();
            if now >= deadline {
                return false;
            }
            g = self.cv.wait_timeout(g, deadline - now).unwrap_or_else(std::sync::PoisonError::into_inner).0;
        }
        true
    }
    /// grant one turn; Ok(None) = the thread had already finished (grant skipped);
    /// Ok(Some(pos)) = it was parked at pos and has now run up to its next park / its end
    fn grant(&self, t: usize) -> Result<Option<(usize, usize)>, ()> {
        let deadline = Instant::now() + step_limit();
        let mut g = lk(&self.m);
        if t >= g.st.len() || g.st[t] == St::Done {
            return Ok(None);
        }
        let pos = g.pos[t];
        g.st[t] = St::Running;
        g.turn = Some(t);
        self.cv.notify_all();
        while g.st[t] == St::Running {
            let now = Instant::now();
            if now >= deadline {
                return Err(());
            }
            g = self.cv.wait_timeout(g, deadline - now).unwrap_or_else(std::sync::PoisonError::into_inner).0;
        }
        Ok(Some(pos))
    }
    fn done(&self, t: usize) -> bool {
        lk(&self.m).st[t] == St::Done
    }
}

// ------------------------------------------------------------------ running the real API

#[derive(Clone)]
enum H {
    G(PCollection<Row>),
    JI(PCollection<(i64, (Val, Val))>),
    JL(PCollection<(i64, (Val, Option<Val>))>),
    JR(PCollection<(i64, (Option<Val>, Val))>),
    JF(PCollection<(i64, (Option<Val>, Option<Val>))>),
    /// the call that should have produced this handle panicked / could not be issued: whoever
    /// waits for the handle (free-running kind) is released at once
    Dead,
}

struct Shared {
    pipelines: Vec<Pipeline>,
    pipes: Vec<usize>,
    /// the files of the case, written before the threads start (None: could not be written)
    paths: Vec<PathBuf>,
    files: Vec<FileSpec>,
    /// the shared adapter objects, by (format, adapter number >= 1)
    adapters: Mutex<HashMap<(u8, usize), Arc<dyn VecOps>>>,
    /// ONE built-in Vec adapter shared by the custom sources with split mode 3
    impl_adapter: Arc<dyn VecOps>,
    table: Mutex<HashMap<Ref, H>>,
    table_cv: Condvar,
    counter: Arc<AtomicUsize>,
    wait_for_handles: bool, // stress mode: block until a referenced handle exists
}
impl Shared {
    fn publish(&self, r: Ref, h: H) {
        lk(&self.table).insert(r, h);
        self.table_cv.notify_all();
    }
    /// mark the handles (t, from..to) as never coming (only slots that are still empty)
    fn publish_dead(&self, t: usize, from: usize, to: usize) {
        let mut g = lk(&self.table);
        for k in from..to {
            g.entry((t, k)).or_insert(H::Dead);
        }
        drop(g);
        self.table_cv.notify_all();
    }
    fn get(&self, r: Ref) -> Option<H> {
        let deadline = Instant::now() + step_limit();
        let mut g = lk(&self.table);
        loop {
            if let Some(h) = g.get(&r) {
                return match h {
                    H::Dead => None,
                    h => Some(h.clone()),
                };
            }
            if !self.wait_for_handles {
                return None;
            }
            let now = Instant::now();
            if now >= deadline {
                return None;
            }
            g = self
                .table_cv
                .wait_timeout(g, deadline - now)
                .unwrap_or_else(std::sync::PoisonError::into_inner)
                .0;
        }
    }
    fn general(&self, r: Ref) -> Option<PCollection<Row>> {
        match self.get(r)? {
            H::G(p) => Some(p),
            _ => None,
        }
    }
    fn pipeline(&self, t: usize) -> &Pipeline {
        &self.pipelines[self.pipes[t]]
    }
    /// THE adapter object number `a` of a format: created on first use, shared afterwards
    fn adapter(&self, fmt: u8, a: usize) -> Arc<dyn VecOps> {
        let mut g = lk(&self.adapters);
        Arc::clone(g.entry((fmt, a)).or_insert_with(|| match fmt {
            0 => JsonlVecOps::<Row>::new() as Arc<dyn VecOps>,
            1 => CsvVecOps::<Row>::new() as Arc<dyn VecOps>,
            _ => ParquetVecOps::<PRow>::new() as Arc<dyn VecOps>,
        }))
    }
}

fn err_class(e: &anyhow::Error) -> &'static str {
    if e.to_string().contains("nested CoGroup") { "nested_cogroup" } else { "other" }
}
fn collect_one<K: Clone + Send + Sync + Ord + 'static, W: Clone + Send + Sync + Ord + 'static>(
    pl: &Pipeline,
    p: PCollection<(K, W)>,
    mode: usize,
    digest: bool,
    f: impl Fn(&(K, W)) -> Row,
) -> Value {
    let r = match mode {
        0 => p.collect_seq(),
        1..=999 => p.collect_par(None, Some(mode)),
        1000 => p.collect_par(None, None),
        1001 => p.collect(),
        1002 => p.collect_seq_sorted(),
        1003 => p.collect_par_sorted(None, Some(2)),
        1004 => p.collect_par_sorted_by_key(None, Some(3)),
        1005 => Runner { mode: ExecMode::Sequential, default_partitions: 1, ..Default::default() }
            .run_collect::<(K, W)>(pl, p.node_id()),
        1006 => Runner {
            mode: ExecMode::Parallel { threads: None, partitions: None },
            default_partitions: 3,
            ..Default::default()
        }
        .run_collect::<(K, W)>(pl, p.node_id()),
        _ => {
            // checkpointing enabled, every run in a directory of its own (removed afterwards)
            let dir = PathBuf::from(format!(
                "/verif/run/C08/scratch/ck-{}-{}",
                std::process::id(),
                CASE_NO.fetch_add(1, Ordering::SeqCst)
            ));
            let _guard = Scratch(Some(dir.clone()));
            Runner {
                mode: if mode == 1007 {
                    ExecMode::Sequential
                } else {
                    ExecMode::Parallel { threads: None, partitions: Some(2) }
                },
                default_partitions: 2,
                checkpoint_config: Some(CheckpointConfig {
                    enabled: true,
                    directory: dir,
                    policy: CheckpointPolicy::AfterEveryBarrier,
                    auto_recover: true,
                    max_checkpoints: Some(3),
                }),
            }
            .run_collect::<(K, W)>(pl, p.node_id())
        }
    };
    match r {
        Ok(v) => {
            let rows = v.iter().map(f).collect::<Vec<_>>();
            if digest { rows_digest(&rows) } else { json!(["ok", rows_json(&rows)]) }
        }
        Err(e) => json!(["err", err_class(&e)]),
    }
}
fn pair(a: Val, b: Val) -> Val {
    Val::P(Box::new(a), Box::new(b))
}

/// one call of thread t on the real API; `next` = index of the next handle this thread produces
fn exec_call(sh: &Shared, t: usize, next: &mut usize, call: &Call) -> Value {
    let y0 = STEP.with(Cell::get);
    let locks = || STEP.with(Cell::get) - y0;
    match call {
        Call::Src(d) => {
            let rows: Vec<Row> = d.rows().iter().map(|(k, v)| (*k, Val::I(*v))).collect();
            // the twin entry point from_iter for listed sources with an odd number of rows
            let h = if matches!(d, RowsSpec::List(_)) && rows.len() % 2 == 1 {
                from_iter(sh.pipeline(t), rows.into_iter())
            } else {
                from_vec(sh.pipeline(t), rows)
            };
            let id = h.node_id().raw();
            sh.publish((t, *next), H::G(h));
            *next += 1;
            json!(["h", id, locks()])
        }
        Call::Custom(lm, sp, pages) => {
            let pages: Vec<Vec<Row>> = pages
                .iter()
                .map(|pg| pg.iter().map(|(k, v)| (*k, Val::I(*v))).collect())
                .collect();
            let h: PCollection<Row> = if *sp == 3 {
                let flat: Vec<Row> = pages.into_iter().flatten().collect();
                let ops: Arc<dyn VecOps> = if *lm == 1 {
                    Arc::clone(&sh.impl_adapter)
                } else {
                    Arc::new(NoLen(Arc::clone(&sh.impl_adapter)))
                };
                from_custom_source(sh.pipeline(t), flat, ops)
            } else {
                from_custom_source(sh.pipeline(t), Pages(pages), Arc::new(PagesOps { lm: *lm, sp: *sp }))
            };
            let id = h.node_id().raw();
            sh.publish((t, *next), H::G(h));
            *next += 1;
            json!(["h", id, locks()])
        }
        Call::File(a, f, shard, fmt) => {
            let (pl, path) = (sh.pipeline(t), &sh.paths[*f]);
            let h: PCollection<Row> = match (*fmt, *a) {
                (0, 0) => read_jsonl_streaming::<Row>(pl, path, *shard).expect("jsonl source"),
                (0, a) => from_custom_source(
                    pl,
                    build_jsonl_shards(path, *shard).expect("jsonl shards"),
                    sh.adapter(0, a),
                ),
                (1, 0) => read_csv_streaming::<Row>(pl, path, sh.files[*f].p == 1, *shard).expect("csv source"),
                (1, a) => from_custom_source(
                    pl,
                    build_csv_shards(path, sh.files[*f].p == 1, *shard).expect("csv shards"),
                    sh.adapter(1, a),
                ),
                (_, a) => {
                    let raw: PCollection<PRow> = if a == 0 {
                        read_parquet_streaming::<PRow>(pl, path, *shard).expect("parquet source")
                    } else {
                        from_custom_source(
                            pl,
                            build_parquet_shards(path, *shard).expect("parquet shards"),
                            sh.adapter(2, a),
                        )
                    };
                    let cnt = Arc::clone(&sh.counter);
                    raw.map(move |r: &PRow| {
                        cnt.fetch_add(1, Ordering::SeqCst);
                        (r.k, Val::I(r.v))
                    })
                }
            };
            let id = h.node_id().raw();
            sh.publish((t, *next), H::G(h));
            *next += 1;
            json!(["h", id, locks()])
        }
        Call::Derive(op, a, b, r) => {
            let Some(p) = sh.general(*r) else {
                *next += 1; // keep the (thread, index) numbering of the program text
                return json!(["unavailable"]);
            };
            let h = build_derive(&Tick(Arc::clone(&sh.counter)), *op, *a, *b, p);
            let id = h.node_id().raw();
            sh.publish((t, *next), H::G(h));
            *next += 1;
            json!(["h", id, locks()])
        }
        Call::Join(kind, l, r) => {
            let (Some(lp), Some(rp)) = (sh.general(*l), sh.general(*r)) else {
                *next += 2;
                return json!(["unavailable"]);
            };
            let cnt = Arc::clone(&sh.counter);
            let (raw_id, h) = match kind {
                0 => {
                    let raw = lp.join_inner(&rp);
                    let id = raw.node_id().raw();
                    sh.publish((t, *next), H::JI(raw.clone()));
                    (id, raw.map(move |(k, (v, w))| {
                        cnt.fetch_add(1, Ordering::SeqCst);
                        (*k, pair(v.clone(), w.clone()))
                    }))
                }
                1 => {
                    let raw = lp.join_left(&rp);
                    let id = raw.node_id().raw();
                    sh.publish((t, *next), H::JL(raw.clone()));
                    (id, raw.map(move |(k, (v, w))| {
                        cnt.fetch_add(1, Ordering::SeqCst);
                        (*k, pair(v.clone(), opt(w.clone())))
                    }))
                }
                2 => {
                    let raw = lp.join_right(&rp);
                    let id = raw.node_id().raw();
                    sh.publish((t, *next), H::JR(raw.clone()));
                    (id, raw.map(move |(k, (v, w))| {
                        cnt.fetch_add(1, Ordering::SeqCst);
                        (*k, pair(opt(v.clone()), w.clone()))
                    }))
                }
                _ => {
                    let raw = lp.join_full(&rp);
                    let id = raw.node_id().raw();
                    sh.publish((t, *next), H::JF(raw.clone()));
                    (id, raw.map(move |(k, (v, w))| {
                        cnt.fetch_add(1, Ordering::SeqCst);
                        (*k, pair(opt(v.clone()), opt(w.clone())))
                    }))
                }
            };
            let id = h.node_id().raw();
            sh.publish((t, *next + 1), H::G(h));
            *next += 2;
            json!(["hh", raw_id, id, locks()])
        }
        Call::Collect(mode, r, dg) => {
            let Some(h) = sh.get(*r) else { return json!(["unavailable"]) };
            let (pl, m, dg) = (sh.pipeline(r.0), *mode, *dg);
            let out = match h {
                H::G(p) => collect_one(pl, p, m, dg, |(k, v)| (*k, v.clone())),
                H::JI(p) => collect_one(pl, p, m, dg, |(k, (v, w))| (*k, pair(v.clone(), w.clone()))),
                H::JL(p) => collect_one(pl, p, m, dg, |(k, (v, w))| (*k, pair(v.clone(), opt(w.clone())))),
                H::JR(p) => collect_one(pl, p, m, dg, |(k, (v, w))| (*k, pair(opt(v.clone()), w.clone()))),
                H::JF(p) => {
                    collect_one(pl, p, m, dg, |(k, (v, w))| (*k, pair(opt(v.clone()), opt(w.clone()))))
                }
                H::Dead => return json!(["unavailable"]),
            };
            json!(["c", out, locks()])
        }
    }
}

/// The calls of one thread.  EVERY real-API call runs under catch_unwind: a panic of the
/// implementation (in a builder as well as in a collect; also every call after a pipeline Mutex
/// got poisoned) is the observed outcome ["panic"] of that call, the thread goes on with its next
/// call, and the handles the call should have produced are marked dead so that nobody waits for
/// them.
fn thread_body(sh: &Shared, sc: Option<&Sched>, t: usize, program: &[Call]) -> Vec<Value> {
    TID.with(|c| c.set(if sc.is_some() { Some(t) } else { None }));
    EPOCH.with(|c| c.set(sc.map_or(0, |s| s.epoch)));
    let mut results = Vec::new();
    let mut next = 0usize;
    for (ci, call) in program.iter().enumerate() {
        if let Some(sc) = sc {
            sc.park(t, ci, 0);
        }
        CALL.with(|c| c.set(ci));
        STEP.with(|c| c.set(0));
        PASS_FIRST.with(|c| c.set(sc.is_some()));
        let before = next;
        match catch_unwind(AssertUnwindSafe(|| exec_call(sh, t, &mut next, call))) {
            Ok(v) => results.push(v),
            Err(_) => {
                next = before + usize::from(!matches!(call, Call::Collect(..)))
                    + usize::from(matches!(call, Call::Join(..)));
                results.push(json!(["panic"]));
            }
        }
        sh.publish_dead(t, before, next);
    }
    results
}

/// Spawn the threads of a case.  Results come back through a channel, so a thread that is stuck
/// inside the implementation can be abandoned (detached) instead of blocking the harness.
fn spawn_threads(
    programs: &[Vec<Call>],
    sh: &Arc<Shared>,
    sc: Option<&Arc<Sched>>,
    barrier: Option<&Arc<std::sync::Barrier>>,
) -> std::sync::mpsc::Receiver<(usize, Value)> {
    let (tx, rx) = std::sync::mpsc::channel();
    for (t, prog) in programs.iter().enumerate() {
        let (prog, sh, sc, tx) = (prog.clone(), Arc::clone(sh), sc.cloned(), tx.clone());
        let barrier = barrier.cloned();
        std::thread::spawn(move || {
            if let Some(b) = barrier {
                b.wait();
            }
            let r = catch_unwind(AssertUnwindSafe(|| thread_body(&sh, sc.as_deref(), t, &prog)));
            if let Some(sc) = &sc {
                sc.finish(t);
            }
            let _ = tx.send((t, r.map_or_else(|_| json!(["thread-panic"]), Value::Array)));
        });
    }
    rx
}
/// the results of all n threads, or None when some thread does not finish within `limit`
fn gather(rx: &std::sync::mpsc::Receiver<(usize, Value)>, n: usize, limit: Duration) -> Option<Vec<Value>> {
    let deadline = Instant::now() + limit;
    let mut results = vec![Value::Null; n];
    for _ in 0..n {
        let left = deadline.saturating_duration_since(Instant::now());
        let (t, v) = rx.recv_timeout(left).ok()?;
        results[t] = v;
    }
    Some(results)
}

/// scratch directory of one case (removed when dropped)
struct Scratch(Option<PathBuf>);
impl Drop for Scratch {
    fn drop(&mut self) {
        if let Some(d) = &self.0 {
            let _ = std::fs::remove_dir_all(d);
        }
    }
}
static CASE_NO: AtomicUsize = AtomicUsize::new(0);

/// the shared state of one case; the files of `env` are written first.  None = a file could not
/// be written (infrastructure; the case is reported as invalid)
fn new_shared(wait: bool, env: &Env) -> Option<(Arc<Shared>, Scratch)> {
    let mut paths = Vec::new();
    let mut scratch = Scratch(None);
    if !env.files.is_empty() {
        let d = PathBuf::from(format!(
            "/verif/run/C08/scratch/{}-{}",
            std::process::id(),
            CASE_NO.fetch_add(1, Ordering::SeqCst)
        ));
        std::fs::create_dir_all(&d).ok()?;
        scratch = Scratch(Some(d.clone()));
        for (i, f) in env.files.iter().enumerate() {
            let path = d.join(format!("f{i}.{}", ["jsonl", "csv", "parquet"][f.fmt as usize]));
            f.write(&path).ok()?;
            paths.push(path);
        }
    }
    let npipes = env.pipes.iter().copied().max().unwrap_or(0) + 1;
    let sh = Arc::new(Shared {
        pipelines: (0..npipes).map(|_| Pipeline::default()).collect(),
        pipes: env.pipes.clone(),
        paths,
        files: env.files.clone(),
        adapters: Mutex::new(HashMap::new()),
        impl_adapter: vec_ops_for::<Row>(),
        table: Mutex::new(HashMap::new()),
        table_cv: Condvar::new(),
        counter: Arc::new(AtomicUsize::new(0)),
        wait_for_handles: wait,
    });
    Some((sh, scratch))
}

fn run_hist(programs: &[Vec<Call>], schedule: &[usize], env: &Env) -> Value {
    if simulate(programs, &env.pipes, schedule).is_none() {
        return json!(["invalid"]);
    }
    let n = programs.len();
    let Some((sh, _scratch)) = new_shared(false, env) else { return json!(["invalid"]) };
    let sc = Sched::new(n);
    let hook_sc = Arc::clone(&sc);
    set_yield_hook(Some(Arc::new(move |site: &'static str| {
        if site == "pipeline" {
            hook_sc.at_yield();
        }
    })));
    let rx = spawn_threads(programs, &sh, Some(&sc), None);
    let mut turns = Vec::new();
    let mut okay = sc.quiesce();
    let go = |t: usize, turns: &mut Vec<Value>| -> bool {
        match sc.grant(t) {
            Ok(Some((c, s))) => {
                turns.push(json!([t, c, s, sh.counter.load(Ordering::SeqCst)]));
                true
            }
            Ok(None) => true,
            Err(()) => false,
        }
    };
    if okay {
        for &t in schedule {
            if !go(t, &mut turns) {
                okay = false;
                break;
            }
        }
    }
    if okay {
        'outer: for t in 0..n {
            while !sc.done(t) {
                if !go(t, &mut turns) {
                    okay = false;
                    break 'outer;
                }
            }
        }
    }
    if !okay {
        // a grant did not come back: release every parked thread, give the threads a moment to
        // run to their end, abandon whatever is still stuck, report the case as a hang
        sc.give_up();
        HANGS.fetch_add(1, Ordering::SeqCst);
        let _ = gather(&rx, n, Duration::from_secs(2));
        set_yield_hook(None);
        return json!(["hang"]);
    }
    // every thread is Done: its results are already on their way
    let results = gather(&rx, n, step_limit());
    set_yield_hook(None);
    match results {
        Some(r) => json!(["ok", turns, r]),
        None => {
            HANGS.fetch_add(1, Ordering::SeqCst);
            json!(["hang"])
        }
    }
}

fn run_stress(programs: &[Vec<Call>], env: &Env) -> Value {
    // valid when the sequential order "thread 0's calls one at a time round-robin" exists:
    // the generator only emits programs whose references point backwards in a global order.
    set_yield_hook(None);
    let Some((sh, _scratch)) = new_shared(true, env) else { return json!(["invalid"]) };
    let barrier = Arc::new(std::sync::Barrier::new(programs.len()));
    let rx = spawn_threads(programs, &sh, None, Some(&barrier));
    // free-running: the whole program gets twice the per-grant limit
    match gather(&rx, programs.len(), 2 * step_limit()) {
        Some(results) => json!(["ok", results, sh.counter.load(Ordering::SeqCst)]),
        None => {
            HANGS.fetch_add(1, Ordering::SeqCst);
            json!(["hang"])
        }
    }
}

/// [n, programs, (schedule,) env?]: env is the optional last component
fn parse_env(input: &Value, base: usize) -> Option<Env> {
    let a = input.as_array()?;
    let n = a.first()?.as_u64()? as usize;
    if a.len() == base {
        Some(Env::plain(n))
    } else if a.len() == base + 1 {
        Env::parse(&a[base], n)
    } else {
        None
    }
}
fn run(kind: &str, input: &Value) -> Value {
    // replay / shrink runs: once the hang budget of this process is used up, further cases are
    // not run at all (reported as "invalid" = no observation), so the process always terminates
    if too_many_hangs() {
        return json!(["invalid"]);
    }
    match kind {
        "hist" => {
            let Some(env) = parse_env(input, 3) else { return json!(["invalid"]) };
            let Some(programs) = parse_programs(&input[0], &input[1], &env.files) else {
                return json!(["invalid"]);
            };
            let Some(sched) = input[2].as_array() else { return json!(["invalid"]) };
            let mut schedule = Vec::new();
            for s in sched {
                match s.as_u64() {
                    Some(t) if (t as usize) < programs.len() => schedule.push(t as usize),
                    _ => return json!(["invalid"]),
                }
            }
            run_hist(&programs, &schedule, &env)
        }
        "stress" => {
            let Some(env) = parse_env(input, 2) else { return json!(["invalid"]) };
            let Some(programs) = parse_programs(&input[0], &input[1], &env.files) else {
                return json!(["invalid"]);
            };
            // the free-running kind uses one pipeline (ids are checked against the insert count)
            if env.pipes.iter().any(|q| *q != 0) || !stress_valid(&programs) {
                return json!(["invalid"]);
            }
            run_stress(&programs, &env)
        }
        _ => json!(["bad-kind"]),
    }
}

/// free-running programs cannot deadlock when some sequential order of whole calls is valid:
/// run the threads round-robin, one whole call at a time, skipping threads that would block.
fn stress_valid(programs: &[Vec<Call>]) -> bool {
    let mut sim = Sim::new(programs, &[]);
    loop {
        let mut progress = false;
        let mut all_done = true;
        for t in 0..programs.len() {
            if sim.done(t) {
                continue;
            }
            all_done = false;
            let save = (sim.pos.clone(), sim.produced.clone());
            if sim.turn(t).is_ok() {
                while sim.pos[t].1 != 0 {
                    sim.turn(t).unwrap();
                }
                progress = true;
            } else {
                sim.pos = save.0;
                sim.produced = save.1;
            }
        }
        if all_done {
            return true;
        }
        if !progress {
            return false;
        }
    }
}

// ------------------------------------------------------------------ generation

fn gen_rows(rng: &mut SplitMix64) -> Vec<(i64, i64)> {
    let n = *rng.pick(&[0usize, 1, 2, 2, 3, 3, 4, 5]);
    (0..n).map(|_| (rng.range(0, 2), rng.range(0, 9))).collect()
}

/// collect modes of the rich families: every public collect entry point, small and large
/// partition counts
const RICH_MODES: [usize; 18] =
    [0, 0, 1, 2, 3, 4, 7, 16, 64, 1000, 1001, 1002, 1003, 1004, 1005, 1006, 1007, 1008];

/// a random environment: 1..3 pipelines, 2..5 small files.  Line counts are drawn around one
/// count per case so that files with EQUAL line ranges (and different contents) are frequent.
fn gen_env(rng: &mut SplitMix64, n: usize) -> Env {
    let np = *rng.pick(&[1u64, 1, 1, 2, 2, 3]);
    let pipes = (0..n).map(|_| rng.below(np) as usize).collect();
    let nf = 2 + rng.below(4) as usize;
    let c0 = *rng.pick(&[1usize, 2, 3, 4, 4, 5, 8]);
    let mut files = Vec::new();
    for _ in 0..nf {
        let fmt = *rng.pick(&[0u8, 0, 0, 1, 1, 2]);
        let mut cnt = if rng.chance(2, 3) { c0 } else { *rng.pick(&[0usize, 1, 2, 3, 5, 8]) };
        if fmt == 2 && cnt == 0 {
            cnt = c0;
        }
        let blanky = fmt == 0 && rng.chance(1, 3);
        let lines: Vec<Option<(i64, i64)>> = (0..cnt)
            .map(|_| {
                if blanky && rng.chance(1, 4) { None } else { Some((rng.range(0, 2), rng.range(0, 9))) }
            })
            .collect();
        let p = match fmt {
            0 => 0,
            1 => rng.below(2) as usize,
            _ => *rng.pick(&[0usize, 1, 2, 3]),
        };
        files.push(FileSpec { fmt, p, lines: LinesSpec::List(lines) });
    }
    Env { pipes, files }
}

struct Gen {
    programs: Vec<Vec<Call>>,
    produced: Vec<Vec<bool>>, // completed handles per thread: general?
    env: Env,
    rich: bool,
}
impl Gen {
    fn new(n: usize, env: Env, rich: bool) -> Gen {
        Gen { programs: vec![Vec::new(); n], produced: vec![Vec::new(); n], env, rich }
    }
    /// handles thread `me` may reference (those of its pipeline)
    fn refs(&self, me: usize, general_only: bool) -> Vec<Ref> {
        let mut out = Vec::new();
        for (t, hs) in self.produced.iter().enumerate() {
            if self.env.pipes[t] != self.env.pipes[me] {
                continue;
            }
            for (k, g) in hs.iter().enumerate() {
                if *g || !general_only {
                    out.push((t, k));
                }
            }
        }
        out
    }
    fn pick_ref(&self, rng: &mut SplitMix64, me: usize, general_only: bool) -> Option<Ref> {
        let rs = self.refs(me, general_only);
        if rs.is_empty() {
            return None;
        }
        Some(*rng.pick(&rs))
    }
    fn new_source(&self, rng: &mut SplitMix64) -> Call {
        if !self.rich {
            return Call::Src(RowsSpec::List(gen_rows(rng)));
        }
        match rng.below(8) {
            0 => Call::Src(RowsSpec::List(gen_rows(rng))),
            1 | 2 => {
                let np = *rng.pick(&[0usize, 1, 1, 2, 3]);
                let pages = (0..np)
                    .map(|_| {
                        let m = *rng.pick(&[0usize, 1, 2, 3]);
                        (0..m).map(|_| (rng.range(0, 2), rng.range(0, 9))).collect()
                    })
                    .collect();
                Call::Custom(rng.below(2) as u8, rng.below(4) as u8, pages)
            }
            _ if !self.env.files.is_empty() => {
                let f = rng.below(self.env.files.len() as u64) as usize;
                Call::File(
                    *rng.pick(&[0usize, 1, 1, 1, 2]),
                    f,
                    *rng.pick(&[0usize, 1, 1, 2, 2, 3, 4, 8]),
                    self.env.files[f].fmt,
                )
            }
            _ => Call::Src(RowsSpec::List(gen_rows(rng))),
        }
    }
    fn new_call(&self, rng: &mut SplitMix64, me: usize, collect_bias: u64) -> Call {
        loop {
            let roll = rng.below(10 + collect_bias);
            let c = match roll {
                0 | 1 => Some(self.new_source(rng)),
                2 | 3 | 4 => self.pick_ref(rng, me, true).map(|r| {
                    // map and filter_values a bit more often than the other builders
                    let op = match rng.below(12) {
                        0 => Op::Map,
                        1 => Op::FilterValues,
                        _ => *rng.pick(&OPS),
                    };
                    let (a, b) = op.gen_params(rng);
                    Call::Derive(op, a, b, r)
                }),
                5 | 6 => match (self.pick_ref(rng, me, true), self.pick_ref(rng, me, true)) {
                    (Some(l), Some(r)) => Some(Call::Join(rng.below(4) as u8, l, r)),
                    _ => None,
                },
                _ => self.pick_ref(rng, me, false).map(|r| {
                    let m = if self.rich { *rng.pick(&RICH_MODES) } else { *rng.pick(&[0usize, 0, 1, 2, 3]) };
                    Call::Collect(m, r, false)
                }),
            };
            match c {
                Some(c) => return c,
                None => {
                    if self.refs(me, false).is_empty() {
                        return self.new_source(rng);
                    }
                }
            }
        }
    }
}

/// a random valid history: programs and schedule are grown together, step by step
fn gen_hist(
    rng: &mut SplitMix64,
    n: usize,
    ncalls: usize,
    env: Env,
    rich: bool,
) -> (Vec<Vec<Call>>, Vec<usize>, Env) {
    let mut g = Gen::new(n, env, rich);
    let mut cur: Vec<Option<usize>> = vec![None; n]; // step inside the current call
    let mut schedule = Vec::new();
    let mut budget = ncalls;
    // sticky scheduling: sometimes stay on a thread, sometimes switch after every lock
    let stick = rng.below(4);
    let mut last = 0usize;
    loop {
        let busy: Vec<usize> = (0..n).filter(|t| cur[*t].is_some()).collect();
        if budget == 0 && busy.is_empty() {
            break;
        }
        let t = if budget == 0 {
            *rng.pick(&busy)
        } else if stick > 0 && rng.below(4) < stick && (cur[last].is_some() || budget > 0) {
            last
        } else {
            rng.below(n as u64) as usize
        };
        last = t;
        if cur[t].is_none() {
            if budget == 0 {
                continue;
            }
            let call = g.new_call(rng, t, if budget * 2 < ncalls { 4 } else { 0 });
            g.programs[t].push(call);
            budget -= 1;
            cur[t] = Some(0);
        }
        let st = cur[t].unwrap();
        let call = g.programs[t].last().unwrap().clone();
        match (&call, st) {
            (Call::Join(..), 6) => g.produced[t].push(true),
            (c, st) if c.is_source() && st + 1 == c.steps() => g.produced[t].push(true),
            (Call::Derive(op, ..), st) if st + 1 == 2 * op.nodes() => {
                g.produced[t].push(true);
            }
            (Call::Join(..), 4) => g.produced[t].push(false),
            _ => {}
        }
        cur[t] = if st + 1 == call.steps() { None } else { Some(st + 1) };
        schedule.push(t);
    }
    // sometimes leave the tail to the drain
    if rng.chance(1, 4) && !schedule.is_empty() {
        let cut = rng.below(schedule.len() as u64 + 1) as usize;
        let mut s2 = schedule.clone();
        s2.truncate(cut);
        if simulate(&g.programs, &g.env.pipes, &s2).is_some() {
            schedule = s2;
        }
    }
    (g.programs, schedule, g.env)
}

/// the call that produced handle r, and whether it is the raw output of a join
fn producer<'a>(programs: &'a [Vec<Call>], r: Ref) -> Option<&'a Call> {
    let mut idx = 0usize;
    for call in programs.get(r.0)? {
        let n = match call {
            Call::Collect(..) => 0,
            Call::Join(..) => 2,
            _ => 1,
        };
        if r.1 >= idx && r.1 < idx + n {
            return Some(call);
        }
        idx += n;
    }
    None
}
/// does the lineage of handle r contain a custom / file / generated source?
fn has_rich_source(programs: &[Vec<Call>], r: Ref, fuel: usize) -> bool {
    if fuel == 0 {
        return false;
    }
    match producer(programs, r) {
        Some(Call::Custom(..) | Call::File(..) | Call::Src(RowsSpec::Gen(..))) => true,
        Some(Call::Derive(_, _, _, p)) => has_rich_source(programs, *p, fuel - 1),
        Some(Call::Join(_, l, rr)) => {
            has_rich_source(programs, *l, fuel - 1) || has_rich_source(programs, *rr, fuel - 1)
        }
        _ => false,
    }
}

fn nontrivial_hist(programs: &[Vec<Call>], env: &Env, schedule: &[usize]) -> bool {
    let Some(turns) = simulate(programs, &env.pipes, schedule) else { return false };
    // a thread is pre-empted between two locks of one call by a turn of another thread
    let mut preempted = false;
    for w in turns.windows(2) {
        let (t, c, s) = w[0];
        if w[1].0 != t && s + 1 < programs[t][c].steps() {
            preempted = true;
        }
    }
    let collects_derived = programs.iter().flatten().any(|c| match c {
        // the collected handle is not a bare source
        Call::Collect(_, r, _) => producer(programs, *r).is_some_and(|p| !p.is_source()),
        _ => false,
    });
    // rich families: >= 2 collects, one of them of a collection over a custom / streamed / big source
    let total: usize = programs.iter().map(Vec::len).sum();
    let ncollects = programs.iter().flatten().filter(|c| matches!(c, Call::Collect(..))).count();
    let collects_rich = programs.iter().flatten().any(|c| match c {
        Call::Collect(_, r, _) => has_rich_source(programs, *r, total + 1),
        _ => false,
    });
    (preempted && collects_derived) || (ncollects >= 2 && collects_rich)
}

fn interleavings(counts: &mut Vec<usize>, cur: &mut Vec<usize>, out: &mut Vec<Vec<usize>>) {
    if counts.iter().all(|c| *c == 0) {
        out.push(cur.clone());
        return;
    }
    for t in 0..counts.len() {
        if counts[t] > 0 {
            counts[t] -= 1;
            cur.push(t);
            interleavings(counts, cur, out);
            cur.pop();
            counts[t] += 1;
        }
    }
}

fn emit_hist_env(em: &mut Emitter, programs: &[Vec<Call>], schedule: &[usize], env: &Env, tags: &[&str]) {
    if too_many_hangs() {
        return;
    }
    let nt = nontrivial_hist(programs, env, schedule);
    if env.is_plain() {
        em.case("hist", json!([programs.len(), programs_json(programs), schedule]), nt, tags);
    } else {
        em.case("hist", json!([programs.len(), programs_json(programs), schedule, env.json()]), nt, tags);
    }
}

/// every valid interleaving of the locks of the given programs
fn emit_exhaustive(em: &mut Emitter, programs: &[Vec<Call>], env: &Env, tag: &str) -> usize {
    let mut counts: Vec<usize> =
        programs.iter().map(|p| p.iter().map(Call::steps).sum()).collect();
    let mut all = Vec::new();
    interleavings(&mut counts, &mut Vec::new(), &mut all);
    let mut n = 0;
    for s in all {
        if simulate(programs, &env.pipes, &s).is_some() {
            emit_hist_env(em, programs, &s, env, &["exhaustive", tag]);
            n += 1;
        }
    }
    n
}

fn exhaustive_sets(tier: Tier) -> Vec<(&'static str, Vec<Vec<Call>>, Env)> {
    use Call::Join;
    #[allow(non_snake_case)]
    fn Src(d: Vec<(i64, i64)>) -> Call {
        Call::Src(RowsSpec::List(d))
    }
    #[allow(non_snake_case)]
    fn Collect(m: usize, r: Ref) -> Call {
        Call::Collect(m, r, false)
    }
    #[allow(non_snake_case)]
    fn Map(c: i64, r: Ref) -> Call {
        Call::Derive(Op::Map, c, 0, r)
    }
    #[allow(non_snake_case)]
    fn Filter(m: i64, x: i64, r: Ref) -> Call {
        Call::Derive(Op::Filter, m, x, r)
    }
    #[allow(non_snake_case)]
    fn D(op: Op, a: i64, b: i64, r: Ref) -> Call {
        Call::Derive(op, a, b, r)
    }
    let a = vec![(0, 1), (1, 2), (0, 3)];
    let b = vec![(0, 5), (2, 7)];
    let mut v = vec![
        // collect an ancestor while another thread derives from it and collects the sibling
        (
            "E1",
            vec![
                vec![Src(a.clone()), Map(1, (0, 0)), Collect(0, (0, 1))],
                vec![Filter(2, 1, (0, 0)), Collect(0, (0, 0))],
            ],
            Env::plain(2),
        ),
        // the insert/connect window of two derives of the same parent
        (
            "E2",
            vec![
                vec![Src(a.clone()), Map(1, (0, 0))],
                vec![Map(2, (0, 0))],
                vec![Collect(0, (0, 0))],
            ],
            Env::plain(3),
        ),
        // a join (5 + 2 locks) against a derive of its left input and a collect of the join
        (
            "E3",
            vec![
                vec![Src(a.clone()), Join(0, (0, 0), (0, 0))],
                vec![Src(b.clone()), Map(1, (0, 0))],
            ],
            Env::plain(2),
        ),
        (
            "E4",
            vec![
                vec![Src(a.clone()), Src(b.clone()), Join(1, (0, 0), (0, 1))],
                vec![Collect(0, (0, 1)), Map(1, (0, 1))],
            ],
            Env::plain(2),
        ),
    ];
    // other builder families: in-place modification of the parent would show in the collects of
    // the ancestor (0,1) around the filter_values / of the source around distinct + group_by_key
    v.push((
        "E7",
        vec![
            vec![Src(a.clone()), D(Op::MapValues, 0, 0, (0, 0)), D(Op::FilterValues, 2, 1, (0, 1))],
            vec![Collect(0, (0, 1)), Collect(1, (0, 1))],
        ],
        Env::plain(2),
    ));
    v.push((
        "E8",
        vec![
            vec![Src(a.clone()), D(Op::Distinct, 0, 0, (0, 0))],
            vec![D(Op::GroupByKey, 0, 0, (0, 0)), Collect(0, (0, 0))],
        ],
        Env::plain(2),
    ));
    // two streamed sources that share ONE adapter object, in two pipelines, every interleaving of
    // the two threads' builds and collects (JSONL with a blank line / CSV)
    let fa = vec![Some((0, 1)), None, Some((1, 2)), Some((0, 3))];
    let fb = vec![Some((2, 7)), Some((0, 5)), None, Some((1, 9))];
    v.push((
        "E9",
        if tier == Tier::Thorough {
            vec![
                vec![Call::File(1, 0, 2, 0), Collect(0, (0, 0)), Collect(2, (0, 0))],
                vec![Call::File(1, 1, 2, 0), Collect(2, (1, 0)), Collect(0, (1, 0))],
            ]
        } else {
            vec![
                vec![Call::File(1, 0, 2, 0), Collect(0, (0, 0))],
                vec![Call::File(1, 1, 2, 0), Collect(2, (1, 0)), Collect(0, (1, 0))],
            ]
        },
        Env {
            pipes: vec![0, 1],
            files: vec![
                FileSpec { fmt: 0, p: 0, lines: LinesSpec::List(fa.clone()) },
                FileSpec { fmt: 0, p: 0, lines: LinesSpec::List(fb.clone()) },
            ],
        },
    ));
    // an unknown-length custom source: a derive and collects (both modes) from two threads
    v.push((
        "E10",
        vec![
            vec![Call::Custom(0, 1, vec![vec![(0, 1), (1, 2)], vec![(0, 3)]]), Map(1, (0, 0)), Collect(2, (0, 1))],
            vec![Collect(3, (0, 0)), Collect(0, (0, 0))],
        ],
        Env::plain(2),
    ));
    if tier == Tier::Thorough {
        v.push((
            "E2b",
            vec![
                vec![Src(b.clone()), Map(1, (0, 0))],
                vec![Map(2, (0, 0)), Collect(2, (1, 0))],
                vec![Collect(0, (0, 0))],
            ],
            Env::plain(3),
        ));
        v.push((
            "E5",
            vec![
                vec![Src(a.clone()), Join(3, (0, 0), (1, 0)), Collect(0, (0, 2))],
                vec![Src(b.clone()), Filter(2, 1, (1, 0)), Collect(1, (1, 1))],
            ],
            Env::plain(2),
        ));
        v.push((
            "E6",
            vec![
                vec![Src(a), Join(2, (0, 0), (0, 0))],
                vec![Collect(0, (0, 0))],
                vec![Map(1, (0, 0))],
            ],
            Env::plain(3),
        ));
        v.push((
            "E9c",
            vec![
                vec![Call::File(1, 0, 3, 1), Collect(0, (0, 0)), Collect(2, (0, 0))],
                vec![Call::File(1, 1, 3, 1), Map(1, (1, 0)), Collect(2, (1, 1)), Collect(0, (1, 0))],
            ],
            Env {
                pipes: vec![0, 0],
                files: vec![
                    FileSpec { fmt: 1, p: 1, lines: LinesSpec::List(fa.into_iter().flatten().map(Some).collect()) },
                    FileSpec { fmt: 1, p: 1, lines: LinesSpec::List(fb.into_iter().flatten().map(Some).collect()) },
                ],
            },
        ));
    }
    v
}

// ------------------------------------------------------------------ scenario families (round 4)
// Single-threaded scripts (n = 1, empty schedule: the drain runs them) and two-thread scripts on
// two pipelines, swept over sizes (every power of two and some odd sizes), formats, shard sizes,
// adapter sharing, collect orders and every collect entry point.

const SMALL_SIZES: [usize; 12] = [0, 1, 2, 3, 4, 5, 8, 16, 20, 32, 64, 128];
const BIG_SIZES: [usize; 5] = [256, 512, 1024, 4096, 65536];

fn shard_choices(n: usize) -> Vec<usize> {
    let mut v = vec![0usize, 1, 2, 3, n / 4, n / 2, n.max(1) - 1, n, n + 1, 2 * n + 1];
    // every range is read by scanning the file from its start: keep <= 64 shards for big files
    v.retain(|s| n <= 128 || (*s >= n.div_ceil(64)));
    v.sort_unstable();
    v.dedup();
    v
}

/// "share": k files of one format with the SAME line count and different rows, sources over them
/// built with one shared adapter (and one through the read_*_streaming entry point), a derived
/// branch, collects in a seeded order and in all modes, on one pipeline or spread over two
fn scenario_share(rng: &mut SplitMix64, em: &mut Emitter, fmt: u8, n: usize, two_pipes: bool, digest: bool) {
    if fmt == 2 && n == 0 {
        return;
    }
    let nfiles = 2 + rng.below(2) as usize;
    let blank =
        if fmt == 0 && (3..=4096).contains(&n) && rng.chance(1, 2) { 2 + rng.below(3) as usize } else { 0 };
    let p = match fmt {
        0 => 0,
        1 => rng.below(2) as usize,
        _ => *rng.pick(&[0usize, 1, 2, (n / 3).max(1), n.max(1)]),
    };
    let files: Vec<FileSpec> = (0..nfiles)
        .map(|i| FileSpec {
            fmt,
            p: if fmt == 2 && n > 128 { p.max(n.div_ceil(64)) } else { p },
            // big files: no per-line division on the Coq side
            lines: LinesSpec::Gen(n, 100 * (i as i64 + 1), if n > 4096 { 1 } else { 3 }, blank),
        })
        .collect();
    let shards = shard_choices(n);
    let shard = *rng.pick(&shards);
    let nthreads = if two_pipes { 2 } else { 1 };
    let mut programs: Vec<Vec<Call>> = vec![Vec::new(); nthreads];
    let mut handles: Vec<Ref> = Vec::new();
    let mut made = vec![0usize; nthreads];
    // sources: file i with the shared adapter 1; file 1 once more through the convenience entry point
    for i in 0..nfiles {
        let t = if two_pipes { i % 2 } else { 0 };
        programs[t].push(Call::File(1, i, shard, fmt));
        handles.push((t, made[t]));
        made[t] += 1;
    }
    {
        let t = nthreads - 1;
        programs[t].push(Call::File(0, 1, *rng.pick(&shards), fmt));
        handles.push((t, made[t]));
        made[t] += 1;
    }
    // a derived branch of the second source
    let (t1, k1) = handles[1];
    let op = if digest { Op::Map } else { *rng.pick(&[Op::Map, Op::Filter, Op::KeyBy, Op::CombineValues]) };
    let (a, b) = op.gen_params(rng);
    programs[t1].push(Call::Derive(op, a, b, (t1, k1)));
    handles.push((t1, made[t1]));
    made[t1] += 1;
    // collects: every handle in both kinds of mode, in a seeded order, some repeated
    let par_modes: Vec<usize> =
        if n > 128 { vec![1, 2, 3, 64, 1000] } else { vec![1, 2, 3, 4, 7, 16, 64, 1000, 1006, 1008] };
    let mut todo: Vec<(Ref, usize)> = Vec::new();
    for h in &handles {
        todo.push((*h, *rng.pick(&[0usize, 0, 1001, 1005, 1007])));
        todo.push((*h, *rng.pick(&par_modes)));
    }
    for _ in 0..3 {
        todo.push((*rng.pick(&handles), *rng.pick(&par_modes)));
    }
    // seeded shuffle
    for i in (1..todo.len()).rev() {
        let j = rng.below(i as u64 + 1) as usize;
        todo.swap(i, j);
    }
    for (h, m) in todo {
        programs[h.0].push(Call::Collect(m, h, digest));
    }
    let env = Env { pipes: (0..nthreads).collect(), files };
    // two pipelines: thread 0 builds, thread 1 builds, then the collects alternate in blocks
    let mut schedule = Vec::new();
    if two_pipes {
        let steps: Vec<usize> = programs.iter().map(|p| p.iter().map(Call::steps).sum()).collect();
        let (mut r0, mut r1) = (steps[0], steps[1]);
        while r0 > 0 || r1 > 0 {
            let k = 3 * (1 + rng.below(3) as usize);
            for _ in 0..k.min(r0) {
                schedule.push(0);
            }
            r0 -= k.min(r0);
            let k = 3 * (1 + rng.below(3) as usize);
            for _ in 0..k.min(r1) {
                schedule.push(1);
            }
            r1 -= k.min(r1);
        }
        if simulate(&programs, &env.pipes, &schedule).is_none() {
            schedule.clear();
        }
    }
    emit_hist_env(em, &programs, &schedule, &env, &["share", ["jsonl", "csv", "parquet"][fmt as usize]]);
}

/// "custom": a user-written source (len None / Some, split None / pages / chunks), derived
/// branches, a join with a plain source, collects through every entry point, repeated
fn scenario_custom(rng: &mut SplitMix64, em: &mut Emitter, lm: u8, sp: u8, n: usize, digest: bool) {
    // n rows over a seeded page layout (also: no page at all, empty pages)
    let mut pages: Vec<Vec<(i64, i64)>> = Vec::new();
    let mut left = n;
    let mut i = 0i64;
    let layout = rng.below(4);
    while left > 0 {
        let k = match layout {
            0 => left,
            1 => 1,
            2 => (n / 4).max(1).min(left),
            _ => (1 + rng.below(4) as usize).min(left),
        };
        pages.push((0..k).map(|j| ((i + j as i64) % 3, 10 + i + j as i64)).collect());
        i += k as i64;
        left -= k;
        if rng.chance(1, 6) && n <= 128 {
            pages.push(Vec::new());
        }
    }
    if n == 0 && rng.chance(1, 2) {
        pages.push(Vec::new());
    }
    let mut prog = vec![Call::Custom(lm, sp, pages)];
    let mut handles = vec![(0usize, 0usize)];
    let push = |prog: &mut Vec<Call>, handles: &mut Vec<Ref>, c: Call| {
        let k = handles.len();
        let two = matches!(c, Call::Join(..));
        prog.push(c);
        handles.push((0, k));
        if two {
            handles.push((0, k + 1));
        }
    };
    push(&mut prog, &mut handles, Call::Derive(Op::Map, 2, 0, (0, 0)));
    if !digest {
        let op = *rng.pick(&[Op::KeyBy, Op::CombineValues, Op::Filter, Op::FlatMap, Op::GroupByKey, Op::Distinct]);
        let (a, b) = op.gen_params(rng);
        push(&mut prog, &mut handles, Call::Derive(op, a, b, (0, 0)));
        push(&mut prog, &mut handles, Call::Src(RowsSpec::List(vec![(0, 5), (1, 6), (5, 7)])));
        let other = handles.len() - 1;
        let kind = rng.below(4) as u8;
        if rng.chance(1, 2) {
            push(&mut prog, &mut handles, Call::Join(kind, (0, 0), (0, other)));
        } else {
            push(&mut prog, &mut handles, Call::Join(kind, (0, other), (0, 1)));
        }
    }
    let modes: Vec<usize> =
        if digest { vec![0, 1, 2, 3, 64, 999, 1000, 1001, 1005, 1006] } else { RICH_MODES.to_vec() };
    let mut todo: Vec<(Ref, usize)> = Vec::new();
    for h in &handles {
        todo.push((*h, *rng.pick(&[0usize, 1001, 1005])));
        todo.push((*h, *rng.pick(&modes)));
    }
    for m in [1usize, 2, 3, 1000, 1006] {
        todo.push(((0, 0), m));
    }
    for i in (1..todo.len()).rev() {
        let j = rng.below(i as u64 + 1) as usize;
        todo.swap(i, j);
    }
    // more building in between must not matter
    let half = todo.len() / 2;
    for (i, (h, m)) in todo.into_iter().enumerate() {
        if i == half {
            prog.push(Call::Src(RowsSpec::List(vec![(7, 8), (8, 9)])));
        }
        prog.push(Call::Collect(m, h, digest));
    }
    emit_hist_env(em, &[prog], &[], &Env::plain(1), &["custom"]);
}

/// "sizes": a generated from_vec source of n rows, a map -> filter -> key_by chain, collected
/// through every mode (digest for big n)
fn scenario_sizes(rng: &mut SplitMix64, em: &mut Emitter, n: usize, digest: bool) {
    let modes = [0usize, 1, 2, 3, 4, 8, 16, 64, 256, 999, 1000, 1001, 1005, 1006];
    if n > 4096 {
        // very big: a division-free chain (the Coq side evaluates it row by row), four collects
        let mut prog = vec![
            Call::Src(RowsSpec::Gen(n, 10, 1)),
            Call::Derive(Op::Map, 1, 0, (0, 0)),
            Call::Derive(Op::MapValues, 0, 0, (0, 1)),
        ];
        prog.push(Call::Collect(*rng.pick(&modes[1..]), (0, 2), true));
        prog.push(Call::Collect(0, (0, 0), true));
        prog.push(Call::Collect(*rng.pick(&modes[1..]), (0, 0), true));
        prog.push(Call::Collect(0, (0, 2), true));
        emit_hist_env(em, &[prog], &[], &Env::plain(1), &["sizes"]);
        return;
    }
    let mut prog = vec![
        Call::Src(RowsSpec::Gen(n, 10, 5)),
        Call::Derive(Op::Map, 1, 0, (0, 0)),
        Call::Derive(Op::Filter, 3, rng.range(0, 2), (0, 1)),
        Call::Derive(Op::KeyBy, 3, 0, (0, 2)),
    ];
    for k in 0..4usize {
        prog.push(Call::Collect(if k % 2 == 0 { 0 } else { *rng.pick(&modes) }, (0, k), digest));
        prog.push(Call::Collect(*rng.pick(&modes), (0, 3 - k), digest));
    }
    emit_hist_env(em, &[prog], &[], &Env::plain(1), &["sizes"]);
}

/// a seeded random valid schedule that runs the programs to their end (None: they deadlock)
fn random_schedule(rng: &mut SplitMix64, programs: &[Vec<Call>], pipes: &[usize]) -> Option<Vec<usize>> {
    let n = programs.len();
    let mut sim = Sim::new(programs, pipes);
    let mut schedule = Vec::new();
    let mut stuck = 0usize;
    while (0..n).any(|t| !sim.done(t)) {
        let t = rng.below(n as u64) as usize;
        if sim.done(t) {
            continue;
        }
        let save = (sim.pos.clone(), sim.produced.clone());
        if sim.turn(t).is_ok() {
            schedule.push(t);
            stuck = 0;
        } else {
            sim.pos = save.0;
            sim.produced = save.1;
            stuck += 1;
            if stuck > 200 {
                return None;
            }
        }
    }
    Some(schedule)
}

/// "diamond": joins whose two inputs share an ancestor - two branches of ONE source, the same
/// handle on both sides, a collection with its own ancestor - for every join kind, over a plain /
/// unknown-length custom / streamed source; the joins (raw and wrapped) are collected in both
/// modes and the source and the branches are collected again afterwards.  One thread, or the two
/// branches built and joined by two threads under a seeded schedule.
fn scenario_diamond(rng: &mut SplitMix64, em: &mut Emitter, kind: u8, srck: u8, two_threads: bool) {
    let rows = vec![(0, 1), (1, 2), (0, 3), (2, 4), (1, 5)];
    let (src, env_files) = match srck {
        0 => (Call::Src(RowsSpec::List(rows.clone())), Vec::new()),
        1 => (Call::Custom(0, 1, vec![rows[..2].to_vec(), rows[2..].to_vec()]), Vec::new()),
        _ => (
            Call::File(1, 0, 2, 0),
            vec![FileSpec { fmt: 0, p: 0, lines: LinesSpec::List(rows.iter().copied().map(Some).collect()) }],
        ),
    };
    let par = *rng.pick(&[1usize, 2, 3, 7, 1000]);
    let m = rng.range(2, 3);
    let programs: Vec<Vec<Call>> = if two_threads {
        vec![
            vec![
                src,
                Call::Derive(Op::Map, 1, 0, (0, 0)),
                Call::Join(kind, (0, 1), (1, 0)), // diamond, the other branch built by thread 1
                Call::Collect(0, (0, 2), false),
                Call::Collect(par, (0, 3), false),
                Call::Collect(0, (0, 0), false),
            ],
            vec![
                Call::Derive(Op::Filter, m, rng.range(0, m - 1), (0, 0)),
                Call::Join(kind, (0, 0), (0, 0)), // self join of the source
                Call::Collect(par, (1, 1), false),
                Call::Join((kind + 1) % 4, (1, 0), (0, 0)), // a branch with its own ancestor
                Call::Collect(0, (1, 4), false),
                Call::Collect(par, (1, 0), false),
            ],
        ]
    } else {
        let mut p = vec![
            src,
            Call::Derive(Op::Map, 1, 0, (0, 0)),
            Call::Derive(Op::Filter, m, rng.range(0, m - 1), (0, 0)),
            Call::Join(kind, (0, 1), (0, 2)),  // diamond          -> (0,3) raw, (0,4)
            Call::Join(kind, (0, 0), (0, 0)),  // self join        -> (0,5), (0,6)
            Call::Join(kind, (0, 0), (0, 1)),  // ancestor x child -> (0,7), (0,8)
            Call::Join(kind, (0, 2), (0, 0)),  // child x ancestor -> (0,9), (0,10)
            Call::Join(kind, (0, 2), (0, 2)),  // self join of a branch -> (0,11), (0,12)
        ];
        for k in 3..=12usize {
            p.push(Call::Collect(if k % 2 == 1 { 0 } else { par }, (0, k), false));
        }
        for k in [4usize, 6, 12] {
            p.push(Call::Collect(if k == 6 { par } else { 0 }, (0, k), false));
        }
        for k in 0..3usize {
            p.push(Call::Collect(0, (0, k), false));
            p.push(Call::Collect(par, (0, k), false));
        }
        vec![p]
    };
    let env = Env { pipes: vec![0; programs.len()], files: env_files };
    let schedule = if two_threads {
        match random_schedule(rng, &programs, &env.pipes) {
            Some(s) => s,
            None => return,
        }
    } else {
        Vec::new()
    };
    emit_hist_env(em, &programs, &schedule, &env, &["diamond"]);
}

fn gen_stress(rng: &mut SplitMix64, n: usize, ncalls: usize, env: Env, rich: bool) -> (Vec<Vec<Call>>, Env) {
    // a sequential global order of whole calls, dealt to random threads
    let mut g = Gen::new(n, env, rich);
    for i in 0..ncalls {
        let t = rng.below(n as u64) as usize;
        let call = g.new_call(rng, t, if i * 2 > ncalls { 4 } else { 0 });
        match &call {
            Call::Join(..) => {
                g.produced[t].push(false);
                g.produced[t].push(true);
            }
            Call::Collect(..) => {}
            _ => g.produced[t].push(true),
        }
        g.programs[t].push(call);
    }
    (g.programs, g.env)
}

/// "burst": 4 threads that do nothing but insert (source + map of it, `reps` times each) from a
/// common start barrier - maximal contention on the id allocation - and then collect some of
/// their own handles; an id handed out twice shows as duplicate ids / a foreign value
fn gen_burst(rng: &mut SplitMix64, n: usize, reps: usize) -> Vec<Vec<Call>> {
    (0..n)
        .map(|t| {
            let mut p = Vec::new();
            for i in 0..reps {
                let v = (t * 1000 + i) as i64;
                p.push(Call::Src(RowsSpec::List(vec![(t as i64, v), (0, v + 1)])));
                p.push(Call::Derive(Op::Map, 1 + (i % 3) as i64, 0, (t, 2 * i)));
            }
            for _ in 0..6 {
                let k = rng.below(2 * reps as u64) as usize;
                p.push(Call::Collect(*rng.pick(&[0usize, 2]), (t, k), false));
            }
            p
        })
        .collect()
}

fn generate(seed: u64, tier: Tier, em: &mut Emitter) {
    let thorough = tier == Tier::Thorough;
    // 1. exhaustive interleavings of small fixed programs
    for (tag, programs, env) in exhaustive_sets(tier) {
        emit_exhaustive(em, &programs, &env, tag);
    }
    // 2. scenario sweeps: adapter sharing / custom sources / sizes
    let mut srng = SplitMix64::new(seed ^ 0xC08_5CE);
    for rep in 0..(if thorough { 4 } else { 1 }) {
        for fmt in 0..3u8 {
            for &n in &SMALL_SIZES {
                scenario_share(&mut srng, em, fmt, n, (n + rep) % 2 == 1, false);
            }
            for &n in &BIG_SIZES {
                if n <= 4096 || (fmt == 0 && rep == 0) || thorough {
                    scenario_share(&mut srng, em, fmt, n, false, true);
                }
            }
        }
        for lm in 0..2u8 {
            for sp in 0..4u8 {
                for &n in &SMALL_SIZES {
                    scenario_custom(&mut srng, em, lm, sp, n, false);
                }
                // pages are listed explicitly: up to 4096 rows
                for &n in &BIG_SIZES {
                    if n <= 1024 || (n <= 4096 && ((lm == 0 && sp >= 1) || thorough)) {
                        scenario_custom(&mut srng, em, lm, sp, n, true);
                    }
                }
            }
        }
        for &n in SMALL_SIZES.iter().chain(&[256usize, 512, 1024]) {
            scenario_sizes(&mut srng, em, n, n > 128);
        }
        for &n in &[4096usize, 65536] {
            scenario_sizes(&mut srng, em, n, true);
        }
        for kind in 0..4u8 {
            for srck in 0..3u8 {
                scenario_diamond(&mut srng, em, kind, srck, false);
                scenario_diamond(&mut srng, em, kind, srck, true);
                scenario_diamond(&mut srng, em, kind, srck, true);
            }
        }
    }
    // 3. seeded random histories, 1..4 threads; every third one over custom / streamed sources,
    //    1..3 pipelines and all collect entry points
    let mut rng = SplitMix64::new(seed ^ 0xC08);
    let n_hist = if thorough { 20000 } else { 5000 };
    for i in 0..n_hist {
        let n = 1 + (i % 4);
        let ncalls = 2 + rng.below(11) as usize;
        let rich = i % 3 == 2;
        let env = if rich { gen_env(&mut rng, n) } else { Env::plain(n) };
        let (programs, schedule, env) = gen_hist(&mut rng, n, ncalls, env, rich);
        emit_hist_env(em, &programs, &schedule, &env, &[if rich { "random-rich" } else { "random" }]);
    }
    // 4. free-running stress, 4 threads (2..4 in the thorough tier); every other one rich
    let n_stress = if thorough { 600 } else { 60 };
    for i in 0..n_stress {
        let n = if thorough { 2 + (i % 3) } else { 4 };
        let ncalls = 10 + rng.below(30) as usize;
        let rich = i % 2 == 1;
        let mut env = if rich { gen_env(&mut rng, n) } else { Env::plain(n) };
        env.pipes = vec![0; n];
        let (programs, env) = gen_stress(&mut rng, n, ncalls, env, rich);
        let total_inserts: usize = programs.iter().flatten().map(Call::inserts).sum();
        let nt = programs.iter().filter(|p| !p.is_empty()).count() >= 2 && total_inserts >= 4;
        if too_many_hangs() {
            break;
        }
        if env.is_plain() {
            em.case("stress", json!([n, programs_json(&programs)]), nt, &["stress"]);
        } else {
            em.case("stress", json!([n, programs_json(&programs), env.json()]), nt, &["stress-rich"]);
        }
    }
    // 5. insert bursts from a common start (races on the id allocation that have no yield point)
    for i in 0..(if thorough { 60 } else { 16 }) {
        let programs = gen_burst(&mut rng, 4, 20 + 5 * (i % 3));
        if too_many_hangs() {
            break;
        }
        em.case("stress", json!([4, programs_json(&programs)]), true, &["stress-burst"]);
    }
}

fn main() {
    drive(&generate, &run);
}
