//! C05: per-key and global combines equal a fold, once per key, and always terminate.
//! Programs end in (or contain) the REAL combine_values / combine_values_lifted /
//! combine_globally(_lifted) / distinct / distinct_per_key / top_k_per_key; every run is under a
//! 5 s watchdog (["hang"]); the judge is Corr/C05.v.
use ibv::engine::*;
use ibv::{Emitter, SplitMix64, Tier, drive};
use serde_json::Value;

const DIR: &str = "/verif/run/C05";

fn all_cids() -> Vec<Cid> {
    vec![Cid::Sum, Cid::Count, Cid::Min, Cid::Max, Cid::TopK(0), Cid::TopK(1), Cid::TopK(3),
         Cid::Distinct, Cid::SumMod(1), Cid::SumMod(5), Cid::Gcd]
}

/// the representative programs of the sweep, for `parts` partitions
fn sweep_programs(parts: usize) -> Vec<(Shape, Vec<Step>)> {
    let mut v: Vec<(Shape, Vec<Step>)> = vec![];
    for c in all_cids() {
        v.push((Shape::KV, vec![Step::CombineValues(c.clone())]));
        v.push((Shape::KV, vec![Step::GroupByKey, Step::CombineValuesLifted(c.clone())]));
        // hand-built grouped input: repeated keys, empty groups (Min / Max: only when no key is empty)
        if !matches!(c, Cid::Min | Cid::Max) {
            v.push((Shape::KG, vec![Step::CombineValuesLifted(c.clone())]));
        }
        for f in fanouts(parts) {
            for lifted in [false, true] {
                v.push((Shape::U, vec![Step::CombineGlobally(c.clone(), lifted, f)]));
            }
        }
    }
    v.push((Shape::U, vec![Step::Distinct]));
    v.push((Shape::KV, vec![Step::Distinct]));
    v.push((Shape::KV, vec![Step::DistinctPerKey]));
    for k in 0..3 {
        v.push((Shape::KV, vec![Step::TopKPerKey(k)]));
    }
    v.push((Shape::U, vec![Step::Map(EFun::Mod(4)), Step::Distinct,
                           Step::CombineGlobally(Cid::Count, false, Some(1))]));
    v
}

fn final_step(rng: &mut SplitMix64, parts: usize) -> (Shape, Step) {
    let cid = |rng: &mut SplitMix64| gen_cid(rng, true);
    match rng.below(10) {
        0 | 1 | 2 => (Shape::KV, Step::CombineValues(cid(rng))),
        3 | 4 => (Shape::KG, Step::CombineValuesLifted(cid(rng))),
        5 | 6 | 7 => {
            let fs = fanouts(parts);
            (Shape::U, Step::CombineGlobally(cid(rng), rng.chance(1, 2), *rng.pick(&fs)))
        }
        8 => match rng.below(3) {
            0 => (Shape::U, Step::Distinct),
            1 => (Shape::KV, Step::Distinct),
            _ => (Shape::KV, Step::DistinctPerKey),
        },
        _ => (Shape::KV, Step::TopKPerKey(rng.below(4) as usize)),
    }
}
fn generate(seed: u64, tier: Tier, em: &mut Emitter) {
    let mut rng = SplitMix64::new(seed ^ 0xC05);
    sweep_grid(|n, parts, idx| {
        let mode = parts.map_or(Mode::Seq, Mode::Par);
        let progs = sweep_programs(parts.unwrap_or(0));
        let per_point = if tier == Tier::Quick { 2 } else { 8 };
        for r in 0..per_point {
            let (shape, steps) = &progs[(idx * 7 + r * 53) % progs.len()];
            let src = sweep_src(*shape, n, idx + r, &mut rng);
            emit_prog(em, &src, steps, mode, true, &["sweep"]);
        }
    });
    // fan-out x partitions exhaustively for a few lengths (the termination boundary)
    for n in [0usize, 1, 2, 3, 7, 16] {
        for parts in 0..=(n + 2) {
            for f in fanouts(parts) {
                for (c, lifted) in [(Cid::Sum, false), (Cid::TopK(2), true), (Cid::Count, true)] {
                    let src = Src::Vec(Shape::U, ints(n, &mut rng));
                    emit_prog(em, &src, &[Step::CombineGlobally(c, lifted, f)], Mode::Par(parts), true,
                              &["sweep", "fanout"]);
                }
            }
        }
    }
    // empty streamed sources (an empty file has NO partition in parallel mode; a file of blank
    // lines has empty partitions): exactly one element must still come out of a global combine
    let empties = [
        Src::Sharded(Shape::U, vec![], 0),
        Src::Sharded(Shape::U, vec![vec![]], 1),
        Src::Sharded(Shape::U, vec![vec![], vec![]], 2),
        Src::Vec(Shape::U, vec![]),
    ];
    for src in &empties {
        for c in [Cid::Count, Cid::Sum, Cid::TopK(2), Cid::Distinct, Cid::Gcd, Cid::Min] {
            for lifted in [false, true] {
                for f in [None, Some(1), Some(3)] {
                    for mode in [Mode::Seq, Mode::Par(0), Mode::Par(3)] {
                        if tier == Tier::Quick && lifted && f == Some(3) {
                            continue;
                        }
                        emit_prog(em, src, &[Step::CombineGlobally(c.clone(), lifted, f)], mode, true,
                                  &["sweep", "empty_source"]);
                    }
                }
            }
        }
        for mode in [Mode::Seq, Mode::Par(0), Mode::Par(3)] {
            emit_prog(em, src, &[Step::Distinct], mode, true, &["sweep", "empty_source"]);
            emit_prog(em, src, &[Step::KeyBy(EFun::Id), Step::CombineValues(Cid::Sum)], mode, true,
                      &["sweep", "empty_source"]);
        }
    }
    // every combine kind (and fan-out) on the left and on the right side of a join: the parallel
    // engine runs join sides through its own copy of the barrier arms (run_subplan_par)
    for (src, steps, parts) in join_side_barrier_cases(&mut rng, tier != Tier::Quick) {
        emit_prog(em, &src, &steps, Mode::Par(parts), true, &["sweep", "join_side_barrier"]);
    }
    // partitions emptied by an upstream filter in front of every combine (Min / Max with the
    // extreme in an early and in a late partition, lifted / unlifted, every fan-out)
    for (src, steps, parts, pat) in emptied_barrier_cases(tier != Tier::Quick) {
        emit_prog(em, &src, &steps, Mode::Par(parts), true, &["sweep", "emptied_partition", pat]);
    }
    // TopK over shuffled / descending / zig-zag data: the merge's slow path (|acc| + |other| > k)
    for (src, steps, parts) in topk_cases(&mut rng, tier != Tier::Quick) {
        emit_prog(em, &src, &steps, Mode::Par(parts), true, &["sweep", "topk_non_monotone"]);
    }
    // more than 64 effective partitions
    for (src, steps, parts) in many_partition_cases(tier != Tier::Quick) {
        if !steps.iter().any(|s| matches!(s, Step::Join(..))) {
            emit_prog(em, &src, &steps, Mode::Par(parts), true, &["sweep", "many_partitions"]);
        }
    }
    // fan-in trees of up to 13 rounds (> 256 effective partitions with fan-out 0 / 1 / 2, > 6561
    // with fan-out 3), main chain and both join sides
    for (src, steps, parts) in deep_fanin_cases(tier != Tier::Quick) {
        emit_prog(em, &src, &steps, Mode::Par(parts), true, &["sweep", "deep_fanin"]);
    }
    let mut rng = seed_mix(seed, 0xC05_0002);
    let count = if tier == Tier::Quick { 500 } else { 7000 };
    // big inputs: combines over 65 535 .. 70 001 rows, one partition over 4096 rows through the
    // lifted global local, groups of 127 .. 1000 values through the lifted locals
    let big: Vec<BigCase> = big_combine_cases(tier != Tier::Quick)
        .into_iter()
        .chain(big_group_cases(tier != Tier::Quick))
        .map(|(src, steps, mode)| ("prog", src, steps, mode))
        .collect();
    let mut spread = Spread::new(big, count);
    let mut made = 0;
    while made < count {
        let n = gen_len(&mut rng);
        let src = gen_src(&mut rng, n, true, true);
        let parts = gen_parts(&mut rng, src.len());
        let mut o = GenOpts::all();
        o.empty_minmax = rng.chance(1, 4);
        if rng.chance(1, 2) {
            o.barriers = false;
            o.joins = false;
        }
        let nsteps = if rng.chance(1, 3) { 0 } else { rng.below(9) as usize };
        let (shape, last) = final_step(&mut rng, parts);
        let Some((mut steps, sim)) = gen_prefix_to(&mut rng, &src, &o, nsteps, parts, shape) else {
            continue;
        };
        // respect the generator's rules for the last step as well
        if !sim_allows(&sim, &last, &o) {
            continue;
        }
        let Some(mut sim) = push_step(&mut steps, &sim, last) else { continue };
        if rng.chance(1, 6) {
            for _ in 0..rng.range(1, 3) {
                let Some((s, _)) = gen_step(&mut rng, &sim, &GenOpts::all(), parts) else { break };
                match push_step(&mut steps, &sim, s) {
                    Some(next) => sim = next,
                    None => break,
                }
            }
        }
        let mode = if rng.chance(1, 5) { Mode::Seq } else { Mode::Par(parts) };
        let mode = maybe_auto(&mut rng, &steps, mode, 8);
        emit_prog(em, &src, &steps, mode, true, &["random"]);
        made += 1;
        spread.step(em);
    }
    spread.finish(em);
}

fn run(kind: &str, input: &Value) -> Value {
    match kind {
        "prog" => run_prog_case(input, DIR),
        _ => serde_json::json!(["invalid"]),
    }
}

fn main() {
    drive(&generate, &run);
}
