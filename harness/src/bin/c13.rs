//! C13: tumbling windows partition event time; window grouping loses nothing.
//! Runs the REAL `ironbeam::Window::tumble` and the real `key_by_window` / `group_by_window` /
//! `group_by_key_and_window` helpers through `collect_seq` and `collect_par`.
//!
//! kinds (see coq/theories/Corr/C13.v):
//!   "tumble" in=[ts,size,off]                          out=["ok",[start,end]] | ["panic"]
//!   "row"    in=[size,off,ts0,n]                       out=[[start,end] | null ; n entries]
//!   "kbw"    in=[keyed,size,off,events,parts,threads]  out=["ok",[[k,start,end,v]..sorted]] | ["panic"]
//!   "gbw"    in=[keyed,size,off,events,parts,threads]  out=["ok",[[k,start,end,[v..sorted]]..sorted]] | ["panic"]
//!   "gmix"   in=[s1,s2,off,events,parts,threads]      out as "gbw"; event [sel,ts,v] gets the window of
//!            size s1 if sel == 0 else s2, in ONE map followed by ONE group_by_key
//!   "weq"    in=[s1,e1,s2,e2]   out=[a==b, hash(a)==hash(b), a.cmp(&b), a.partial_cmp(&b)] (-1/0/1, null=None)
//!   "weqrow" in=[s1,e1,n]       out=one such entry per (s2,e2) in 0..n x 0..n, s2-major
//!   "wnew"   in=[s,e]            out=["ok",[s,e],[s',e']] (Window::new, then a serde_json round trip) | ["panic"]
//!   "tsp"    in=[entry,[sel,c],keyed,size,off,events,stage,runs]   out=[outcome per run]
//!            entry 0 = Timestamped::new in the source, 1 = attach_timestamps(ts_fn), 2 = to_timestamped();
//!            ts_fn(x) = sel 0: x | 1: c | 2: x.wrapping_add(c) | 3: u64::MAX - x   (entry 1 only);
//!            keyed via key_by for entry >= 1; stage 0 = the stamped stream, 1 = key_by_window,
//!            2 = group_by_window / group_by_key_and_window; runs=[[parts,threads,coll]..] (parts -1:
//!            collect_par(Some(threads), None), -2: collect(); a run equal to run i is printed ["=", i]) all on clones
//!            of the SAME collection, coll 0 = collect_seq/collect_par, 1 = collect_*_sorted,
//!            2 = collect_par_sorted_by_key, 3 = Runner with checkpointing in a fresh directory;
//!            rows: stage 0 [k,ts,[v]], stage 1 [k,start,end,[v]], stage 2 [k,start,end,[v..]] in the
//!            order the collector returned them (nothing sorted here)
//!   "wjoin"  in=[jkind,keyed,lside,rside,xp,runs]   out=[outcome per run], rows [k,start,end,L,R],
//!            L,R = null | [v..]; jkind 0..3 = inner,left,right,full; side = [0,[[k,s,e,val]..]] (a table
//!            of struct-literal windows) | [stage,entry,[sel,c],size,off,events] (stage 1|2 as above);
//!            xp=1: the right side lives in a second Pipeline
//!   "gbig"   in=[via,keyed,size,off,n,t0,a,m,nk,parts,threads,wb,nt]  out=["ok",[digest rows sorted]] | ["panic"]
//!            events i<n: ts = t0 + (i*a) mod m, k = i mod nk, v = i;  via 0 direct, 1 attach_timestamps,
//!            2 to_timestamped, 3 grouping JOIN_INNER table, 4 table JOIN_LEFT grouping; table = windows
//!            [wb+j*size, +size), j<nt, label j (per key when keyed); digest of a value list =
//!            [len,sum,first,last], of nothing = [-1,0,0,0]
//! u64 values: JSON int below 2^62, decimal string otherwise. events=[[k,ts,v]..]; parts=0 means
//! collect_seq, parts=n>0 means collect_par(Some(threads), Some(n)).
use ibv::{Emitter, SplitMix64, Tier, drive};
use ironbeam::checkpoint::{CheckpointConfig, CheckpointPolicy};
use ironbeam::{ExecMode, NodeId, PCollection, Pipeline, RFBound, Runner, Timestamped, Window, from_vec};
use std::hash::Hash;
use serde_json::{Value, json};
use std::panic::{AssertUnwindSafe, catch_unwind};

fn ju(x: u64) -> Value {
    if x < (1u64 << 62) { json!(x) } else { json!(x.to_string()) }
}
fn du(v: &Value) -> u64 {
    match v {
        Value::String(s) => s.parse().expect("u64 string"),
        _ => v.as_u64().expect("u64"),
    }
}

type Ev = (i64, u64, i64);
fn events(v: &Value) -> Vec<Ev> {
    v.as_array()
        .unwrap()
        .iter()
        .map(|e| (e[0].as_i64().unwrap(), du(&e[1]), e[2].as_i64().unwrap()))
        .collect()
}
fn jevents(evs: &[Ev]) -> Value {
    Value::Array(evs.iter().map(|(k, t, v)| json!([k, ju(*t), v])).collect())
}

fn flag(v: &Value) -> bool {
    v.as_bool().unwrap_or_else(|| v.as_i64().unwrap() != 0)
}

fn collect<T: ironbeam::RFBound>(
    c: ironbeam::PCollection<T>,
    parts: usize,
    threads: usize,
) -> anyhow::Result<Vec<T>> {
    if parts == 0 { c.collect_seq() } else { c.collect_par(Some(threads), Some(parts)) }
}

fn hash_of(w: &Window) -> u64 {
    use std::hash::{Hash, Hasher};
    let mut h = std::collections::hash_map::DefaultHasher::new();
    w.hash(&mut h);
    h.finish()
}
fn ord_code(o: std::cmp::Ordering) -> i64 {
    match o {
        std::cmp::Ordering::Less => -1,
        std::cmp::Ordering::Equal => 0,
        std::cmp::Ordering::Greater => 1,
    }
}
/// the observable behaviour of Window's PartialEq / Hash / Ord / PartialOrd on one pair
#[allow(clippy::eq_op)]
fn weq(a: Window, b: Window) -> Value {
    let pc = a.partial_cmp(&b).map_or(Value::Null, |o| json!(ord_code(o)));
    json!([a == b, hash_of(&a) == hash_of(&b), ord_code(a.cmp(&b)), pc])
}

// ===================================================================================
// entry points of helpers/timestamped.rs, collectors, joins (kinds tsp / wjoin / gbig)
// ===================================================================================
#[derive(Clone, Copy)]
struct RunSpec {
    /// n > 0: collect_par(Some(threads), Some(n)); 0: collect_seq; -1: collect_par(Some(threads), None)
    /// (the runner / planner picks the partition count); -2: collect()
    parts: i64,
    threads: usize,
    coll: u64,
}
fn runspecs(v: &Value) -> Vec<RunSpec> {
    v.as_array()
        .unwrap()
        .iter()
        .map(|r| RunSpec {
            parts: r[0].as_i64().unwrap(),
            threads: r[1].as_u64().unwrap() as usize,
            coll: r[2].as_u64().unwrap(),
        })
        .collect()
}

static SCRATCH: std::sync::atomic::AtomicU64 = std::sync::atomic::AtomicU64::new(0);
fn scratch_dir() -> std::path::PathBuf {
    let n = SCRATCH.fetch_add(1, std::sync::atomic::Ordering::SeqCst);
    let d = std::path::PathBuf::from(format!("/verif/run/C13/scratch-{}/c{}", std::process::id(), n));
    std::fs::create_dir_all(&d).expect("scratch dir");
    d
}

/// the runner with checkpointing switched on, writing into a fresh directory
fn ckpt_collect<T: RFBound>(p: &Pipeline, id: NodeId, r: RunSpec) -> anyhow::Result<Vec<T>> {
    let dir = scratch_dir();
    let runner = Runner {
        mode: if r.parts == 0 || r.parts == -2 {
            ExecMode::Sequential
        } else {
            ExecMode::Parallel { threads: Some(r.threads), partitions: opt_parts(r.parts) }
        },
        checkpoint_config: Some(CheckpointConfig {
            enabled: true,
            directory: dir.clone(),
            policy: CheckpointPolicy::AfterEveryBarrier,
            auto_recover: true,
            max_checkpoints: Some(10),
        }),
        ..Default::default()
    };
    let out = catch_unwind(AssertUnwindSafe(|| runner.run_collect::<T>(p, id)));
    let _ = std::fs::remove_dir_all(&dir);
    match out {
        Ok(r) => r,
        Err(e) => std::panic::resume_unwind(e),
    }
}

fn opt_parts(parts: i64) -> Option<usize> {
    if parts > 0 { Some(parts as usize) } else { None }
}
fn collect_i<T: RFBound>(c: PCollection<T>, r: RunSpec) -> anyhow::Result<Vec<T>> {
    match r.parts {
        -2 => c.collect(),
        0 => c.collect_seq(),
        n => c.collect_par(Some(r.threads), opt_parts(n)),
    }
}

fn outcome_json<T>(res: std::thread::Result<anyhow::Result<Vec<T>>>, enc: &dyn Fn(&T) -> Value) -> Value {
    match res {
        Ok(Ok(rows)) => json!(["ok", rows.iter().map(enc).collect::<Vec<Value>>()]),
        Ok(Err(_)) => json!(["err", "other"]),
        Err(_) => json!(["panic"]),
    }
}

/// a run whose outcome equals that of an earlier run of the same case is printed as ["=", index]
fn back_refs(outs: Vec<Value>) -> Value {
    let mut res: Vec<Value> = Vec::with_capacity(outs.len());
    for (i, o) in outs.iter().enumerate() {
        match outs[..i].iter().position(|x| x == o) {
            Some(j) => res.push(json!(["=", j])),
            None => res.push(o.clone()),
        }
    }
    Value::Array(res)
}

/// every run on a clone of the same collection; element type without Ord: coll 0 and 3 only
fn run_plain<T: RFBound>(p: &Pipeline, c: &PCollection<T>, runs: &[RunSpec], enc: &dyn Fn(&T) -> Value) -> Value {
    back_refs(
        runs.iter()
            .map(|&r| {
                let res = catch_unwind(AssertUnwindSafe(|| -> anyhow::Result<Vec<T>> {
                    match r.coll {
                        0 => collect_i(c.clone(), r),
                        3 => ckpt_collect::<T>(p, c.node_id(), r),
                        _ => Err(anyhow::anyhow!("collector not available for this element type")),
                    }
                }));
                outcome_json(res, enc)
            })
            .collect(),
    )
}

/// every run on a clone of the same keyed collection, all four collectors; `hashed`: the row order
/// of the plain collectors comes out of a HashMap (canonicalised here by sorting the rows)
fn run_kv<K, X>(
    p: &Pipeline,
    c: &PCollection<(K, X)>,
    runs: &[RunSpec],
    hashed: bool,
    enc: &dyn Fn(&(K, X)) -> Value,
) -> Value
where
    K: RFBound + Ord,
    X: RFBound + Ord,
{
    back_refs(
        runs.iter()
            .map(|&r| {
                let res = catch_unwind(AssertUnwindSafe(|| -> anyhow::Result<Vec<(K, X)>> {
                    let canon = |v: anyhow::Result<Vec<(K, X)>>| {
                        v.map(|mut rows| {
                            if hashed {
                                rows.sort();
                            }
                            rows
                        })
                    };
                    match (r.coll, r.parts) {
                        (0, _) => canon(collect_i(c.clone(), r)),
                        (1, 0 | -2) => c.clone().collect_seq_sorted(),
                        (1, n) => c.clone().collect_par_sorted(Some(r.threads), opt_parts(n)),
                        (2, n) if n > 0 || n == -1 => {
                            c.clone().collect_par_sorted_by_key(Some(r.threads), opt_parts(n))
                        }
                        (3, _) => canon(ckpt_collect::<(K, X)>(p, c.node_id(), r)),
                        _ => Err(anyhow::anyhow!("no such collector")),
                    }
                }));
                outcome_json(res, enc)
            })
            .collect(),
    )
}

/// ts_fn of attach_timestamps: [sel, c]
fn ts_fn(tsf: &Value) -> impl Fn(u64) -> u64 + Send + Sync + 'static {
    let sel = tsf[0].as_u64().unwrap();
    let c = du(&tsf[1]);
    move |x| match sel {
        0 => x,
        1 => c,
        2 => x.wrapping_add(c),
        _ => u64::MAX - x,
    }
}

/// the stamped stream through one of the three entry points (entry >= 1: v must be the event index)
fn stamped_u(p: &Pipeline, entry: u64, tsf: &Value, evs: &[Ev]) -> PCollection<Timestamped<i64>> {
    match entry {
        0 => from_vec(p, evs.iter().map(|&(_, t, v)| Timestamped::new(t, v)).collect::<Vec<_>>()),
        1 => {
            let ts: Vec<u64> = evs.iter().map(|e| e.1).collect();
            let f = ts_fn(tsf);
            from_vec(p, evs.iter().map(|e| e.2).collect::<Vec<i64>>())
                .attach_timestamps(move |v: &i64| f(ts[*v as usize]))
        }
        _ => from_vec(p, evs.iter().map(|&(_, t, v)| (t, v)).collect::<Vec<(u64, i64)>>()).to_timestamped(),
    }
}
fn stamped_k(p: &Pipeline, entry: u64, tsf: &Value, evs: &[Ev]) -> PCollection<(i64, Timestamped<i64>)> {
    if entry == 0 {
        from_vec(p, evs.iter().map(|&(k, t, v)| (k, Timestamped::new(t, v))).collect::<Vec<_>>())
    } else {
        let ks: Vec<i64> = evs.iter().map(|e| e.0).collect();
        stamped_u(p, entry, tsf, evs).key_by(move |e: &Timestamped<i64>| ks[e.value as usize])
    }
}

trait WKey: RFBound + Eq + Hash + Ord {
    fn kcells(&self) -> (i64, u64, u64);
}
impl WKey for Window {
    fn kcells(&self) -> (i64, u64, u64) {
        (0, self.start, self.end)
    }
}
impl WKey for (i64, Window) {
    fn kcells(&self) -> (i64, u64, u64) {
        (self.0, self.1.start, self.1.end)
    }
}
trait Flat {
    fn flat(&self) -> Vec<i64>;
}
impl Flat for i64 {
    fn flat(&self) -> Vec<i64> {
        vec![*self]
    }
}
impl Flat for Vec<i64> {
    fn flat(&self) -> Vec<i64> {
        self.clone()
    }
}
fn oflat<T: Flat>(o: Option<&T>) -> Value {
    o.map_or(Value::Null, |x| json!(x.flat()))
}
fn krow<K: WKey>(k: &K, rest: Vec<Value>) -> Value {
    let (a, s, e) = k.kcells();
    let mut row = vec![json!(a), ju(s), ju(e)];
    row.extend(rest);
    Value::Array(row)
}

enum Side<K> {
    One(PCollection<(K, i64)>),
    Many(PCollection<(K, Vec<i64>)>),
}
fn side_u(p: &Pipeline, spec: &Value) -> Side<Window> {
    let stage = spec[0].as_u64().unwrap();
    if stage == 0 {
        let rows: Vec<(Window, i64)> = spec[1]
            .as_array()
            .unwrap()
            .iter()
            .map(|r| (Window { start: du(&r[1]), end: du(&r[2]) }, r[3].as_i64().unwrap()))
            .collect();
        return Side::One(from_vec(p, rows));
    }
    let (entry, size, off) = (spec[1].as_u64().unwrap(), du(&spec[3]), du(&spec[4]));
    let st = stamped_u(p, entry, &spec[2], &events(&spec[5]));
    if stage == 1 { Side::One(st.key_by_window(size, off)) } else { Side::Many(st.group_by_window(size, off)) }
}
fn side_k(p: &Pipeline, spec: &Value) -> Side<(i64, Window)> {
    let stage = spec[0].as_u64().unwrap();
    if stage == 0 {
        let rows: Vec<((i64, Window), i64)> = spec[1]
            .as_array()
            .unwrap()
            .iter()
            .map(|r| ((r[0].as_i64().unwrap(), Window { start: du(&r[1]), end: du(&r[2]) }), r[3].as_i64().unwrap()))
            .collect();
        return Side::One(from_vec(p, rows));
    }
    let (entry, size, off) = (spec[1].as_u64().unwrap(), du(&spec[3]), du(&spec[4]));
    let st = stamped_k(p, entry, &spec[2], &events(&spec[5]));
    if stage == 1 { Side::One(st.key_by_window(size, off)) } else { Side::Many(st.group_by_key_and_window(size, off)) }
}

fn join_run<K, V, W>(p: &Pipeline, l: &PCollection<(K, V)>, r: &PCollection<(K, W)>, jk: u64, runs: &[RunSpec]) -> Value
where
    K: WKey,
    V: RFBound + Ord + Flat,
    W: RFBound + Ord + Flat,
{
    match jk {
        0 => run_kv(p, &l.join_inner(r), runs, true, &|(k, (v, w)): &(K, (V, W))| {
            krow(k, vec![oflat(Some(v)), oflat(Some(w))])
        }),
        1 => run_kv(p, &l.join_left(r), runs, true, &|(k, (v, w)): &(K, (V, Option<W>))| {
            krow(k, vec![oflat(Some(v)), oflat(w.as_ref())])
        }),
        2 => run_kv(p, &l.join_right(r), runs, true, &|(k, (v, w)): &(K, (Option<V>, W))| {
            krow(k, vec![oflat(v.as_ref()), oflat(Some(w))])
        }),
        _ => run_kv(p, &l.join_full(r), runs, true, &|(k, (v, w)): &(K, (Option<V>, Option<W>))| {
            krow(k, vec![oflat(v.as_ref()), oflat(w.as_ref())])
        }),
    }
}
fn join_sides<K: WKey>(p: &Pipeline, l: &Side<K>, r: &Side<K>, jk: u64, runs: &[RunSpec]) -> Value {
    match (l, r) {
        (Side::One(a), Side::One(b)) => join_run(p, a, b, jk, runs),
        (Side::One(a), Side::Many(b)) => join_run(p, a, b, jk, runs),
        (Side::Many(a), Side::One(b)) => join_run(p, a, b, jk, runs),
        (Side::Many(a), Side::Many(b)) => join_run(p, a, b, jk, runs),
    }
}

fn run_tsp(input: &Value) -> Value {
    let entry = input[0].as_u64().unwrap();
    let tsf = &input[1];
    let keyed = flag(&input[2]);
    let (size, off) = (du(&input[3]), du(&input[4]));
    let evs = events(&input[5]);
    let stage = input[6].as_u64().unwrap();
    let runs = runspecs(&input[7]);
    let p = Pipeline::default();
    let one = |v: &i64| json!([v]);
    if keyed {
        let st = stamped_k(&p, entry, tsf, &evs);
        match stage {
            0 => run_plain(&p, &st, &runs, &|(k, e): &(i64, Timestamped<i64>)| json!([k, ju(e.ts), one(&e.value)])),
            1 => run_kv(&p, &st.key_by_window(size, off), &runs, false, &|(k, v): &((i64, Window), i64)| krow(k, vec![one(v)])),
            _ => run_kv(&p, &st.group_by_key_and_window(size, off), &runs, true, &|(k, vs): &((i64, Window), Vec<i64>)| {
                krow(k, vec![json!(vs)])
            }),
        }
    } else {
        let st = stamped_u(&p, entry, tsf, &evs);
        match stage {
            0 => run_plain(&p, &st, &runs, &|e: &Timestamped<i64>| json!([0, ju(e.ts), one(&e.value)])),
            1 => run_kv(&p, &st.key_by_window(size, off), &runs, false, &|(k, v): &(Window, i64)| krow(k, vec![one(v)])),
            _ => run_kv(&p, &st.group_by_window(size, off), &runs, true, &|(k, vs): &(Window, Vec<i64>)| {
                krow(k, vec![json!(vs)])
            }),
        }
    }
}

fn run_wjoin(input: &Value) -> Value {
    let jk = input[0].as_u64().unwrap();
    let keyed = flag(&input[1]);
    let xp = input[4].as_u64().unwrap() != 0;
    let runs = runspecs(&input[5]);
    let p = Pipeline::default();
    let p2 = Pipeline::default();
    let pr = if xp { &p2 } else { &p };
    if keyed {
        let l = side_k(&p, &input[2]);
        let r = side_k(pr, &input[3]);
        join_sides(&p, &l, &r, jk, &runs)
    } else {
        let l = side_u(&p, &input[2]);
        let r = side_u(pr, &input[3]);
        join_sides(&p, &l, &r, jk, &runs)
    }
}

// ---- big event sets given by a formula, observed through per-group digests ----
fn digest(vs: Option<&Vec<i64>>) -> [i64; 4] {
    match vs {
        None => [-1, 0, 0, 0],
        Some(v) => [
            v.len() as i64,
            v.iter().sum(),
            v.first().copied().unwrap_or(0),
            v.last().copied().unwrap_or(0),
        ],
    }
}
fn digest_row<K: WKey>(k: &K, parts: &[[i64; 4]]) -> (i64, u64, u64, Vec<i64>) {
    let (a, s, e) = k.kcells();
    (a, s, e, parts.iter().flatten().copied().collect())
}
fn digest_out(res: anyhow::Result<Vec<(i64, u64, u64, Vec<i64>)>>) -> Value {
    match res {
        Ok(mut rows) => {
            rows.sort();
            let l: Vec<Value> = rows
                .iter()
                .map(|(k, s, e, d)| {
                    let mut row = vec![json!(k), ju(*s), ju(*e)];
                    row.extend(d.iter().map(|x| json!(x)));
                    Value::Array(row)
                })
                .collect();
            json!(["ok", l])
        }
        Err(_) => json!(["err", "other"]),
    }
}
fn big_ts(i: u64, t0: u64, a: u64, m: u64) -> u64 {
    t0 + (i * a) % m
}
fn run_gbig(input: &Value) -> Value {
    let via = input[0].as_u64().unwrap();
    let keyed = flag(&input[1]);
    let (size, off) = (du(&input[2]), du(&input[3]));
    let n = input[4].as_u64().unwrap();
    let (t0, a, m) = (du(&input[5]), du(&input[6]), du(&input[7]).max(1));
    let nk = input[8].as_u64().unwrap().max(1);
    let parts = input[9].as_u64().unwrap() as usize;
    let threads = input[10].as_u64().unwrap() as usize;
    let wb = du(&input[11]);
    let nt = input[12].as_u64().unwrap();
    let p = Pipeline::default();
    // the stamped stream
    let st: PCollection<Timestamped<i64>> = match via {
        1 => from_vec(&p, (0..n as i64).collect::<Vec<i64>>())
            .attach_timestamps(move |v: &i64| big_ts(*v as u64, t0, a, m)),
        2 => from_vec(&p, (0..n).map(|i| (big_ts(i, t0, a, m), i as i64)).collect::<Vec<(u64, i64)>>())
            .to_timestamped(),
        _ => from_vec(&p, (0..n).map(|i| Timestamped::new(big_ts(i, t0, a, m), i as i64)).collect::<Vec<_>>()),
    };
    if keyed {
        let g = st.key_by(move |e: &Timestamped<i64>| e.value % nk as i64).group_by_key_and_window(size, off);
        let table: Vec<((i64, Window), i64)> = (0..nt)
            .flat_map(|j| {
                (0..nk as i64).map(move |k| ((k, Window { start: wb + j * size, end: wb + j * size + size }), j as i64))
            })
            .collect();
        match via {
            3 => digest_out(collect(g.join_inner(&from_vec(&p, table)), parts, threads).map(|rows| {
                rows.iter().map(|(k, (vs, l))| digest_row(k, &[digest(Some(vs)), digest(Some(&vec![*l]))])).collect()
            })),
            4 => digest_out(collect(from_vec(&p, table).join_left(&g), parts, threads).map(|rows| {
                rows.iter().map(|(k, (l, vs))| digest_row(k, &[digest(Some(&vec![*l])), digest(vs.as_ref())])).collect()
            })),
            _ => digest_out(
                collect(g, parts, threads)
                    .map(|rows| rows.iter().map(|(k, vs)| digest_row(k, &[digest(Some(vs))])).collect()),
            ),
        }
    } else {
        let g = st.group_by_window(size, off);
        let table: Vec<(Window, i64)> =
            (0..nt).map(|j| (Window { start: wb + j * size, end: wb + j * size + size }, j as i64)).collect();
        match via {
            3 => digest_out(collect(g.join_inner(&from_vec(&p, table)), parts, threads).map(|rows| {
                rows.iter().map(|(k, (vs, l))| digest_row(k, &[digest(Some(vs)), digest(Some(&vec![*l]))])).collect()
            })),
            4 => digest_out(collect(from_vec(&p, table).join_left(&g), parts, threads).map(|rows| {
                rows.iter().map(|(k, (l, vs))| digest_row(k, &[digest(Some(&vec![*l])), digest(vs.as_ref())])).collect()
            })),
            _ => digest_out(
                collect(g, parts, threads)
                    .map(|rows| rows.iter().map(|(k, vs)| digest_row(k, &[digest(Some(vs))])).collect()),
            ),
        }
    }
}

fn run_wnew(input: &Value) -> Value {
    let w = Window::new(du(&input[0]), du(&input[1]));
    let text = serde_json::to_string(&w).expect("serialize");
    let back: Window = serde_json::from_str(&text).expect("deserialize");
    json!(["ok", [ju(w.start), ju(w.end)], [ju(back.start), ju(back.end)]])
}

fn run(kind: &str, input: &Value) -> Value {
    match kind {
        "tsp" => run_tsp(input),
        "wjoin" => run_wjoin(input),
        "gbig" => run_gbig(input),
        "wnew" => run_wnew(input),
        "weq" => weq(
            Window { start: du(&input[0]), end: du(&input[1]) },
            Window { start: du(&input[2]), end: du(&input[3]) },
        ),
        "weqrow" => {
            let a = Window { start: du(&input[0]), end: du(&input[1]) };
            let n = input[2].as_u64().unwrap();
            let mut out = Vec::new();
            for s2 in 0..n {
                for e2 in 0..n {
                    out.push(weq(a, Window { start: s2, end: e2 }));
                }
            }
            Value::Array(out)
        }
        "gmix" => {
            let (s1, s2, off) = (du(&input[0]), du(&input[1]), du(&input[2]));
            let evs = events(&input[3]);
            let parts = input[4].as_u64().unwrap() as usize;
            let threads = input[5].as_u64().unwrap() as usize;
            let p = Pipeline::default();
            let data: Vec<(i64, Timestamped<i64>)> =
                evs.iter().map(|&(k, t, v)| (k, Timestamped::new(t, v))).collect();
            let grouped = from_vec(&p, data)
                .map(move |e: &(i64, Timestamped<i64>)| {
                    (Window::tumble(e.1.ts, if e.0 == 0 { s1 } else { s2 }, off), e.1.value)
                })
                .group_by_key();
            match collect(grouped, parts, threads) {
                Ok(r) => {
                    let mut r: Vec<(i64, u64, u64, Vec<i64>)> =
                        r.into_iter().map(|(w, vs)| (0, w.start, w.end, vs)).collect();
                    for g in &mut r {
                        g.3.sort();
                    }
                    r.sort();
                    let l: Vec<Value> =
                        r.iter().map(|(k, s, e, vs)| json!([k, ju(*s), ju(*e), vs])).collect();
                    json!(["ok", l])
                }
                Err(_) => json!(["err", "other"]),
            }
        }
        "tumble" => {
            let w = Window::tumble(du(&input[0]), du(&input[1]), du(&input[2]));
            json!(["ok", [ju(w.start), ju(w.end)]])
        }
        "row" => {
            let (size, off, ts0) = (du(&input[0]), du(&input[1]), du(&input[2]));
            let n = input[3].as_u64().unwrap();
            Value::Array(
                (0..n)
                    .map(|i| {
                        let ts = ts0 + i;
                        match catch_unwind(AssertUnwindSafe(|| Window::tumble(ts, size, off))) {
                            Ok(w) => json!([ju(w.start), ju(w.end)]),
                            Err(_) => Value::Null,
                        }
                    })
                    .collect(),
            )
        }
        "kbw" | "gbw" => {
            let keyed = flag(&input[0]);
            let (size, off) = (du(&input[1]), du(&input[2]));
            let evs = events(&input[3]);
            let parts = input[4].as_u64().unwrap() as usize;
            let threads = input[5].as_u64().unwrap() as usize;
            let p = Pipeline::default();
            if kind == "kbw" {
                let res: anyhow::Result<Vec<(i64, u64, u64, i64)>> = if keyed {
                    let data: Vec<(i64, Timestamped<i64>)> =
                        evs.iter().map(|&(k, t, v)| (k, Timestamped::new(t, v))).collect();
                    collect(from_vec(&p, data).key_by_window(size, off), parts, threads)
                        .map(|r| r.into_iter().map(|((k, w), v)| (k, w.start, w.end, v)).collect())
                } else {
                    let data: Vec<Timestamped<i64>> =
                        evs.iter().map(|&(_, t, v)| Timestamped::new(t, v)).collect();
                    collect(from_vec(&p, data).key_by_window(size, off), parts, threads)
                        .map(|r| r.into_iter().map(|(w, v)| (0, w.start, w.end, v)).collect())
                };
                match res {
                    Ok(mut r) => {
                        r.sort();
                        let l: Vec<Value> =
                            r.iter().map(|(k, s, e, v)| json!([k, ju(*s), ju(*e), v])).collect();
                        json!(["ok", l])
                    }
                    Err(_) => json!(["err", "other"]),
                }
            } else {
                let res: anyhow::Result<Vec<(i64, u64, u64, Vec<i64>)>> = if keyed {
                    let data: Vec<(i64, Timestamped<i64>)> =
                        evs.iter().map(|&(k, t, v)| (k, Timestamped::new(t, v))).collect();
                    collect(from_vec(&p, data).group_by_key_and_window(size, off), parts, threads)
                        .map(|r| r.into_iter().map(|((k, w), vs)| (k, w.start, w.end, vs)).collect())
                } else {
                    let data: Vec<Timestamped<i64>> =
                        evs.iter().map(|&(_, t, v)| Timestamped::new(t, v)).collect();
                    collect(from_vec(&p, data).group_by_window(size, off), parts, threads)
                        .map(|r| r.into_iter().map(|(w, vs)| (0, w.start, w.end, vs)).collect())
                };
                match res {
                    Ok(mut r) => {
                        for g in &mut r {
                            g.3.sort();
                        }
                        r.sort();
                        let l: Vec<Value> = r
                            .iter()
                            .map(|(k, s, e, vs)| json!([k, ju(*s), ju(*e), vs]))
                            .collect();
                        json!(["ok", l])
                    }
                    Err(_) => json!(["err", "other"]),
                }
            }
        }
        _ => json!(["bad-kind"]),
    }
}

// ---- honest non-triviality flags (computed independently of the code under test) ----
fn floor_start(ts: u64, size: u64, off: u64) -> i128 {
    let (ts, size, off) = (ts as i128, size as i128, off as i128);
    off + (ts - off).div_euclid(size) * size
}
/// offset != 0, or ts within 1 of a window boundary
fn nt_tumble(ts: u64, size: u64, off: u64) -> bool {
    if size == 0 {
        return false;
    }
    let s = floor_start(ts, size, off);
    let d = ts as i128 - s;
    off != 0 || d <= 1 || (size as i128 - d) <= 1
}
/// >= 2 distinct windows and >= 2 partitions actually produced
fn nt_group(evs: &[Ev], size: u64, off: u64, parts: usize) -> bool {
    if size == 0 {
        return false;
    }
    let mut starts: Vec<i128> = evs.iter().map(|e| floor_start(e.1, size, off)).collect();
    starts.sort();
    starts.dedup();
    starts.len() >= 2 && parts >= 2 && evs.len() >= 2
}

/// two windows of different length with a common start (or a common end) occur
fn nt_mixed(evs: &[Ev], s1: u64, s2: u64, off: u64) -> bool {
    if s1 == 0 || s2 == 0 {
        return false;
    }
    let mut ws: Vec<(i128, i128)> = evs
        .iter()
        .map(|e| {
            let size = if e.0 == 0 { s1 } else { s2 };
            let s = floor_start(e.1, size, off);
            (s, s + size as i128)
        })
        .collect();
    ws.sort();
    ws.dedup();
    ws.iter().any(|a| ws.iter().any(|b| a != b && (a.0 == b.0 || a.1 == b.1)))
}
fn emit_mixed(em: &mut Emitter, s1: u64, s2: u64, off: u64, evs: &[Ev], parts: usize, tag: &str) {
    em.case(
        "gmix",
        json!([ju(s1), ju(s2), ju(off), jevents(evs), parts, 4]),
        nt_mixed(evs, s1, s2, off),
        &[tag],
    );
}

fn emit_tumble(em: &mut Emitter, ts: u64, size: u64, off: u64, tag: &str) {
    em.case("tumble", json!([ju(ts), ju(size), ju(off)]), nt_tumble(ts, size, off), &[tag]);
}
/// a row of n consecutive timestamps starting at ts0 (clamped to stay inside u64)
fn emit_row(em: &mut Emitter, size: u64, off: u64, ts0: u64, n: u64, tag: &str) {
    let n = n.min((u64::MAX - ts0).saturating_add(1)).max(1);
    em.case("row", json!([ju(size), ju(off), ju(ts0), n]), size >= 1, &[tag]);
}
fn emit_group(
    em: &mut Emitter,
    kind: &str,
    keyed: bool,
    size: u64,
    off: u64,
    evs: &[Ev],
    parts: usize,
    tag: &str,
) {
    em.case(
        kind,
        json!([keyed, ju(size), ju(off), jevents(evs), parts, 4]),
        nt_group(evs, size, off, parts),
        &[tag],
    );
}

const M: u64 = u64::MAX;

fn interesting_u64(rng: &mut SplitMix64) -> u64 {
    match rng.below(8) {
        0 => rng.below(50),
        1 => rng.below(100_000),
        2 => 1u64 << rng.below(64),
        3 => (1u64 << rng.below(64)).wrapping_sub(1 + rng.below(3)),
        4 => M - rng.below(100),
        5 => (1u64 << 63).wrapping_add(rng.below(7)).wrapping_sub(3),
        6 => rng.next_u64() >> rng.below(64),
        _ => rng.next_u64(),
    }
}

// ===================================================================================
// generators for the kinds tsp / wjoin / gbig / wnew
// ===================================================================================
fn jruns(runs: &[(i64, u64)]) -> Value {
    Value::Array(runs.iter().map(|&(p, c)| json!([p, 4, c])).collect())
}
fn tsf_apply(sel: u64, c: u64, x: u64) -> u64 {
    match sel {
        0 => x,
        1 => c,
        2 => x.wrapping_add(c),
        _ => u64::MAX - x,
    }
}
/// v := index (entry >= 1 looks timestamps / keys up by value)
fn reindex(evs: &[Ev]) -> Vec<Ev> {
    evs.iter().enumerate().map(|(i, e)| (e.0, e.1, i as i64)).collect()
}
/// number of distinct (key,) windows by the floor-division reference, None if a window is not representable
fn ref_windows(evs: &[Ev], keyed: bool, size: u64, off: u64, sel: u64, c: u64, entry: u64) -> Option<Vec<(i64, i128)>> {
    if size == 0 {
        return None;
    }
    let mut ws = Vec::new();
    for e in evs {
        let ts = if entry == 1 { tsf_apply(sel, c, e.1) } else { e.1 };
        let s = floor_start(ts, size, off);
        if s < 0 || s + size as i128 >= (1i128 << 64) {
            return None;
        }
        ws.push((if keyed { e.0 } else { 0 }, s));
    }
    ws.sort();
    ws.dedup();
    Some(ws)
}
#[allow(clippy::too_many_arguments)]
fn emit_tsp(
    em: &mut Emitter,
    entry: u64,
    tsf: (u64, u64),
    keyed: bool,
    size: u64,
    off: u64,
    evs: &[Ev],
    stage: u64,
    runs: &[(i64, u64)],
    tag: &str,
) {
    let evs: Vec<Ev> = if entry == 0 { evs.to_vec() } else { reindex(evs) };
    let tsf = if entry == 1 { tsf } else { (0, 0) };
    // stage 0 has no Ord: plain and checkpointing collectors only; by-key sorting needs partitions
    let runs: Vec<(i64, u64)> = runs
        .iter()
        .map(|&(p, c)| {
            let c = if stage == 0 && (c == 1 || c == 2) { 0 } else { c };
            if c == 2 && (p == 0 || p == -2) { (2, 2) } else { (p, c) }
        })
        .collect();
    // non-trivial: events are really stamped through an entry point / collector beyond the old kinds,
    // >= 2 events, and (for the window stages) every window representable and >= 2 of them
    let nt = evs.len() >= 2
        && (entry >= 1 || runs.len() >= 2 || runs.iter().any(|r| r.1 != 0))
        && (stage == 0
            || ref_windows(&evs, keyed, size, off, tsf.0, tsf.1, entry).is_some_and(|w| w.len() >= 2));
    em.case(
        "tsp",
        json!([entry, [tsf.0, ju(tsf.1)], keyed, ju(size), ju(off), jevents(&evs), stage, jruns(&runs)]),
        nt,
        &[tag],
    );
}

#[derive(Clone)]
enum SideSpec {
    Tab(Vec<(i64, u64, u64, i64)>),
    Win { stage: u64, entry: u64, size: u64, off: u64, evs: Vec<Ev> },
}
fn jside(s: &SideSpec) -> Value {
    match s {
        SideSpec::Tab(rows) => {
            json!([0, rows.iter().map(|(k, s, e, v)| json!([k, ju(*s), ju(*e), v])).collect::<Vec<_>>()])
        }
        SideSpec::Win { stage, entry, size, off, evs } => {
            let evs = if *entry == 0 { evs.clone() } else { reindex(evs) };
            json!([stage, entry, [0, 0], ju(*size), ju(*off), jevents(&evs)])
        }
    }
}
/// reference keys (k, start, end) of one side, None if some window is not representable
fn side_keys(s: &SideSpec, keyed: bool) -> Option<Vec<(i64, i128, i128)>> {
    match s {
        SideSpec::Tab(rows) => {
            Some(rows.iter().map(|r| (if keyed { r.0 } else { 0 }, r.1 as i128, r.2 as i128)).collect())
        }
        SideSpec::Win { size, off, evs, entry, .. } => {
            ref_windows(evs, keyed, *size, *off, 0, 0, *entry)
                .map(|ws| ws.into_iter().map(|(k, s)| (k, s, s + *size as i128)).collect())
        }
    }
}
fn emit_wjoin(em: &mut Emitter, jk: u64, keyed: bool, l: &SideSpec, r: &SideSpec, xp: bool, runs: &[(i64, u64)], tag: &str) {
    let runs: Vec<(i64, u64)> =
        runs.iter().map(|&(p, c)| if c == 2 && (p == 0 || p == -2) { (2, 2) } else { (p, c) }).collect();
    // non-trivial: a window transform on at least one side, both sides non-empty with representable
    // windows, at least one key on both sides and one on one side only, a parallel run with >= 2 partitions
    let win = |s: &SideSpec| matches!(s, SideSpec::Win { .. });
    let nt = match (side_keys(l, keyed), side_keys(r, keyed)) {
        (Some(a), Some(b)) => {
            (win(l) || win(r))
                && a.iter().any(|k| b.contains(k))
                && (a.iter().any(|k| !b.contains(k)) || b.iter().any(|k| !a.contains(k)))
                && runs.iter().any(|r| r.0 >= 2 || r.0 == -1)
        }
        _ => false,
    };
    em.case("wjoin", json!([jk, keyed, jside(l), jside(r), u64::from(xp), jruns(&runs)]), nt, &[tag]);
}

#[allow(clippy::too_many_arguments)]
fn big_case(via: u64, keyed: bool, size: u64, off: u64, n: u64, t0: u64, a: u64, m: u64, nk: u64, parts: usize, wb: u64, nt: u64) -> Value {
    json!([via, keyed, ju(size), ju(off), n, ju(t0), ju(a), ju(m), nk, parts, 4, ju(wb), nt])
}
/// the big cases of one run, in the order they are interleaved with the other families
fn big_cases(seed: u64, thorough: bool) -> Vec<Value> {
    let mut rng = SplitMix64::new(SplitMix64::new(seed).next_u64() ^ 0xB16);
    let mut out = Vec::new();
    // every power of two (and its neighbours) up to 65536 events; 4..40 groups; the window table of
    // the join variants starts one window early and ends one late
    let mut ns: Vec<u64> = vec![15, 16, 17, 20, 31, 32, 33, 63, 64, 65, 127, 128, 129, 255, 256, 257, 511, 512, 513, 1023, 1024, 1025, 2048, 4095, 4096, 4097, 8192, 16384];
    if thorough {
        ns.extend([32767, 32768, 32769, 65535, 65537, 131072]);
    }
    let part_choices: [usize; 10] = [0, 1, 2, 3, 4, 7, 16, 64, 256, 1024];
    for (i, &n) in ns.iter().enumerate() {
        let via = (i as u64 + seed) % 5;
        let keyed = rng.chance(1, 2);
        let size = *rng.pick(&[1u64, 7, 10, 1000, 1 << 32]);
        let off = *rng.pick(&[0u64, 3, size, size + 1, 5 * size + 2]);
        let windows = 2 + rng.below(9);
        let nk = if keyed { 1 + rng.below(4) } else { 1 };
        let m = windows * size;
        // a stride coprime to m spreads every window over the whole input (late events everywhere)
        let a = *rng.pick(&[1u64, 7, 11, 13, 10_007]);
        let t0 = off % size + size * rng.below(3) + if rng.chance(1, 6) { 1 << 63 } else { 0 };
        let parts = part_choices[(i + seed as usize) % part_choices.len()];
        let wb = t0 - t0.wrapping_sub(off % size) % size;
        let wb = if wb >= size + off % size { wb - size } else { wb };
        out.push(big_case(via, keyed, size, off, n, t0, a, m, nk, parts, wb, windows + 2));
    }
    // 65536 events in every run (one variant per seed), few groups
    {
        let via = seed % 5;
        out.push(big_case(via, seed % 2 == 1, 10, 3, 65536, 3, 7, 60, 2, [16usize, 4, 64, 2, 7][(seed % 5) as usize], 3, 8));
    }
    // many groups (one event per window and more): 64 .. 1024 windows
    for (j, &(n, groups)) in [(256u64, 64u64), (512, 128), (1024, 256), (2048, 512), (2048, 1024)].iter().enumerate() {
        let via = (j as u64 + seed) % 5;
        let size = *rng.pick(&[1u64, 3, 10]);
        let parts = *rng.pick(&[2usize, 4, 7, 16, 64]);
        out.push(big_case(via, false, size, 0, n, 0, *rng.pick(&[1u64, 3, 7]), groups * size, 1, parts, 0, groups.min(40)));
    }
    out
}
fn emit_big(em: &mut Emitter, c: Value) {
    let n = c[4].as_u64().unwrap();
    em.case("gbig", c, n >= 16, &["big"]);
}

fn generate_new(seed: u64, thorough: bool, em: &mut Emitter) {
    let mut rng = SplitMix64::new(SplitMix64::new(seed).next_u64() ^ 0x7513);

    // N1. Window::new on small and extreme (start, end) pairs (end < start: the debug assertion)
    let ext: [u64; 8] = [0, 1, 5, (1 << 63) - 1, 1 << 63, (1 << 63) + 1, M - 1, M];
    for &a in &ext {
        for &b in &ext {
            em.case("wnew", json!([ju(a), ju(b)]), true, &["window-new"]);
        }
    }

    // N2. every entry point x keyed/unkeyed x every stage around the anchors 0, 2^31, 2^32, 2^53,
    //     2^62, 2^63 (i64::MAX + 1), near the last windows; 7 consecutive timestamps in a
    //     scrambled (late events) order; sequential, parallel and a checkpointing run
    let anchors: [u64; 8] = [0, 1 << 31, 1 << 32, 1 << 53, 1 << 62, (1 << 63) - 2, 1 << 63, M - 5000];
    for &anchor in &anchors {
        for size in [1u64, 7, 1000] {
            if size == 7 && anchor != 0 && anchor != 1 << 63 {
                continue;
            }
            for off in [0u64, size, 3] {
                let lo = anchor.saturating_sub(3).max(off % size);
                let evs: Vec<Ev> = (0..7u64)
                    .map(|i| (i * 3) % 7)
                    .map(|d| ((d % 2) as i64, lo + d, (d % 3) as i64))
                    .collect();
                for entry in 0..3u64 {
                    for keyed in [false, true] {
                        for stage in 0..3u64 {
                            // the stamped stream does not depend on (size, off): once per anchor
                            if stage == 0 && !(size == 1 && off == 0) {
                                continue;
                            }
                            let pick = (anchor >> 3) as usize + size as usize + off as usize + entry as usize + stage as usize;
                            let runs: Vec<(i64, u64)> = match pick % 4 {
                                0 => vec![(0, 0), (3, 0)],
                                1 => vec![(2, 0), (-2, 1)],
                                2 => vec![(0, 0), (4, 2), (2, 3)],
                                _ => vec![(7, 0), (-1, 3)],
                            };
                            emit_tsp(em, entry, (0, 0), keyed, size, off, &evs, stage, &runs, "entry-anchors");
                        }
                    }
                }
            }
        }
    }

    // N3. the ts_fn of attach_timestamps: constant, shifted (wrapping past 2^64), reversed
    for (sel, c) in [(1u64, 0u64), (1, 25), (1, 1 << 63), (2, 5), (2, 1 << 63), (2, M - 10), (3, 0)] {
        for size in [1u64, 10, 1 << 62] {
            for off in [0u64, 3] {
                let evs: Vec<Ev> = (0..9u64)
                    .map(|i| {
                        let base = if sel == 3 { M - 40 * size.min(1000) } else { off % size };
                        ((i % 3) as i64, base + (i * 5) % 9 * size.min(1000) / 2, 0)
                    })
                    .collect();
                for keyed in [false, true] {
                    for stage in 0..3u64 {
                        emit_tsp(em, 1, (sel, c), keyed, size, off, &evs, stage, &[(0, 0), (3, 0), (2, 1)], "ts-fn");
                    }
                }
            }
        }
    }

    // N4. every collector x every partition count on ONE collection (repeated collects of clones):
    //     structured events, one per timestamp over 3 windows in a scrambled order
    let all_runs: Vec<(i64, u64)> = vec![
        (0, 0), (0, 1), (1, 0), (2, 0), (2, 1), (2, 2), (3, 2), (4, 1), (7, 2), (16, 0), (16, 2), (0, 3), (3, 3), (64, 1),
        (-1, 0), (-1, 1), (-1, 2), (-1, 3), (-2, 0),
    ];
    for size in 1..=(if thorough { 6u64 } else { 4 }) {
        for off in [0u64, 1, size, 2 * size + 1] {
            let nev = 3 * size + 3;
            let evs: Vec<Ev> = (0..nev)
                .map(|i| (i * 5) % nev.max(1))
                .map(|t| ((t % 2) as i64, off % size + t, (t % 3) as i64))
                .collect();
            for entry in 0..3u64 {
                for keyed in [false, true] {
                    for stage in 1..3u64 {
                        emit_tsp(em, entry, (0, 0), keyed, size, off, &evs, stage, &all_runs, "collectors");
                    }
                }
            }
        }
    }

    // N5. seeded random: entry point, ts_fn, stage, 1..3 runs with random collectors
    let n = if thorough { 8_000 } else { 900 };
    for _ in 0..n {
        let huge = rng.chance(1, 8);
        let size = if rng.chance(1, 60) { 0 } else if huge { interesting_u64(&mut rng).max(1) } else { 1 + rng.below(12) };
        let off = if huge { interesting_u64(&mut rng) } else { rng.below(30) };
        let want_known = rng.chance(1, 12);
        let base = if size == 0 || want_known { 0 } else { off % size };
        let nev = rng.below(14) as usize;
        let span = if huge { interesting_u64(&mut rng).max(1) } else { 1 + rng.below(60) };
        let evs: Vec<Ev> = (0..nev)
            .map(|_| {
                let t = if huge && rng.chance(1, 2) {
                    match rng.below(3) {
                        0 => M - size.min(M / 2) - rng.below(span.min(1 << 20)),
                        1 => (1u64 << 63).wrapping_add(rng.below(9)).wrapping_sub(4).max(base),
                        _ => base,
                    }
                } else if rng.chance(1, 10) {
                    base // the very first representable timestamp (0 when off % size == 0)
                } else {
                    base.saturating_add(rng.below(span))
                };
                (rng.range(0, 2), t, rng.range(0, 4))
            })
            .collect();
        let entry = rng.below(3);
        let tsf = match rng.below(6) {
            0 => (1, interesting_u64(&mut rng)),
            1 => (2, rng.below(20)),
            2 => (3, 0),
            _ => (0, 0),
        };
        let stage = rng.below(3);
        let nruns = 1 + rng.below(3) as usize;
        let runs: Vec<(i64, u64)> = (0..nruns)
            .map(|_| {
                let p = *rng.pick(&[0i64, 0, 1, 2, 2, 3, 4, 5, 8, 13, 32, -1, -2]);
                let c = if rng.chance(1, 12) { 3 } else { rng.below(3) };
                (p, c)
            })
            .collect();
        emit_tsp(em, entry, tsf, rng.chance(1, 2), size, off, &evs, stage, &runs, "entry-random");
    }

    // N6. window transforms feeding joins: all four kinds, the window side left / right / both,
    //     key_by_window and the groupings, both modes; every window's events are spread over the
    //     whole (contiguously split) source, the table has matching windows (twice), a window with
    //     the same start and another end, and windows without events
    let join_runs: Vec<(i64, u64)> = vec![(0, 0), (2, 0), (4, 0), (7, 2), (3, 1), (16, 0), (4, 3), (-1, 0), (-2, 1)];
    for (size, off) in [(10u64, 3u64), (4, 0), (1, 0), (5, 12)] {
        let m = off % size;
        let evs: Vec<Ev> = (0..24u64).map(|i| ((i % 3) as i64, m + (i * 7) % (4 * size), i as i64)).collect();
        let evs2: Vec<Ev> = (0..10u64).map(|i| ((i % 2) as i64, m + size + (i * 3) % (4 * size), 100 + i as i64)).collect();
        let mut tab: Vec<(i64, u64, u64, i64)> = Vec::new();
        for j in 0..6u64 {
            for k in 0..2i64 {
                tab.push((k, m + j * size, m + j * size + size, (10 * j) as i64 + k));
            }
        }
        tab.push((0, m + size, m + 2 * size, 77)); // a second row for one window
        tab.push((0, m, m + 2 * size, 88)); // same start, other end
        tab.push((1, m + size, m + size, 99)); // empty interval with a window's start
        for jk in 0..4u64 {
            for keyed in [false, true] {
                for stage in 1..3u64 {
                    let entry = (jk + stage + u64::from(keyed)) % 3;
                    let w = SideSpec::Win { stage, entry, size, off, evs: evs.clone() };
                    let w2 = SideSpec::Win { stage: 3 - stage, entry: (entry + 1) % 3, size, off, evs: evs2.clone() };
                    let w3 = SideSpec::Win { stage, entry: 0, size: 2 * size, off, evs: evs2.clone() };
                    let t = SideSpec::Tab(tab.clone());
                    emit_wjoin(em, jk, keyed, &w, &t, false, &join_runs, "join-structured");
                    emit_wjoin(em, jk, keyed, &t, &w, stage == 1, &join_runs, "join-structured");
                    emit_wjoin(em, jk, keyed, &w, &w2, false, &join_runs, "join-structured");
                    emit_wjoin(em, jk, keyed, &w3, &w, keyed, &join_runs, "join-structured");
                }
            }
        }
    }

    // N7. seeded random joins
    let n = if thorough { 6_000 } else { 700 };
    for _ in 0..n {
        let size = if rng.chance(1, 80) { 0 } else { 1 + rng.below(8) };
        let off = rng.below(20);
        let keyed = rng.chance(1, 2);
        let base = if size == 0 || rng.chance(1, 15) { 0 } else { off % size };
        let span = 1 + rng.below(5 * size.max(1));
        let side = |rng: &mut SplitMix64, force_win: bool| -> SideSpec {
            if force_win || rng.chance(2, 3) {
                let nev = rng.below(16) as usize;
                let evs: Vec<Ev> =
                    (0..nev).map(|_| (rng.range(0, 2), base + rng.below(span), rng.range(0, 4))).collect();
                let sz = if rng.chance(1, 8) { size * 2 } else { size };
                SideSpec::Win { stage: 1 + rng.below(2), entry: rng.below(3), size: sz, off, evs }
            } else {
                let nrows = rng.below(8) as usize;
                let sz = size.max(1);
                let rows = (0..nrows)
                    .map(|_| {
                        let s = base - base % sz + off % sz + sz * rng.below(6);
                        let e = if rng.chance(1, 6) { s + rng.below(2 * sz + 1) } else { s + sz };
                        (rng.range(0, 2), s, e, rng.range(0, 50))
                    })
                    .collect();
                SideSpec::Tab(rows)
            }
        };
        let wl = rng.chance(1, 2);
        let l = side(&mut rng, wl);
        let r = side(&mut rng, !wl);
        let nruns = 1 + rng.below(3) as usize;
        let runs: Vec<(i64, u64)> = (0..nruns)
            .map(|_| {
                let p = *rng.pick(&[0i64, 1, 2, 2, 3, 4, 4, 5, 8, 13, -1]);
                let c = if rng.chance(1, 15) { 3 } else { rng.below(3) };
                (p, c)
            })
            .collect();
        emit_wjoin(em, rng.below(4), keyed, &l, &r, rng.chance(1, 6), &runs, "join-random");
    }
}

fn generate(seed: u64, tier: Tier, em: &mut Emitter) {
    let thorough = tier == Tier::Thorough;
    // big formula-generated cases are interleaved with the cheap families so that the (contiguous)
    // Coq shards stay balanced
    let mut bigs = big_cases(seed, thorough).into_iter();

    // 1. exhaustive small grid: size, off in 0..=G, ts in 0..=G (one row per (size, off))
    let g: u64 = if thorough { 96 } else { 40 };
    for size in 0..=g {
        for off in 0..=g {
            emit_row(em, size, off, 0, g + 1, "grid");
        }
    }

    // 2. boundary rows: 0, k*size +- 1, off +- 1, off%size +- 1, 2^63, values near 2^64 - size
    let sizes: Vec<u64> = vec![
        1, 2, 3, 7, 10, 60_000, (1 << 32) - 1, 1 << 32, (1 << 32) + 1, (1 << 62) - 1, 1 << 62,
        (1 << 63) - 1, 1 << 63, (1 << 63) + 1, M - 1, M,
    ];
    for &size in &sizes {
        let offs: Vec<u64> = vec![
            0, 1, size - 1, size, size.saturating_add(1), size.saturating_mul(2).saturating_add(3),
            size / 2, 1 << 62, (1 << 63) + 5, M - 1, M,
        ];
        for &off in &offs {
            let m = off % size;
            let anchors: Vec<u64> = vec![
                0, m, off, size, size.saturating_mul(2), size.saturating_mul(3).saturating_add(m),
                1 << 62, 1 << 63, M - size, (M - size).saturating_add(m), M - (M - m) % size,
                (M - (M - m) % size).saturating_sub(size), M,
            ];
            for &a in &anchors {
                emit_row(em, size, off, a.saturating_sub(3), 7, "boundary");
            }
        }
    }

    // 3. seeded random single calls over the whole u64 range
    // SplitMix64::new(s) and new(s + 1) yield the same stream shifted by one position, so the
    // seed is scrambled first (one output of the generator) to decorrelate neighbouring seeds
    let mut rng = SplitMix64::new(SplitMix64::new(seed).next_u64() ^ 0xC13);
    let n = if thorough { 40_000 } else { 3_000 };
    let big_every = (n / 40).max(1);
    for it in 0..n {
        if it % big_every == 0 && let Some(c) = bigs.next() {
            emit_big(em, c);
        }
        let size = if rng.chance(1, 40) { 0 } else { interesting_u64(&mut rng).max(1) };
        let off = interesting_u64(&mut rng);
        let ts = match rng.below(6) {
            // on / next to a window boundary of this (size, off)
            0 | 1 if size > 0 => {
                let k = interesting_u64(&mut rng) % (M / size).max(1);
                (off % size).wrapping_add(k.wrapping_mul(size)).wrapping_add(rng.below(3)).wrapping_sub(1)
            }
            2 => off.wrapping_add(rng.below(5)).wrapping_sub(2),
            _ => interesting_u64(&mut rng),
        };
        // keep most cases out of the (known, panicking) class ts < off % size
        let ts = if size > 0 && ts < off % size && rng.chance(3, 4) {
            (off % size).saturating_add(ts % size)
        } else {
            ts
        };
        emit_tumble(em, ts, size, off, "random");
    }

    // 4. grouping, structured: one event per timestamp 0..3*size+2, every partition count
    let part_counts: [usize; 7] = [0, 1, 2, 3, 4, 7, 16];
    for size in 1..=(if thorough { 9u64 } else { 5 }) {
        for off in [0u64, 1, size - 1, size, size + 2, 3 * size + 1] {
            // timestamps from the first representable one (off % size) on; for off = size - 1
            // additionally from 0 (then the run contains events of the unrepresentable class)
            let nev = 3 * size + 3;
            let base = if off + 1 == size { 0 } else { off % size };
            let evs: Vec<Ev> =
                (0..nev).map(|t| ((t % 2) as i64, base + t, (t % 3) as i64)).collect();
            for &parts in &part_counts {
                for keyed in [false, true] {
                    emit_group(em, "gbw", keyed, size, off, &evs, parts, "structured");
                }
                emit_group(em, "kbw", parts % 2 == 1, size, off, &evs, parts, "structured");
            }
        }
    }

    // 4b. Window's Eq / Hash / Ord: every pair of windows over (start, end) in 0..7 x 0..7
    //     (equal starts with different ends and vice versa included), one row per first window;
    //     then every pair over the extremes
    let wn: u64 = if thorough { 10 } else { 7 };
    for s1 in 0..wn {
        for e1 in 0..wn {
            em.case("weqrow", json!([s1, e1, wn]), true, &["weq-exhaustive"]);
        }
    }
    let ext: [u64; 5] = [0, 1, 1 << 63, M - 1, M];
    for &a in &ext {
        for &b in &ext {
            for &c in &ext {
                for &d in &ext {
                    let nt = (a == c) != (b == d) || (a == c && b == d);
                    em.case("weq", json!([ju(a), ju(b), ju(c), ju(d)]), nt, &["weq-extremes"]);
                }
            }
        }
    }

    // 4c. two window sizes meeting in one group_by_key (multi-resolution windowing):
    //     structured: every timestamp of 0..2*max+2 once per size, so windows with a common
    //     start / common end and different lengths always occur
    for (s1, s2) in [(2u64, 4u64), (1, 2), (3, 6), (2, 3), (5, 10), (4, 4), (1, 7)] {
        for off in [0u64, 1, s1, s2 + 1] {
            let base = (off % s1).max(off % s2);
            let span = 2 * s1.max(s2) + 2;
            let mut evs: Vec<Ev> = Vec::new();
            for t in 0..span {
                evs.push((0, base + t, (t % 3) as i64));
                evs.push((1, base + t, (t % 3) as i64 + 10));
            }
            for &parts in &part_counts {
                emit_mixed(em, s1, s2, off, &evs, parts, "mixed-structured");
            }
        }
    }
    let n = if thorough { 6_000 } else { 600 };
    for _ in 0..n {
        let s1 = 1 + rng.below(8);
        let s2 = if rng.chance(1, 2) { s1 * (1 + rng.below(4)) } else { 1 + rng.below(12) };
        let off = rng.below(20);
        let base = if rng.chance(1, 12) { 0 } else { (off % s1).max(off % s2) };
        let nev = rng.below(14) as usize;
        let evs: Vec<Ev> = (0..nev)
            .map(|_| (rng.range(0, 1), base + rng.below(3 * s1.max(s2)), rng.range(0, 4)))
            .collect();
        let parts = *rng.pick(&[0usize, 0, 1, 2, 3, 4, 5, 8, 13]);
        emit_mixed(em, s1, s2, off, &evs, parts, "mixed-random");
    }

    // 5. grouping, seeded random event sets (duplicates, unordered timestamps, key collisions,
    //    sometimes an event in the unrepresentable class, sometimes huge timestamps, size 0)
    let n = if thorough { 12_000 } else { 1_500 };
    for _ in 0..n {
        let huge = rng.chance(1, 12);
        let size = if rng.chance(1, 60) {
            0
        } else if huge {
            interesting_u64(&mut rng).max(1)
        } else {
            1 + rng.below(12)
        };
        let off = if huge { interesting_u64(&mut rng) } else { rng.below(30) };
        // timestamps start at off%size (all representable) unless we want the known class
        let want_known = rng.chance(1, 10);
        let base = if size == 0 || want_known { 0 } else { off % size };
        let nev = rng.below(14) as usize;
        let span = if huge { interesting_u64(&mut rng).max(1) } else { 1 + rng.below(60) };
        let evs: Vec<Ev> = (0..nev)
            .map(|_| {
                let t = if huge && rng.chance(1, 3) {
                    // close to the top of the range but below the last complete window
                    M - size.min(M / 2) - rng.below(span.min(1 << 20))
                } else {
                    base.saturating_add(rng.below(span))
                };
                (rng.range(0, 2), t, rng.range(0, 4))
            })
            .collect();
        let parts = *rng.pick(&[0usize, 0, 1, 2, 2, 3, 4, 5, 8, 13, 32]);
        let keyed = rng.chance(1, 2);
        let kind = if rng.chance(1, 4) { "kbw" } else { "gbw" };
        emit_group(em, kind, keyed, size, off, &evs, parts, "random");
    }
    for c in bigs {
        emit_big(em, c);
    }

    // 6. entry points of helpers/timestamped.rs, Window::new, collectors, joins
    generate_new(seed, thorough, em);
}

fn main() {
    drive(&generate, &run);
    // the per-process scratch root of the checkpointing runs
    let _ = std::fs::remove_dir_all(format!("/verif/run/C13/scratch-{}", std::process::id()));
}
