//! C13: tumbling windows partition event time; window grouping loses nothing.
//! Runs the REAL `ironbeam::Window::tumble` and the real `key_by_window` / `group_by_window` /
//! `group_by_key_and_window` helpers through `collect_seq` and `collect_par`.
//!
//! kinds (see coq/theories/Corr/C13.v):
//!   "tumble" in=[ts,size,off]                          out=["ok",[start,end]] | ["panic"]
//!   "row"    in=[size,off,ts0,n]                       out=[[start,end] | null ; n entries]
//!   "kbw"    in=[keyed,size,off,events,parts,threads]  out=["ok",[[k,start,end,v]..sorted]] | ["panic"]
//!   "gbw"    in=[keyed,size,off,events,parts,threads]  out=["ok",[[k,start,end,[v..sorted]]..sorted]] | ["panic"]
//!   "gmix"   in=[s1,s2,off,events,parts,threads]      out as "gbw"; event [sel,ts,v] gets the window of
//!            size s1 if sel == 0 else s2, in ONE map followed by ONE group_by_key
//!   "weq"    in=[s1,e1,s2,e2]   out=[a==b, hash(a)==hash(b), a.cmp(&b), a.partial_cmp(&b)] (-1/0/1, null=None)
//!   "weqrow" in=[s1,e1,n]       out=one such entry per (s2,e2) in 0..n x 0..n, s2-major
//! u64 values: JSON int below 2^62, decimal string otherwise. events=[[k,ts,v]..]; parts=0 means
//! collect_seq, parts=n>0 means collect_par(Some(threads), Some(n)).
use ibv::{Emitter, SplitMix64, Tier, drive};
use ironbeam::{Pipeline, Timestamped, Window, from_vec};
use serde_json::{Value, json};
use std::panic::{AssertUnwindSafe, catch_unwind};

fn ju(x: u64) -> Value {
    if x < (1u64 << 62) { json!(x) } else { json!(x.to_string()) }
}
fn du(v: &Value) -> u64 {
    match v {
        Value::String(s) => s.parse().expect("u64 string"),
        _ => v.as_u64().expect("u64"),
    }
}

type Ev = (i64, u64, i64);
fn events(v: &Value) -> Vec<Ev> {
    v.as_array()
        .unwrap()
        .iter()
        .map(|e| (e[0].as_i64().unwrap(), du(&e[1]), e[2].as_i64().unwrap()))
        .collect()
}
fn jevents(evs: &[Ev]) -> Value {
    Value::Array(evs.iter().map(|(k, t, v)| json!([k, ju(*t), v])).collect())
}

fn flag(v: &Value) -> bool {
    v.as_bool().unwrap_or_else(|| v.as_i64().unwrap() != 0)
}

fn collect<T: ironbeam::RFBound>(
    c: ironbeam::PCollection<T>,
    parts: usize,
    threads: usize,
) -> anyhow::Result<Vec<T>> {
    if parts == 0 { c.collect_seq() } else { c.collect_par(Some(threads), Some(parts)) }
}

fn hash_of(w: &Window) -> u64 {
    use std::hash::{Hash, Hasher};
    let mut h = std::collections::hash_map::DefaultHasher::new();
    w.hash(&mut h);
    h.finish()
}
fn ord_code(o: std::cmp::Ordering) -> i64 {
    match o {
        std::cmp::Ordering::Less => -1,
        std::cmp::Ordering::Equal => 0,
        std::cmp::Ordering::Greater => 1,
    }
}
/// the observable behaviour of Window's PartialEq / Hash / Ord / PartialOrd on one pair
#[allow(clippy::eq_op)]
fn weq(a: Window, b: Window) -> Value {
    let pc = a.partial_cmp(&b).map_or(Value::Null, |o| json!(ord_code(o)));
    json!([a == b, hash_of(&a) == hash_of(&b), ord_code(a.cmp(&b)), pc])
}

fn run(kind: &str, input: &Value) -> Value {
    match kind {
        "weq" => weq(
            Window { start: du(&input[0]), end: du(&input[1]) },
            Window { start: du(&input[2]), end: du(&input[3]) },
        ),
        "weqrow" => {
            let a = Window { start: du(&input[0]), end: du(&input[1]) };
            let n = input[2].as_u64().unwrap();
            let mut out = Vec::new();
            for s2 in 0..n {
                for e2 in 0..n {
                    out.push(weq(a, Window { start: s2, end: e2 }));
                }
            }
            Value::Array(out)
        }
        "gmix" => {
            let (s1, s2, off) = (du(&input[0]), du(&input[1]), du(&input[2]));
            let evs = events(&input[3]);
            let parts = input[4].as_u64().unwrap() as usize;
            let threads = input[5].as_u64().unwrap() as usize;
            let p = Pipeline::default();
            let data: Vec<(i64, Timestamped<i64>)> =
                evs.iter().map(|&(k, t, v)| (k, Timestamped::new(t, v))).collect();
            let grouped = from_vec(&p, data)
                .map(move |e: &(i64, Timestamped<i64>)| {
                    (Window::tumble(e.1.ts, if e.0 == 0 { s1 } else { s2 }, off), e.1.value)
                })
                .group_by_key();
            match collect(grouped, parts, threads) {
                Ok(r) => {
                    let mut r: Vec<(i64, u64, u64, Vec<i64>)> =
                        r.into_iter().map(|(w, vs)| (0, w.start, w.end, vs)).collect();
                    for g in &mut r {
                        g.3.sort();
                    }
                    r.sort();
                    let l: Vec<Value> =
                        r.iter().map(|(k, s, e, vs)| json!([k, ju(*s), ju(*e), vs])).collect();
                    json!(["ok", l])
                }
                Err(_) => json!(["err", "other"]),
            }
        }
        "tumble" => {
            let w = Window::tumble(du(&input[0]), du(&input[1]), du(&input[2]));
            json!(["ok", [ju(w.start), ju(w.end)]])
        }
        "row" => {
            let (size, off, ts0) = (du(&input[0]), du(&input[1]), du(&input[2]));
            let n = input[3].as_u64().unwrap();
            Value::Array(
                (0..n)
                    .map(|i| {
                        let ts = ts0 + i;
                        match catch_unwind(AssertUnwindSafe(|| Window::tumble(ts, size, off))) {
                            Ok(w) => json!([ju(w.start), ju(w.end)]),
                            Err(_) => Value::Null,
                        }
                    })
                    .collect(),
            )
        }
        "kbw" | "gbw" => {
            let keyed = flag(&input[0]);
            let (size, off) = (du(&input[1]), du(&input[2]));
            let evs = events(&input[3]);
            let parts = input[4].as_u64().unwrap() as usize;
            let threads = input[5].as_u64().unwrap() as usize;
            let p = Pipeline::default();
            if kind == "kbw" {
                let res: anyhow::Result<Vec<(i64, u64, u64, i64)>> = if keyed {
                    let data: Vec<(i64, Timestamped<i64>)> =
                        evs.iter().map(|&(k, t, v)| (k, Timestamped::new(t, v))).collect();
                    collect(from_vec(&p, data).key_by_window(size, off), parts, threads)
                        .map(|r| r.into_iter().map(|((k, w), v)| (k, w.start, w.end, v)).collect())
                } else {
                    let data: Vec<Timestamped<i64>> =
                        evs.iter().map(|&(_, t, v)| Timestamped::new(t, v)).collect();
                    collect(from_vec(&p, data).key_by_window(size, off), parts, threads)
                        .map(|r| r.into_iter().map(|(w, v)| (0, w.start, w.end, v)).collect())
                };
                match res {
                    Ok(mut r) => {
                        r.sort();
                        let l: Vec<Value> =
                            r.iter().map(|(k, s, e, v)| json!([k, ju(*s), ju(*e), v])).collect();
                        json!(["ok", l])
                    }
                    Err(_) => json!(["err", "other"]),
                }
            } else {
                let res: anyhow::Result<Vec<(i64, u64, u64, Vec<i64>)>> = if keyed {
                    let data: Vec<(i64, Timestamped<i64>)> =
                        evs.iter().map(|&(k, t, v)| (k, Timestamped::new(t, v))).collect();
                    collect(from_vec(&p, data).group_by_key_and_window(size, off), parts, threads)
                        .map(|r| r.into_iter().map(|((k, w), vs)| (k, w.start, w.end, vs)).collect())
                } else {
                    let data: Vec<Timestamped<i64>> =
                        evs.iter().map(|&(_, t, v)| Timestamped::new(t, v)).collect();
                    collect(from_vec(&p, data).group_by_window(size, off), parts, threads)
                        .map(|r| r.into_iter().map(|(w, vs)| (0, w.start, w.end, vs)).collect())
                };
                match res {
                    Ok(mut r) => {
                        for g in &mut r {
                            g.3.sort();
                        }
                        r.sort();
                        let l: Vec<Value> = r
                            .iter()
                            .map(|(k, s, e, vs)| json!([k, ju(*s), ju(*e), vs]))
                            .collect();
                        json!(["ok", l])
                    }
                    Err(_) => json!(["err", "other"]),
                }
            }
        }
        _ => json!(["bad-kind"]),
    }
}

// ---- honest non-triviality flags (computed independently of the code under test) ----
fn floor_start(ts: u64, size: u64, off: u64) -> i128 {
    let (ts, size, off) = (ts as i128, size as i128, off as i128);
    off + (ts - off).div_euclid(size) * size
}
/// offset != 0, or ts within 1 of a window boundary
fn nt_tumble(ts: u64, size: u64, off: u64) -> bool {
    if size == 0 {
        return false;
    }
    let s = floor_start(ts, size, off);
    let d = ts as i128 - s;
    off != 0 || d <= 1 || (size as i128 - d) <= 1
}
/// >= 2 distinct windows and >= 2 partitions actually produced
fn nt_group(evs: &[Ev], size: u64, off: u64, parts: usize) -> bool {
    if size == 0 {
        return false;
    }
    let mut starts: Vec<i128> = evs.iter().map(|e| floor_start(e.1, size, off)).collect();
    starts.sort();
    starts.dedup();
    starts.len() >= 2 && parts >= 2 && evs.len() >= 2
}

/// two windows of different length with a common start (or a common end) occur
fn nt_mixed(evs: &[Ev], s1: u64, s2: u64, off: u64) -> bool {
    if s1 == 0 || s2 == 0 {
        return false;
    }
    let mut ws: Vec<(i128, i128)> = evs
        .iter()
        .map(|e| {
            let size = if e.0 == 0 { s1 } else { s2 };
            let s = floor_start(e.1, size, off);
            (s, s + size as i128)
        })
        .collect();
    ws.sort();
    ws.dedup();
    ws.iter().any(|a| ws.iter().any(|b| a != b && (a.0 == b.0 || a.1 == b.1)))
}
fn emit_mixed(em: &mut Emitter, s1: u64, s2: u64, off: u64, evs: &[Ev], parts: usize, tag: &str) {
    em.case(
        "gmix",
        json!([ju(s1), ju(s2), ju(off), jevents(evs), parts, 4]),
        nt_mixed(evs, s1, s2, off),
        &[tag],
    );
}

fn emit_tumble(em: &mut Emitter, ts: u64, size: u64, off: u64, tag: &str) {
    em.case("tumble", json!([ju(ts), ju(size), ju(off)]), nt_tumble(ts, size, off), &[tag]);
}
/// a row of n consecutive timestamps starting at ts0 (clamped to stay inside u64)
fn emit_row(em: &mut Emitter, size: u64, off: u64, ts0: u64, n: u64, tag: &str) {
    let n = n.min((u64::MAX - ts0).saturating_add(1)).max(1);
    em.case("row", json!([ju(size), ju(off), ju(ts0), n]), size >= 1, &[tag]);
}
fn emit_group(
    em: &mut Emitter,
    kind: &str,
    keyed: bool,
    size: u64,
    off: u64,
    evs: &[Ev],
    parts: usize,
    tag: &str,
) {
    em.case(
        kind,
        json!([keyed, ju(size), ju(off), jevents(evs), parts, 4]),
        nt_group(evs, size, off, parts),
        &[tag],
    );
}

const M: u64 = u64::MAX;

fn interesting_u64(rng: &mut SplitMix64) -> u64 {
    match rng.below(8) {
        0 => rng.below(50),
        1 => rng.below(100_000),
        2 => 1u64 << rng.below(64),
        3 => (1u64 << rng.below(64)).wrapping_sub(1 + rng.below(3)),
        4 => M - rng.below(100),
        5 => (1u64 << 63).wrapping_add(rng.below(7)).wrapping_sub(3),
        6 => rng.next_u64() >> rng.below(64),
        _ => rng.next_u64(),
    }
}

fn generate(seed: u64, tier: Tier, em: &mut Emitter) {
    let thorough = tier == Tier::Thorough;

    // 1. exhaustive small grid: size, off in 0..=G, ts in 0..=G (one row per (size, off))
    let g: u64 = if thorough { 96 } else { 40 };
    for size in 0..=g {
        for off in 0..=g {
            emit_row(em, size, off, 0, g + 1, "grid");
        }
    }

    // 2. boundary rows: 0, k*size +- 1, off +- 1, off%size +- 1, 2^63, values near 2^64 - size
    let sizes: Vec<u64> = vec![
        1, 2, 3, 7, 10, 60_000, (1 << 32) - 1, 1 << 32, (1 << 32) + 1, (1 << 62) - 1, 1 << 62,
        (1 << 63) - 1, 1 << 63, (1 << 63) + 1, M - 1, M,
    ];
    for &size in &sizes {
        let offs: Vec<u64> = vec![
            0, 1, size - 1, size, size.saturating_add(1), size.saturating_mul(2).saturating_add(3),
            size / 2, 1 << 62, (1 << 63) + 5, M - 1, M,
        ];
        for &off in &offs {
            let m = off % size;
            let anchors: Vec<u64> = vec![
                0, m, off, size, size.saturating_mul(2), size.saturating_mul(3).saturating_add(m),
                1 << 62, 1 << 63, M - size, (M - size).saturating_add(m), M - (M - m) % size,
                (M - (M - m) % size).saturating_sub(size), M,
            ];
            for &a in &anchors {
                emit_row(em, size, off, a.saturating_sub(3), 7, "boundary");
            }
        }
    }

    // 3. seeded random single calls over the whole u64 range
    // SplitMix64::new(s) and new(s + 1) yield the same stream shifted by one position, so the
    // seed is scrambled first (one output of the generator) to decorrelate neighbouring seeds
    let mut rng = SplitMix64::new(SplitMix64::new(seed).next_u64() ^ 0xC13);
    let n = if thorough { 40_000 } else { 3_000 };
    for _ in 0..n {
        let size = if rng.chance(1, 40) { 0 } else { interesting_u64(&mut rng).max(1) };
        let off = interesting_u64(&mut rng);
        let ts = match rng.below(6) {
            // on / next to a window boundary of this (size, off)
            0 | 1 if size > 0 => {
                let k = interesting_u64(&mut rng) % (M / size).max(1);
                (off % size).wrapping_add(k.wrapping_mul(size)).wrapping_add(rng.below(3)).wrapping_sub(1)
            }
            2 => off.wrapping_add(rng.below(5)).wrapping_sub(2),
            _ => interesting_u64(&mut rng),
        };
        // keep most cases out of the (known, panicking) class ts < off % size
        let ts = if size > 0 && ts < off % size && rng.chance(3, 4) {
            (off % size).saturating_add(ts % size)
        } else {
            ts
        };
        emit_tumble(em, ts, size, off, "random");
    }

    // 4. grouping, structured: one event per timestamp 0..3*size+2, every partition count
    let part_counts: [usize; 7] = [0, 1, 2, 3, 4, 7, 16];
    for size in 1..=(if thorough { 9u64 } else { 5 }) {
        for off in [0u64, 1, size - 1, size, size + 2, 3 * size + 1] {
            // timestamps from the first representable one (off % size) on; for off = size - 1
            // additionally from 0 (then the run contains events of the unrepresentable class)
            let nev = 3 * size + 3;
            let base = if off + 1 == size { 0 } else { off % size };
            let evs: Vec<Ev> =
                (0..nev).map(|t| ((t % 2) as i64, base + t, (t % 3) as i64)).collect();
            for &parts in &part_counts {
                for keyed in [false, true] {
                    emit_group(em, "gbw", keyed, size, off, &evs, parts, "structured");
                }
                emit_group(em, "kbw", parts % 2 == 1, size, off, &evs, parts, "structured");
            }
        }
    }

    // 4b. Window's Eq / Hash / Ord: every pair of windows over (start, end) in 0..7 x 0..7
    //     (equal starts with different ends and vice versa included), one row per first window;
    //     then every pair over the extremes
    let wn: u64 = if thorough { 10 } else { 7 };
    for s1 in 0..wn {
        for e1 in 0..wn {
            em.case("weqrow", json!([s1, e1, wn]), true, &["weq-exhaustive"]);
        }
    }
    let ext: [u64; 5] = [0, 1, 1 << 63, M - 1, M];
    for &a in &ext {
        for &b in &ext {
            for &c in &ext {
                for &d in &ext {
                    let nt = (a == c) != (b == d) || (a == c && b == d);
                    em.case("weq", json!([ju(a), ju(b), ju(c), ju(d)]), nt, &["weq-extremes"]);
                }
            }
        }
    }

    // 4c. two window sizes meeting in one group_by_key (multi-resolution windowing):
    //     structured: every timestamp of 0..2*max+2 once per size, so windows with a common
    //     start / common end and different lengths always occur
    for (s1, s2) in [(2u64, 4u64), (1, 2), (3, 6), (2, 3), (5, 10), (4, 4), (1, 7)] {
        for off in [0u64, 1, s1, s2 + 1] {
            let base = (off % s1).max(off % s2);
            let span = 2 * s1.max(s2) + 2;
            let mut evs: Vec<Ev> = Vec::new();
            for t in 0..span {
                evs.push((0, base + t, (t % 3) as i64));
                evs.push((1, base + t, (t % 3) as i64 + 10));
            }
            for &parts in &part_counts {
                emit_mixed(em, s1, s2, off, &evs, parts, "mixed-structured");
            }
        }
    }
    let n = if thorough { 6_000 } else { 600 };
    for _ in 0..n {
        let s1 = 1 + rng.below(8);
        let s2 = if rng.chance(1, 2) { s1 * (1 + rng.below(4)) } else { 1 + rng.below(12) };
        let off = rng.below(20);
        let base = if rng.chance(1, 12) { 0 } else { (off % s1).max(off % s2) };
        let nev = rng.below(14) as usize;
        let evs: Vec<Ev> = (0..nev)
            .map(|_| (rng.range(0, 1), base + rng.below(3 * s1.max(s2)), rng.range(0, 4)))
            .collect();
        let parts = *rng.pick(&[0usize, 0, 1, 2, 3, 4, 5, 8, 13]);
        emit_mixed(em, s1, s2, off, &evs, parts, "mixed-random");
    }

    // 5. grouping, seeded random event sets (duplicates, unordered timestamps, key collisions,
    //    sometimes an event in the unrepresentable class, sometimes huge timestamps, size 0)
    let n = if thorough { 12_000 } else { 1_500 };
    for _ in 0..n {
        let huge = rng.chance(1, 12);
        let size = if rng.chance(1, 60) {
            0
        } else if huge {
            interesting_u64(&mut rng).max(1)
        } else {
            1 + rng.below(12)
        };
        let off = if huge { interesting_u64(&mut rng) } else { rng.below(30) };
        // timestamps start at off%size (all representable) unless we want the known class
        let want_known = rng.chance(1, 10);
        let base = if size == 0 || want_known { 0 } else { off % size };
        let nev = rng.below(14) as usize;
        let span = if huge { interesting_u64(&mut rng).max(1) } else { 1 + rng.below(60) };
        let evs: Vec<Ev> = (0..nev)
            .map(|_| {
                let t = if huge && rng.chance(1, 3) {
                    // close to the top of the range but below the last complete window
                    M - size.min(M / 2) - rng.below(span.min(1 << 20))
                } else {
                    base.saturating_add(rng.below(span))
                };
                (rng.range(0, 2), t, rng.range(0, 4))
            })
            .collect();
        let parts = *rng.pick(&[0usize, 0, 1, 2, 2, 3, 4, 5, 8, 13, 32]);
        let keyed = rng.chance(1, 2);
        let kind = if rng.chance(1, 4) { "kbw" } else { "gbw" };
        emit_group(em, kind, keyed, size, off, &evs, parts, "random");
    }
}

fn main() {
    drive(&generate, &run);
}
