//! C17: validation passes exactly the valid records and accounts for every invalid one.
//! Runs the REAL `PCollection::validate_*` / `validate_values_*` operators through
//! `collect_seq` / `collect_par`, reads the shared `ErrorCollector` back, and the real
//! `combine_validations`.
//!
//! Record type: `Rec(v)`; `impl Validate` (mirrored by `validate_z` in Validation/Pipe.v):
//!   v < 0        => Err(vec![])                       (invalid, no errors)
//!   v mod 4 == 0 => Ok(())
//!   v mod 4 == n => Err([err(4v), .., err(4v+n-1)])   (n = 1..3 distinguishable errors)
//! Observed outcome of a run: ["panic"] | ["err","other"] |
//!   ["ok", rows, entries, error_count], entries = sorted [[prefix, idx, code..]..] with
//!   prefix 0 = "record_", 1 = "pair_", -1 = anything else.
//! Kinds: run, row, big, multi, pipe, combine (one operator / one chain / one collector over
//! several runs), tree (branching pipelines: several builder calls on one handle, all five
//! validation builders among map / filter / key_by / map_values / filter_values /
//! map_values_batches, every collector read back after every collect), views / viewsbig (the
//! collector through errors(), to_json(), write_to_file(), clone(), Display).
use ibv::{Emitter, SplitMix64, Tier, drive};
use ironbeam::validation::{
    ErrorCollector, RecordError, Validate, ValidationError, ValidationMode, ValidationResult,
    combine_validations,
};
use ironbeam::{PCollection, Pipeline, from_vec};
use serde_json::{Value, json};
use std::panic::{AssertUnwindSafe, catch_unwind};
use std::sync::{Arc, Mutex};

#[derive(Clone, Debug, PartialEq)]
struct Rec(i64);

fn mk_err(c: i64) -> ValidationError {
    // three shapes of error, all decodable back to the code
    let e = if c % 2 == 0 {
        ValidationError::field(format!("f{c}"), format!("m{c}"))
    } else {
        ValidationError::new(format!("m{c}"))
    };
    e.with_code(format!("{c}"))
}

/// the integer code of an error, or -1 if any part of it is not what `mk_err` built
fn err_code(e: &ValidationError) -> i64 {
    let Some(c) = e.code.as_ref().and_then(|s| s.parse::<i64>().ok()) else {
        return -1;
    };
    let want_field = if c % 2 == 0 { Some(format!("f{c}")) } else { None };
    if e.field == want_field && e.message == format!("m{c}") { c } else { -1 }
}

impl Validate for Rec {
    fn validate(&self) -> ValidationResult {
        let v = self.0;
        if v < 0 {
            return Err(vec![]);
        }
        let n = v.rem_euclid(4);
        if n == 0 { Ok(()) } else { Err((0..n).map(|k| mk_err(4 * v + k)).collect()) }
    }
}

fn mode_of(m: i64) -> Option<ValidationMode> {
    match m {
        0 => Some(ValidationMode::SkipInvalid),
        1 => Some(ValidationMode::LogAndContinue),
        2 => Some(ValidationMode::FailFast),
        _ => None,
    }
}

fn entry_json(id: Option<&String>, errors: &[ValidationError]) -> (Vec<i64>, i64, i64) {
    let (prefix, idx) = match id {
        Some(s) => {
            if let Some(r) = s.strip_prefix("record_") {
                (0, r.parse::<i64>().unwrap_or(-1))
            } else if let Some(r) = s.strip_prefix("pair_") {
                (1, r.parse::<i64>().unwrap_or(-1))
            } else {
                (-1, -1)
            }
        }
        None => (-1, -1),
    };
    (errors.iter().map(err_code).collect(), prefix, idx)
}

fn collector_json(c: &Arc<Mutex<ErrorCollector>>) -> (Value, i64) {
    let g = c.lock().unwrap_or_else(std::sync::PoisonError::into_inner);
    let mut es: Vec<(Vec<i64>, i64, i64)> =
        g.errors().iter().map(|r| entry_json(r.record_id.as_ref(), &r.errors)).collect();
    es.sort();
    let arr: Vec<Value> = es
        .into_iter()
        .map(|(codes, p, i)| {
            let mut v = vec![p, i];
            v.extend(codes);
            json!(v)
        })
        .collect();
    (Value::Array(arr), g.error_count() as i64)
}

/// how a collection is collected: 0 collect_seq | 1 collect_par(Some(t), Some(n)) |
/// 2 collect_par(None, None) | 3 collect() | 4 collect_par(Some(t), None) |
/// 5 collect_par(None, Some(n))      (0 and 3 are the sequential engine)
enum Exec {
    Seq,
    Plain,
    Par(Option<usize>, Option<usize>),
}
fn exec_of(ex: i64, threads: i64, parts: i64) -> Option<Exec> {
    if threads < 1 || parts < 0 {
        return if ex == 0 { Some(Exec::Seq) } else { None };
    }
    let (t, n) = (threads as usize, parts as usize);
    match ex {
        0 => Some(Exec::Seq),
        1 => Some(Exec::Par(Some(t), Some(n))),
        2 => Some(Exec::Par(None, None)),
        3 => Some(Exec::Plain),
        4 => Some(Exec::Par(Some(t), None)),
        5 => Some(Exec::Par(None, Some(n))),
        _ => None,
    }
}
fn collect_with<T: ironbeam::RFBound>(c: PCollection<T>, e: &Exec) -> anyhow::Result<Vec<T>> {
    match e {
        Exec::Seq => c.collect_seq(),
        Exec::Plain => c.collect(),
        Exec::Par(t, n) => c.collect_par(*t, *n),
    }
}

fn finish<T>(
    r: std::thread::Result<anyhow::Result<Vec<T>>>,
    coll: &Arc<Mutex<ErrorCollector>>,
    row: impl Fn(&T) -> Value,
) -> Value {
    match r {
        Err(_) => json!(["panic"]),
        Ok(Err(_)) => json!(["err", "other"]),
        Ok(Ok(out)) => {
            let rows: Vec<Value> = out.iter().map(row).collect();
            let (entries, count) = collector_json(coll);
            json!(["ok", rows, entries, count])
        }
    }
}

/// one validation step directly on a source
fn run_one(keyed: bool, m: i64, hc: bool, exec: &Exec, rows: &Value) -> Value {
    let coll = Arc::new(Mutex::new(ErrorCollector::new()));
    run_shared(keyed, m, hc, exec, rows, &coll)
}

/// the same, on a collector owned by the caller (it may already hold entries of earlier runs)
fn run_shared(
    keyed: bool,
    m: i64,
    hc: bool,
    exec: &Exec,
    rows: &Value,
    coll: &Arc<Mutex<ErrorCollector>>,
) -> Value {
    let Some(mode) = mode_of(m) else { return json!(["invalid"]) };
    let Some(arr) = rows.as_array() else { return json!(["invalid"]) };
    let given = if hc { Some(Arc::clone(coll)) } else { None };
    if keyed {
        let mut data: Vec<(i64, Rec)> = Vec::new();
        for r in arr {
            match (r.get(0).and_then(Value::as_i64), r.get(1).and_then(Value::as_i64)) {
                (Some(k), Some(v)) if r.as_array().is_some_and(|a| a.len() == 2) => {
                    data.push((k, Rec(v)));
                }
                _ => return json!(["invalid"]),
            }
        }
        let res = catch_unwind(AssertUnwindSafe(|| {
            let p = Pipeline::default();
            let src = from_vec(&p, data);
            // the convenience wrapper where one exists, the general entry point otherwise
            let v = if mutant::id() != 0 {
                src.apply_transform(Arc::new(mutant::ValidateValuesOp::<i64, Rec> {
                    mu: mutant::id(),
                    mode,
                    collector: given,
                    _phantom: std::marker::PhantomData,
                }))
            } else if !hc && mode == ValidationMode::SkipInvalid {
                src.validate_values_skip_invalid()
            } else {
                src.validate_values_with_mode(mode, given)
            };
            collect_with(v, exec)
        }));
        finish(res, coll, |kv: &(i64, Rec)| json!([kv.0, kv.1.0]))
    } else {
        let mut data: Vec<Rec> = Vec::new();
        for r in arr {
            match r.as_i64() {
                Some(v) => data.push(Rec(v)),
                None => return json!(["invalid"]),
            }
        }
        let res = catch_unwind(AssertUnwindSafe(|| {
            let p = Pipeline::default();
            let src = from_vec(&p, data);
            let v = if mutant::id() != 0 {
                src.apply_transform(Arc::new(mutant::ValidateOp::<Rec> {
                    mu: mutant::id(),
                    mode,
                    collector: given,
                    _phantom: std::marker::PhantomData,
                }))
            } else if !hc && mode == ValidationMode::SkipInvalid {
                src.validate_skip_invalid()
            } else if !hc && mode == ValidationMode::FailFast {
                src.validate_fail_fast()
            } else {
                src.validate_with_mode(mode, given)
            };
            collect_with(v, exec)
        }));
        finish(res, coll, |r: &Rec| json!(r.0))
    }
}

/// record i of a "big" pattern (mirrored by `big_value` in Corr/C17.v): invalid iff
/// i mod m >= t, then 1 + i mod 3 errors
fn big_value(m: i64, t: i64, i: i64) -> i64 {
    4 * i + if i.rem_euclid(m) >= t { 1 + i % 3 } else { 0 }
}

/// "big" kind: k runs of n records each (run j holds records j*n .. (j+1)*n) through ONE shared
/// collector; only summaries are emitted:
///   ["panic"] | ["err","other"] |
///   ["ok", [[len, sum of values, first, last, order_and_keys_ok] per run],
///          [error_count, entries, distinct payloads, sum of codes, number of errors,
///           sum of record idx, entries with a wrong id prefix or a garbled error]]
fn run_big(keyed: bool, m_mode: i64, hc: bool, exec: &Exec, n: i64, m: i64, t: i64, k: i64) -> Value {
    let Some(mode) = mode_of(m_mode) else { return json!(["invalid"]) };
    let coll = Arc::new(Mutex::new(ErrorCollector::new()));
    let mut outs = Vec::new();
    for j in 0..k {
        let vals: Vec<i64> = (j * n..(j + 1) * n).map(|i| big_value(m, t, i)).collect();
        let given = if hc { Some(Arc::clone(&coll)) } else { None };
        let res: std::thread::Result<anyhow::Result<Vec<(i64, i64)>>> = if keyed {
            let data: Vec<(i64, Rec)> = vals.iter().map(|v| ((v / 4) % 7, Rec(*v))).collect();
            catch_unwind(AssertUnwindSafe(|| {
                let p = Pipeline::default();
                let src = from_vec(&p, data);
                let v = if mutant::id() != 0 {
                    src.apply_transform(Arc::new(mutant::ValidateValuesOp::<i64, Rec> {
                        mu: mutant::id(),
                        mode,
                        collector: given,
                        _phantom: std::marker::PhantomData,
                    }))
                } else {
                    src.validate_values_with_mode(mode, given)
                };
                let out = collect_with(v, exec);
                out.map(|rows| rows.into_iter().map(|(key, r)| (key, r.0)).collect())
            }))
        } else {
            let data: Vec<Rec> = vals.iter().map(|v| Rec(*v)).collect();
            catch_unwind(AssertUnwindSafe(|| {
                let p = Pipeline::default();
                let src = from_vec(&p, data);
                let v = if mutant::id() != 0 {
                    src.apply_transform(Arc::new(mutant::ValidateOp::<Rec> {
                        mu: mutant::id(),
                        mode,
                        collector: given,
                        _phantom: std::marker::PhantomData,
                    }))
                } else {
                    src.validate_with_mode(mode, given)
                };
                let out = collect_with(v, exec);
                out.map(|rows| rows.into_iter().map(|r| ((r.0 / 4) % 7, r.0)).collect())
            }))
        };
        match res {
            Err(_) => return json!(["panic"]),
            Ok(Err(_)) => return json!(["err", "other"]),
            Ok(Ok(rows)) => {
                let mut ok = true;
                let mut prev: Option<i64> = None;
                let mut sum = 0i64;
                for (key, v) in &rows {
                    ok &= prev.is_none_or(|p| p < *v) && *key == (*v / 4) % 7;
                    prev = Some(*v);
                    sum += *v;
                }
                let first = rows.first().map_or(-1, |r| r.1);
                let last = rows.last().map_or(-1, |r| r.1);
                outs.push(json!([rows.len() as i64, sum, first, last, i64::from(ok)]));
            }
        }
    }
    let g = coll.lock().unwrap_or_else(std::sync::PoisonError::into_inner);
    let want_prefix = i64::from(keyed);
    let mut distinct = std::collections::HashSet::new();
    let (mut sum_codes, mut nerrs, mut sum_idx, mut bad) = (0i64, 0i64, 0i64, 0i64);
    for r in g.errors() {
        let (codes, prefix, idx) = entry_json(r.record_id.as_ref(), &r.errors);
        if prefix != want_prefix || idx < 0 || codes.iter().any(|c| *c < 0) {
            bad += 1;
        }
        sum_codes += codes.iter().sum::<i64>();
        nerrs += codes.len() as i64;
        sum_idx += idx;
        distinct.insert(codes);
    }
    json!(["ok", outs, [g.error_count() as i64, g.errors().len() as i64, distinct.len() as i64,
                        sum_codes, nerrs, sum_idx, bad]])
}

/// record i of an exhaustive pattern (mirrored by `pattern_rows` in Corr/C17.v)
fn pattern_rows(keyed: bool, len: i64, bits: i64) -> Value {
    let rows: Vec<Value> = (0..len)
        .map(|i| {
            let bad = (bits >> i) & 1 == 1;
            let v = 4 * i + if bad { 1 + i % 3 } else { 0 };
            if keyed { json!([(7 * i) % 3, v]) } else { json!(v) }
        })
        .collect();
    Value::Array(rows)
}

/// [entries, count] of a list of RecordErrors, in the format of `collector_json`
fn view_json(records: &[RecordError], count: i64) -> Value {
    let mut es: Vec<(Vec<i64>, i64, i64)> =
        records.iter().map(|r| entry_json(r.record_id.as_ref(), &r.errors)).collect();
    es.sort();
    let arr: Vec<Value> = es
        .into_iter()
        .map(|(codes, p, i)| {
            let mut v = vec![p, i];
            v.extend(codes);
            json!(v)
        })
        .collect();
    json!([arr, count])
}

/// "views" kind: one log-mode run with a collector, then the collector read through EVERY public
/// view: errors()/error_count() (the run's own observation), to_json() parsed back,
/// write_to_file() read and parsed back, clone(), Display ("ErrorCollector(N errors)").
/// out = [run observation, json view, file view, clone view, displayed count]; a view that
/// cannot be produced or parsed is [[], -1].
fn run_views(keyed: bool, exec: &Exec, rows: &Value) -> Value {
    let coll = Arc::new(Mutex::new(ErrorCollector::new()));
    let first = run_shared(keyed, 1, true, exec, rows, &coll);
    let g = coll.lock().unwrap_or_else(std::sync::PoisonError::into_inner);
    let bad = || json!([[], -1]);
    let parse = |s: &str| serde_json::from_str::<Vec<RecordError>>(s).ok();
    let via_json = match g.to_json().ok().as_deref().and_then(parse) {
        Some(rs) => view_json(&rs, rs.len() as i64),
        None => bad(),
    };
    let via_file = (|| {
        let _ = std::fs::create_dir_all("/verif/run/C17/scratch");
        let dir = tempfile::Builder::new()
            .prefix("views-")
            .tempdir_in("/verif/run/C17/scratch")
            .or_else(|_| tempfile::tempdir())
            .ok()?;
        let path = dir.path().join("errors.json");
        g.write_to_file(&path).ok()?;
        let rs = parse(&std::fs::read_to_string(&path).ok()?)?;
        Some(view_json(&rs, rs.len() as i64))
    })()
    .unwrap_or_else(bad);
    let cl = g.clone();
    let via_clone = view_json(cl.errors(), cl.error_count() as i64);
    let shown = format!("{g}");
    let displayed = shown
        .strip_prefix("ErrorCollector(")
        .and_then(|r| r.strip_suffix(" errors)"))
        .and_then(|n| n.parse::<i64>().ok())
        .unwrap_or(-1);
    json!([first, via_json, via_file, via_clone, displayed])
}

/// "viewsbig" kind: in = [keyed, n, m, t, partitions]: one log-mode run of the big pattern, then
/// summaries of every view: out = ["ok", [entries, sum of codes, number of errors] for errors(),
/// to_json(), write_to_file(), clone(); displayed count, error_count] | ["panic"] | ["err", ..]
fn run_views_big(keyed: bool, n: i64, m: i64, t: i64, parts: i64) -> Value {
    let coll = Arc::new(Mutex::new(ErrorCollector::new()));
    let vals: Vec<i64> = (0..n).map(|i| big_value(m, t, i)).collect();
    let given = Some(Arc::clone(&coll));
    let exec = Exec::Par(Some(3), Some(parts as usize));
    let res = catch_unwind(AssertUnwindSafe(|| {
        let p = Pipeline::default();
        if keyed {
            let data: Vec<(i64, Rec)> = vals.iter().map(|v| ((v / 4) % 7, Rec(*v))).collect();
            collect_with(from_vec(&p, data).validate_values_with_mode(ValidationMode::LogAndContinue, given), &exec)
                .map(|v| v.len())
        } else {
            let data: Vec<Rec> = vals.iter().map(|v| Rec(*v)).collect();
            collect_with(from_vec(&p, data).validate_with_mode(ValidationMode::LogAndContinue, given), &exec)
                .map(|v| v.len())
        }
    }));
    match res {
        Err(_) => return json!(["panic"]),
        Ok(Err(_)) => return json!(["err", "other"]),
        Ok(Ok(_)) => {}
    }
    let g = coll.lock().unwrap_or_else(std::sync::PoisonError::into_inner);
    let summary = |rs: &[RecordError]| -> Value {
        let (mut sum, mut nerr) = (0i64, 0i64);
        for r in rs {
            for e in &r.errors {
                sum += err_code(e);
                nerr += 1;
            }
        }
        json!([rs.len() as i64, sum, nerr])
    };
    let bad = || json!([-1, -1, -1]);
    let parse = |s: &str| serde_json::from_str::<Vec<RecordError>>(s).ok();
    let via_json = g.to_json().ok().as_deref().and_then(parse).map_or_else(bad, |rs| summary(&rs));
    let via_file = (|| {
        let _ = std::fs::create_dir_all("/verif/run/C17/scratch");
        let dir = tempfile::Builder::new()
            .prefix("views-")
            .tempdir_in("/verif/run/C17/scratch")
            .or_else(|_| tempfile::tempdir())
            .ok()?;
        let path = dir.path().join("errors.json");
        g.write_to_file(&path).ok()?;
        Some(summary(&parse(&std::fs::read_to_string(&path).ok()?)?))
    })()
    .unwrap_or_else(bad);
    let cl = g.clone();
    let shown = format!("{g}");
    let displayed = shown
        .strip_prefix("ErrorCollector(")
        .and_then(|r| r.strip_suffix(" errors)"))
        .and_then(|n| n.parse::<i64>().ok())
        .unwrap_or(-1);
    json!(["ok", summary(g.errors()), via_json, via_file, summary(cl.errors()), displayed,
           g.error_count() as i64])
}

// ------------------------------------------------------------------ tree kind
/// a handle of either static type
#[derive(Clone)]
enum H {
    U(PCollection<Rec>),
    K(PCollection<(i64, Rec)>),
}

const N_COLL: usize = 3;

/// one builder call on the handle `h` (mirrored by `dec_tstep` in Corr/C17.v):
///   [0,c] map / map_values (+c) | [1,m,r] filter / filter_values (v mod m != r)
///   [2,mode,cid] validate_with_mode / validate_values_with_mode (cid = -1: no collector)
///   [3] validate_skip_invalid / validate_values_skip_invalid | [4] validate_fail_fast (unkeyed)
///   [5,m] key_by(v mod m) (unkeyed -> keyed) | [6] map(|kv| kv.1) (keyed -> unkeyed)
///   [7,n,c] map_values_batches(n, +c) (keyed)
/// The validation builders take `&self` (the parent handle stays usable), the others consume a
/// clone of the handle.
fn tree_step(h: &H, s: &[i64], colls: &[Arc<Mutex<ErrorCollector>>]) -> Option<H> {
    let coll = |cid: i64| -> Option<Option<Arc<Mutex<ErrorCollector>>>> {
        if cid == -1 {
            Some(None)
        } else if cid >= 0 && (cid as usize) < colls.len() {
            Some(Some(Arc::clone(&colls[cid as usize])))
        } else {
            None
        }
    };
    Some(match (h, s) {
        (H::U(c), [0, k]) => {
            let k = *k;
            H::U(c.clone().map(move |r: &Rec| Rec(r.0 + k)))
        }
        (H::K(c), [0, k]) => {
            let k = *k;
            H::K(c.clone().map_values(move |r: &Rec| Rec(r.0 + k)))
        }
        (H::U(c), [1, m, r]) if *m > 0 => {
            let (m, r) = (*m, *r);
            H::U(c.clone().filter(move |x: &Rec| x.0.rem_euclid(m) != r))
        }
        (H::K(c), [1, m, r]) if *m > 0 => {
            let (m, r) = (*m, *r);
            H::K(c.clone().filter_values(move |x: &Rec| x.0.rem_euclid(m) != r))
        }
        (H::U(c), [2, md, cid]) => H::U(c.validate_with_mode(mode_of(*md)?, coll(*cid)?)),
        (H::K(c), [2, md, cid]) => H::K(c.validate_values_with_mode(mode_of(*md)?, coll(*cid)?)),
        (H::U(c), [3]) => H::U(c.validate_skip_invalid()),
        (H::K(c), [3]) => H::K(c.validate_values_skip_invalid()),
        (H::U(c), [4]) => H::U(c.validate_fail_fast()),
        (H::U(c), [5, m]) if *m > 0 => {
            let m = *m;
            H::K(c.clone().key_by(move |r: &Rec| r.0.rem_euclid(m)))
        }
        (H::K(c), [6]) => H::U(c.clone().map(|kv: &(i64, Rec)| kv.1.clone())),
        (H::K(c), [7, n, k]) if *n >= 0 => {
            let k = *k;
            H::K(c.clone().map_values_batches(*n as usize, move |vs: &[Rec]| {
                vs.iter().map(|r| Rec(r.0 + k)).collect()
            }))
        }
        _ => return None,
    })
}

/// "tree" kind: in = [keyed source, threads, rows, script]; rows = explicit list or
/// ["r", n, m, t] (record i = big_value(m, t, i), key i mod 7); script op =
/// [0, parent handle, step] (a builder call; handle 0 = the source, handle i = the i-th call) |
/// [1, handle, exec, partitions] (collect_seq / collect_par on a clone of the handle).
/// out = one observation per COLLECT: ["ok", rows, colls] | ["panic", colls] | ["err", colls],
/// colls = [[entries, error_count] per collector], read back after every collect.
fn run_tree(input: &Value) -> Value {
    let (Some(keyed0), Some(th), Some(jrows), Some(script)) = (
        input.get(0).and_then(Value::as_i64),
        input.get(1).and_then(Value::as_i64),
        input.get(2).and_then(Value::as_array),
        input.get(3).and_then(Value::as_array),
    ) else {
        return json!(["invalid"]);
    };
    if input.as_array().map(Vec::len) != Some(4) || !(0..=1).contains(&keyed0) {
        return json!(["invalid"]);
    }
    // rows
    let mut vals: Vec<(i64, i64)> = Vec::new();
    if jrows.first().and_then(Value::as_str) == Some("r") {
        let g = |i: usize| jrows.get(i).and_then(Value::as_i64);
        let (Some(n), Some(m), Some(t)) = (g(1), g(2), g(3)) else { return json!(["invalid"]) };
        if jrows.len() != 4 || !(0..=100_000).contains(&n) || m < 1 || t < 0 {
            return json!(["invalid"]);
        }
        vals.extend((0..n).map(|i| (i % 7, big_value(m, t, i))));
    } else {
        for r in jrows {
            if keyed0 == 1 {
                match (r.get(0).and_then(Value::as_i64), r.get(1).and_then(Value::as_i64)) {
                    (Some(k), Some(v)) if r.as_array().is_some_and(|a| a.len() == 2) => {
                        vals.push((k, v));
                    }
                    _ => return json!(["invalid"]),
                }
            } else {
                match r.as_i64() {
                    Some(v) => vals.push((0, v)),
                    None => return json!(["invalid"]),
                }
            }
        }
    }
    let colls: Vec<Arc<Mutex<ErrorCollector>>> =
        (0..N_COLL).map(|_| Arc::new(Mutex::new(ErrorCollector::new()))).collect();
    let dump = |colls: &[Arc<Mutex<ErrorCollector>>]| -> Value {
        Value::Array(
            colls
                .iter()
                .map(|c| {
                    let (entries, count) = collector_json(c);
                    json!([entries, count])
                })
                .collect(),
        )
    };
    let p = Pipeline::default();
    let mut handles: Vec<H> = vec![if keyed0 == 1 {
        H::K(from_vec(&p, vals.iter().map(|kv| (kv.0, Rec(kv.1))).collect::<Vec<_>>()))
    } else {
        H::U(from_vec(&p, vals.iter().map(|kv| Rec(kv.1)).collect::<Vec<_>>()))
    }];
    let mut out = Vec::new();
    for op in script {
        let Some(a) = op.as_array() else { return json!(["invalid"]) };
        match a.first().and_then(Value::as_i64) {
            Some(0) if a.len() == 3 => {
                let (Some(parent), Some(step)) = (
                    a[1].as_i64(),
                    a[2].as_array().and_then(|s| s.iter().map(Value::as_i64).collect::<Option<Vec<i64>>>()),
                ) else {
                    return json!(["invalid"]);
                };
                if parent < 0 || parent as usize >= handles.len() {
                    return json!(["invalid"]);
                }
                match tree_step(&handles[parent as usize], &step, &colls) {
                    Some(h) => handles.push(h),
                    None => return json!(["invalid"]),
                }
            }
            Some(1) if a.len() == 4 => {
                let (Some(h), Some(ex), Some(parts)) = (a[1].as_i64(), a[2].as_i64(), a[3].as_i64())
                else {
                    return json!(["invalid"]);
                };
                if h < 0 || h as usize >= handles.len() {
                    return json!(["invalid"]);
                }
                let Some(exec) = exec_of(ex, th, parts) else { return json!(["invalid"]) };
                let handle = handles[h as usize].clone();
                let res: std::thread::Result<anyhow::Result<Vec<Value>>> =
                    catch_unwind(AssertUnwindSafe(|| match handle {
                        H::U(c) => {
                            collect_with(c, &exec).map(|v| v.iter().map(|r| json!(r.0)).collect())
                        }
                        H::K(c) => collect_with(c, &exec)
                            .map(|v| v.iter().map(|kv| json!([kv.0, kv.1.0])).collect()),
                    }));
                out.push(match res {
                    Err(_) => json!(["panic", dump(&colls)]),
                    Ok(Err(_)) => json!(["err", dump(&colls)]),
                    Ok(Ok(rows)) => json!(["ok", rows, dump(&colls)]),
                });
            }
            _ => return json!(["invalid"]),
        }
    }
    Value::Array(out)
}

fn run(kind: &str, input: &Value) -> Value {
    let int = |i: usize| input.get(i).and_then(Value::as_i64);
    let bit = |i: usize| match input.get(i) {
        Some(Value::Bool(b)) => Some(*b),
        Some(v) => match v.as_i64() {
            Some(0) => Some(false),
            Some(1) => Some(true),
            _ => None,
        },
        None => None,
    };
    match kind {
        "run" => {
            let (Some(keyed), Some(m), Some(hc), Some(ex), Some(t), Some(n)) =
                (bit(0), int(1), bit(2), int(3), int(4), int(5))
            else {
                return json!(["invalid"]);
            };
            let (Some(exec), Some(rows)) = (exec_of(ex, t, n), input.get(6)) else {
                return json!(["invalid"]);
            };
            if input.as_array().map(Vec::len) != Some(7) {
                return json!(["invalid"]);
            }
            run_one(keyed, m, hc, &exec, rows)
        }
        "multi" => {
            // in = [keyed, threads, steps]; step = [mode, has_collector, exec, partitions, rows]
            // (a run on the SHARED collector) | [9] (ErrorCollector::clear()).
            // out = per step ["ok", rows, entries, count] | ["panic", entries, count] |
            //       ["err", entries, count] | ["clear", entries, count]: the collector content
            //       is read back after EVERY step.
            let (Some(keyed), Some(th), Some(steps)) =
                (bit(0), int(1), input.get(2).and_then(Value::as_array))
            else {
                return json!(["invalid"]);
            };
            if input.as_array().map(Vec::len) != Some(3) {
                return json!(["invalid"]);
            }
            let coll = Arc::new(Mutex::new(ErrorCollector::new()));
            let mut out = Vec::new();
            for st in steps {
                let Some(a) = st.as_array() else { return json!(["invalid"]) };
                if a.len() == 1 && a[0].as_i64() == Some(9) {
                    coll.lock().unwrap_or_else(std::sync::PoisonError::into_inner).clear();
                    let (entries, count) = collector_json(&coll);
                    out.push(json!(["clear", entries, count]));
                    continue;
                }
                if a.len() != 5 {
                    return json!(["invalid"]);
                }
                let hc = match a[1].as_i64() {
                    Some(0) => false,
                    Some(1) => true,
                    _ => return json!(["invalid"]),
                };
                let (Some(md), Some(ex), Some(parts)) = (a[0].as_i64(), a[2].as_i64(), a[3].as_i64())
                else {
                    return json!(["invalid"]);
                };
                let Some(exec) = exec_of(ex, th, parts) else { return json!(["invalid"]) };
                let v = run_shared(keyed, md, hc, &exec, &a[4], &coll);
                match v[0].as_str() {
                    Some("ok") => out.push(v),
                    Some(tag @ ("panic" | "err")) => {
                        let (entries, count) = collector_json(&coll);
                        out.push(json!([tag, entries, count]));
                    }
                    _ => return json!(["invalid"]),
                }
            }
            Value::Array(out)
        }
        "big" => {
            // in = [keyed, mode, has_collector, exec, threads, partitions, n, m, t, runs]
            let (Some(keyed), Some(md), Some(hc), Some(ex), Some(th), Some(parts)) =
                (bit(0), int(1), bit(2), int(3), int(4), int(5))
            else {
                return json!(["invalid"]);
            };
            let (Some(n), Some(m), Some(t), Some(k)) = (int(6), int(7), int(8), int(9)) else {
                return json!(["invalid"]);
            };
            let Some(exec) = exec_of(ex, th, parts) else { return json!(["invalid"]) };
            if input.as_array().map(Vec::len) != Some(10)
                || !(0..=400_000).contains(&n)
                || m < 1
                || t < 0
                || !(1..=8).contains(&k)
            {
                return json!(["invalid"]);
            }
            run_big(keyed, md, hc, &exec, n, m, t, k)
        }
        "tree" => run_tree(input),
        "viewsbig" => {
            let (Some(keyed), Some(n), Some(m), Some(t), Some(parts)) =
                (bit(0), int(1), int(2), int(3), int(4))
            else {
                return json!(["invalid"]);
            };
            if input.as_array().map(Vec::len) != Some(5)
                || !(0..=400_000).contains(&n)
                || m < 1
                || t < 0
                || parts < 0
            {
                return json!(["invalid"]);
            }
            run_views_big(keyed, n, m, t, parts)
        }
        "views" => {
            // in = [keyed, exec, threads, partitions, rows]
            let (Some(keyed), Some(ex), Some(t), Some(n), Some(rows)) =
                (bit(0), int(1), int(2), int(3), input.get(4))
            else {
                return json!(["invalid"]);
            };
            let Some(exec) = exec_of(ex, t, n) else { return json!(["invalid"]) };
            if input.as_array().map(Vec::len) != Some(5) {
                return json!(["invalid"]);
            }
            run_views(keyed, &exec, rows)
        }
        "row" => {
            let (Some(keyed), Some(len), Some(bits), Some(maxp)) = (bit(0), int(1), int(2), int(3))
            else {
                return json!(["invalid"]);
            };
            if !(0..=16).contains(&len) || bits < 0 || !(0..=64).contains(&maxp) {
                return json!(["invalid"]);
            }
            let rows = pattern_rows(keyed, len, bits);
            let mut out = Vec::new();
            for m in 0..3 {
                out.push(run_one(keyed, m, true, &Exec::Seq, &rows));
                for n in 1..=maxp {
                    out.push(run_one(keyed, m, true, &Exec::Par(Some(2), Some(n as usize)), &rows));
                }
            }
            Value::Array(out)
        }
        "pipe" => {
            let (Some(ex), Some(t), Some(n)) = (int(0), int(1), int(2)) else {
                return json!(["invalid"]);
            };
            let (Some(exec), Some(rows), Some(steps)) = (
                exec_of(ex, t, n),
                input.get(3).and_then(Value::as_array),
                input.get(4).and_then(Value::as_array),
            ) else {
                return json!(["invalid"]);
            };
            let mut data: Vec<(i64, Rec)> = Vec::new();
            for r in rows {
                match (r.get(0).and_then(Value::as_i64), r.get(1).and_then(Value::as_i64)) {
                    (Some(k), Some(v)) if r.as_array().is_some_and(|a| a.len() == 2) => {
                        data.push((k, Rec(v)));
                    }
                    _ => return json!(["invalid"]),
                }
            }
            // decode the steps first: [0,c] map_values(+c) | [1,m,r] filter_values(v mod m != r)
            // | [2,mode,hc] validate_values
            enum Step {
                Map(i64),
                Filter(i64, i64),
                Validate(ValidationMode, bool),
            }
            let mut ss = Vec::new();
            for s in steps {
                let a: Option<Vec<i64>> =
                    s.as_array().and_then(|a| a.iter().map(Value::as_i64).collect());
                match a.as_deref() {
                    Some([0, c]) => ss.push(Step::Map(*c)),
                    Some([1, m, r]) if *m > 0 => ss.push(Step::Filter(*m, *r)),
                    Some([2, m, hc]) if (0..=1).contains(hc) => match mode_of(*m) {
                        Some(md) => ss.push(Step::Validate(md, *hc == 1)),
                        None => return json!(["invalid"]),
                    },
                    _ => return json!(["invalid"]),
                }
            }
            if !ss.iter().any(|s| matches!(s, Step::Validate(..))) {
                return json!(["invalid"]);
            }
            let coll = Arc::new(Mutex::new(ErrorCollector::new()));
            let res = catch_unwind(AssertUnwindSafe(|| {
                let p = Pipeline::default();
                let mut c = from_vec(&p, data);
                for s in &ss {
                    c = match *s {
                        Step::Map(k) => c.map_values(move |r: &Rec| Rec(r.0 + k)),
                        Step::Filter(m, r) => {
                            c.filter_values(move |x: &Rec| x.0.rem_euclid(m) != r)
                        }
                        Step::Validate(md, hc) if mutant::id() != 0 => {
                            c.apply_transform(Arc::new(mutant::ValidateValuesOp::<i64, Rec> {
                                mu: mutant::id(),
                                mode: md,
                                collector: if hc { Some(Arc::clone(&coll)) } else { None },
                                _phantom: std::marker::PhantomData,
                            }))
                        }
                        Step::Validate(md, hc) => c.validate_values_with_mode(
                            md,
                            if hc { Some(Arc::clone(&coll)) } else { None },
                        ),
                    };
                }
                collect_with(c, &exec)
            }));
            finish(res, &coll, |kv: &(i64, Rec)| json!([kv.0, kv.1.0]))
        }
        "combine" => {
            let Some(parts) = input.as_array() else { return json!(["invalid"]) };
            let mut rs: Vec<ValidationResult> = Vec::new();
            for p in parts {
                if p.is_null() {
                    rs.push(Ok(()));
                } else {
                    let codes: Option<Vec<i64>> =
                        p.as_array().and_then(|a| a.iter().map(Value::as_i64).collect());
                    match codes {
                        Some(cs) => rs.push(Err(cs.into_iter().map(mk_err).collect())),
                        None => return json!(["invalid"]),
                    }
                }
            }
            let combined = if mutant::id() != 0 {
                mutant::combine_validations(mutant::id(), rs)
            } else {
                combine_validations(rs)
            };
            match combined {
                Ok(()) => Value::Null,
                Err(es) => json!(es.iter().map(err_code).collect::<Vec<i64>>()),
            }
        }
        _ => json!(["invalid"]),
    }
}

// ------------------------------------------------------------------ sensitivity self-test
// `C17_SELFTEST_MUTANT=<n>` (never set by check.py) replaces the real operators by COPIES of
// src/helpers/validation.rs::{ValidateOp, ValidateValuesOp}::apply / combine_validations that
// carry one realistic defect each; `python3 check.py C17` must then exit 1. Unset = real code.
mod mutant {
    use super::{ErrorCollector, Validate, ValidationError, ValidationMode, ValidationResult};
    use ironbeam::{DynOp, Partition, RFBound};
    use std::marker::PhantomData;
    use std::sync::{Arc, Mutex};

    pub fn id() -> u32 {
        std::env::var("C17_SELFTEST_MUTANT").ok().and_then(|s| s.parse().ok()).unwrap_or(0)
    }

    /// the shared loop of both operators, with the defect selected by `mu`
    fn body<T, V: Validate>(
        mu: u32,
        mode: ValidationMode,
        collector: Option<&Arc<Mutex<ErrorCollector>>>,
        prefix: &str,
        elements: Vec<T>,
        value: impl Fn(&T) -> &V,
    ) -> Vec<T> {
        let mut valid = Vec::new();
        let n = elements.len();
        // mutant 16: the lock is taken ONCE per partition with lock().ok(); a fail-fast panic then
        // unwinds holding the guard and poisons the mutex, after which nothing is ever recorded
        let mut guard = if mu == 16 { collector.and_then(|c| c.lock().ok()) } else { None };
        for (idx, elem) in elements.into_iter().enumerate() {
            match value(&elem).validate() {
                Ok(()) => {
                    if mu == 9 {
                        valid.insert(0, elem); // output order reversed within a partition
                    } else {
                        valid.push(elem);
                    }
                }
                Err(errors) => {
                    if mu == 10 && errors.is_empty() {
                        valid.push(elem); // Err(vec![]) treated as valid
                        continue;
                    }
                    let mode = if mu == 2 && mode == ValidationMode::SkipInvalid {
                        ValidationMode::LogAndContinue // skip mode logs as well
                    } else {
                        mode
                    };
                    match mode {
                        ValidationMode::SkipInvalid => {}
                        ValidationMode::LogAndContinue if mu == 16 => {
                            if let Some(g) = guard.as_mut() {
                                g.add_error(Some(format!("{prefix}{idx}")), errors);
                            }
                        }
                        ValidationMode::LogAndContinue => {
                            if mu == 3 && idx + 1 == n {
                                continue; // the last record of a partition is never logged
                            }
                            if mu == 11 {
                                valid.push(elem); // logged but not dropped
                            }
                            if mu == 15
                                && collector.is_some_and(|c| c.lock().unwrap().error_count() >= 10_000)
                            {
                                continue; // "memory-safety cap": entries beyond 10 000 are dropped
                            }
                            if let Some(c) = collector {
                                let shown = if mu == 1 { idx + 1 } else { idx };
                                let errs: Vec<ValidationError> = if mu == 6 {
                                    errors.into_iter().take(1).collect() // payload truncated
                                } else {
                                    errors
                                };
                                c.lock().unwrap().add_error(Some(format!("{prefix}{shown}")), errs);
                                if mu == 7 && idx == 0 {
                                    // first record of a partition logged twice
                                    c.lock().unwrap().add_error(Some(format!("{prefix}0")), vec![]);
                                }
                            }
                        }
                        ValidationMode::FailFast => {
                            if mu == 4 && idx != 0 {
                                continue; // only the first record of a partition is fatal
                            }
                            panic!("Validation failed at record {idx}");
                        }
                    }
                }
            }
        }
        valid
    }

    pub struct ValidateOp<T: RFBound + Validate> {
        pub mu: u32,
        pub mode: ValidationMode,
        pub collector: Option<Arc<Mutex<ErrorCollector>>>,
        pub _phantom: PhantomData<T>,
    }
    impl<T: RFBound + Validate> DynOp for ValidateOp<T> {
        fn apply(&self, input: Partition) -> Partition {
            let elements = *input.downcast::<Vec<T>>().expect("ValidateOp: expected Vec<T>");
            Box::new(body(self.mu, self.mode, self.collector.as_ref(), "record_", elements, |e| e))
        }
    }

    pub struct ValidateValuesOp<K: RFBound, V: RFBound + Validate> {
        pub mu: u32,
        pub mode: ValidationMode,
        pub collector: Option<Arc<Mutex<ErrorCollector>>>,
        pub _phantom: PhantomData<(K, V)>,
    }
    impl<K: RFBound, V: RFBound + Validate> DynOp for ValidateValuesOp<K, V> {
        fn apply(&self, input: Partition) -> Partition {
            let pairs = *input
                .downcast::<Vec<(K, V)>>()
                .expect("ValidateValuesOp: expected Vec<(K, V)>");
            Box::new(body(self.mu, self.mode, self.collector.as_ref(), "pair_", pairs, |kv| &kv.1))
        }
        fn key_preserving(&self) -> bool {
            true
        }
        fn value_only(&self) -> bool {
            true
        }
        fn reorder_safe_with_value_only(&self) -> bool {
            self.mu == 5 // declared reorder-safe: the planner will move it
        }
    }

    pub fn combine_validations(mu: u32, results: Vec<ValidationResult>) -> ValidationResult {
        let mut all_errors = Vec::new();
        let mut failed = false;
        for result in results {
            if let Err(mut errors) = result {
                failed = true;
                if mu == 12 {
                    return Err(errors); // stops at the first failing part
                }
                if mu == 13 {
                    errors.append(&mut all_errors); // newest first
                    all_errors = errors;
                } else {
                    all_errors.append(&mut errors);
                }
            }
        }
        if mu == 14 {
            // the defect repaired by 2f7c47a: a failed part without errors counts as success
            return if all_errors.is_empty() { Ok(()) } else { Err(all_errors) };
        }
        if failed { Err(all_errors) } else { Ok(()) }
    }
}

// ------------------------------------------------------------------ generation

/// the chunk boundaries VecOps::split produces for `len` elements and a requested partition count
fn boundaries(len: usize, parts: usize) -> Vec<usize> {
    let n = parts.max(1).min(len.max(1));
    if n <= 1 || len <= 1 {
        return vec![];
    }
    let chunk = len.div_ceil(n);
    (1..).map(|k| k * chunk).take_while(|b| *b < len).collect()
}

fn rows_of(keyed: bool, bad: &[u8], base: i64) -> Value {
    // bad[i] = 0 valid | 1..3 that many errors | 4 invalid without errors (Err(vec![]))
    let rows: Vec<Value> = bad
        .iter()
        .enumerate()
        .map(|(i, b)| {
            let u = base + i as i64;
            let v = match *b {
                0 => 4 * u,
                4 => -1 - u,
                n => 4 * u + i64::from(n),
            };
            if keyed { json!([(7 * u) % 3, v]) } else { json!(v) }
        })
        .collect();
    Value::Array(rows)
}

fn emit_run(
    em: &mut Emitter,
    keyed: bool,
    m: i64,
    hc: bool,
    ex: i64,
    t: i64,
    n: i64,
    bad: &[u8],
    base: i64,
    tags: &[&str],
) {
    let some_bad = bad.iter().any(|b| *b != 0);
    let some_good = bad.iter().any(|b| *b == 0);
    let nt = some_bad && some_good && (ex == 0 || n >= 2);
    em.case(
        "run",
        json!([i64::from(keyed), m, i64::from(hc), ex, t, n, rows_of(keyed, bad, base)]),
        nt,
        tags,
    );
}

fn generate(seed: u64, tier: Tier, em: &mut Emitter) {
    let thorough = tier == Tier::Thorough;

    // 1. boundary sweeps: fixed patterns x every partition count 0..len+2 x 3 modes x keyed/unkeyed
    let lens: Vec<usize> =
        if thorough { (0..=24).collect() } else { vec![0, 1, 2, 3, 4, 5, 7, 8, 12] };
    for &len in &lens {
        let mut general: Vec<(Vec<u8>, &str)> = Vec::new();
        general.push((vec![0; len], "none"));
        general.push(((0..len).map(|i| 1 + (i % 3) as u8).collect(), "all"));
        if len >= 1 {
            let mut f = vec![0u8; len];
            f[0] = 2;
            general.push((f, "first"));
            let mut l = vec![0u8; len];
            l[len - 1] = 3;
            general.push((l, "last"));
        }
        if len >= 2 {
            general.push(((0..len).map(|i| if i % 2 == 0 { 1 } else { 0 }).collect(), "alt0"));
            general.push(((0..len).map(|i| if i % 2 == 1 { 2 } else { 0 }).collect(), "alt1"));
            // an invalid record without any error in the middle of valid ones
            let mut z = vec![0u8; len];
            z[len / 2] = 4;
            general.push((z, "empty-errors"));
        }
        for keyed in [false, true] {
            for m in 0..3i64 {
                for (pat, tag) in &general {
                    // sequential engine once per pattern, with and without a collector
                    emit_run(em, keyed, m, true, 0, 1, 0, pat, 0, &["sweep", tag, "seq"]);
                    emit_run(em, keyed, m, false, 0, 1, 0, pat, 0, &["sweep", tag, "seq"]);
                    for n in 0..=(len + 2) {
                        let hc = m == 1 || (n + len) % 2 == 0;
                        emit_run(em, keyed, m, hc, 1, 2, n as i64, pat, 0, &["sweep", tag, "par"]);
                    }
                }
                // runs of invalid records straddling each chunk boundary of this partition count
                for n in 2..=(len + 2) {
                    let bs = boundaries(len, n);
                    if bs.is_empty() {
                        continue;
                    }
                    let mut union2 = vec![0u8; len];
                    for &b in &bs {
                        let mut two = vec![0u8; len];
                        two[b - 1] = 1;
                        two[b] = 2;
                        union2[b - 1] = 3;
                        union2[b] = 1;
                        emit_run(em, keyed, m, true, 1, 3, n as i64, &two, 0, &["sweep", "straddle2"]);
                        let mut four = vec![0u8; len];
                        for i in b.saturating_sub(2)..(b + 2).min(len) {
                            four[i] = 1 + (i % 3) as u8;
                        }
                        emit_run(em, keyed, m, true, 1, 3, n as i64, &four, 0, &["sweep", "straddle4"]);
                        // valid records around the boundary, everything else invalid
                        let inv: Vec<u8> = four.iter().map(|x| if *x == 0 { 2 } else { 0 }).collect();
                        emit_run(em, keyed, m, true, 1, 3, n as i64, &inv, 0, &["sweep", "straddle-valid"]);
                    }
                    emit_run(em, keyed, m, true, 1, 3, n as i64, &union2, 0, &["sweep", "straddle-all"]);
                }
            }
        }
    }

    // 2. exhaustive: every valid/invalid bit pattern of length <= 8 x {seq, partitions 1..9} x 3 modes
    // (quick tier: keyed patterns up to length 6; thorough: unkeyed <= 10, keyed <= 9)
    let (max_unkeyed, max_keyed) = if thorough { (10, 9) } else { (8, 6) };
    for keyed in [false, true] {
        let maxlen = if keyed { max_keyed } else { max_unkeyed };
        for len in 0..=maxlen {
            for bits in 0..(1i64 << len) {
                let nt = len >= 2 && bits != 0 && bits != (1 << len) - 1;
                em.case("row", json!([i64::from(keyed), len, bits, 9]), nt, &["exhaustive"]);
            }
        }
    }

    // 2b. big runs: more than 10 000 invalid records reaching ONE collector, in one run or over
    // several runs that reuse it; only summaries are compared (see run_big)
    {
        let big = |em: &mut Emitter, keyed: bool, md: i64, hc: bool, ex: i64, parts: i64,
                       n: i64, m: i64, t: i64, k: i64, tag: &str| {
            em.case(
                "big",
                json!([i64::from(keyed), md, i64::from(hc), ex, 3, parts, n, m, t, k]),
                t < m && n >= 2,
                &["big", tag],
            );
        };
        let sizes: &[i64] = if thorough { &[10_001, 20_001, 100_003] } else { &[10_001, 20_001] };
        for keyed in [false, true] {
            for &n in sizes {
                // every record invalid
                big(em, keyed, 1, true, 0, 0, n, 1, 0, 1, "all-invalid");
                for parts in [1, 4, 16] {
                    big(em, keyed, 1, true, 1, parts, n, 1, 0, 1, "all-invalid");
                }
                // record i invalid iff i mod 3 != 0
                big(em, keyed, 1, true, 0, 0, n, 3, 1, 1, "mod3");
                for parts in [3, 8] {
                    big(em, keyed, 1, true, 1, parts, n, 3, 1, 1, "mod3");
                }
            }
            // exactly 10 000 invalid records, and one more
            big(em, keyed, 1, true, 1, 4, 10_000, 1, 0, 1, "boundary");
            big(em, keyed, 1, true, 1, 4, 15_000, 3, 1, 1, "boundary");
            big(em, keyed, 1, true, 1, 4, 15_002, 3, 1, 1, "boundary");
            // one collector reused by 3 runs of 4 000 invalid records each
            big(em, keyed, 1, true, 0, 0, 6_000, 3, 1, 3, "reuse");
            big(em, keyed, 1, true, 1, 4, 6_000, 3, 1, 3, "reuse");
            big(em, keyed, 1, true, 1, 5, 4_000, 1, 0, 3, "reuse");
            // the other modes at this size
            big(em, keyed, 0, true, 1, 4, 20_001, 3, 1, 1, "skip");
            big(em, keyed, 1, false, 1, 4, 20_001, 3, 1, 1, "log-no-collector");
            big(em, keyed, 2, true, 1, 4, 20_001, 1, 1, 1, "failfast-all-valid");
            big(em, keyed, 2, false, 1, 4, 20_001, 20_001, 20_000, 1, "failfast-last-invalid");
            if thorough {
                big(em, keyed, 1, true, 1, 7, 40_000, 4, 1, 3, "reuse");
            }
        }
    }

    // 2c. several runs sharing ONE collector (state that must survive a failed run): the collector
    // is read back after every step
    {
        // a step's records: 7 records from uid base, invalid at the positions of `bad`
        let step = |keyed: bool, md: i64, hc: i64, ex: i64, parts: i64, base: i64, bad: &[u8]| {
            json!([md, hc, ex, parts, rows_of(keyed, bad, base)])
        };
        let mixed: [u8; 7] = [0, 2, 0, 1, 3, 0, 1]; // 4 invalid records
        let valid: [u8; 7] = [0; 7];
        let other: [u8; 7] = [1, 0, 0, 4, 0, 2, 0]; // 3 invalid, one without errors
        for keyed in [false, true] {
            // (exec, partitions) of the 1st, 2nd, 3rd run
            for plan in [[(0, 0); 3], [(1, 3); 3], [(1, 2), (0, 0), (1, 7)], [(0, 0), (1, 4), (0, 0)]] {
                for same_rows in [false, true] {
                    let b = |j: i64| if same_rows { 0 } else { 100 * j };
                    let run = |j: usize, md: i64, hc: i64, bad: &[u8]| {
                        step(keyed, md, hc, plan[j % 3].0, plan[j % 3].1, b(j as i64), bad)
                    };
                    let seqs: Vec<(Vec<Value>, &str)> = vec![
                        (vec![run(0, 2, 1, &mixed), run(1, 1, 1, &mixed)], "failfast-panic,log"),
                        (vec![run(0, 1, 1, &other), run(1, 2, 1, &mixed), run(2, 1, 1, &mixed)],
                         "log,failfast-panic,log"),
                        (vec![run(0, 0, 1, &mixed), run(1, 1, 1, &mixed)], "skip,log"),
                        (vec![run(0, 2, 1, &valid), run(1, 1, 1, &mixed)], "failfast-ok,log"),
                        (vec![run(0, 1, 1, &mixed), run(1, 1, 1, &other)], "log,log"),
                        (vec![run(0, 1, 1, &mixed), json!([9]), run(1, 1, 1, &other)], "log,clear,log"),
                        (vec![run(0, 2, 1, &mixed), json!([9]), run(1, 1, 1, &mixed)],
                         "failfast-panic,clear,log"),
                        (vec![run(0, 1, 0, &mixed), run(1, 2, 0, &mixed), run(2, 1, 1, &other)],
                         "log-nocollector,failfast-nocollector,log"),
                        (vec![run(0, 2, 1, &mixed), run(1, 2, 1, &other), run(2, 1, 1, &mixed),
                              run(3, 0, 1, &other), run(4, 1, 1, &other)],
                         "failfast,failfast,log,skip,log"),
                    ];
                    for (steps, tag) in seqs {
                        em.case("multi", json!([i64::from(keyed), 2, steps]), true, &["multi", tag]);
                    }
                }
            }
        }
    }

    // 3. combine_validations: every list of <= 4 parts over {Ok, Err[], Err[1], Err[2,3]}
    let alphabet = [json!(null), json!([]), json!([1]), json!([2, 3])];
    let mut level: Vec<Vec<Value>> = vec![vec![]];
    let maxparts = if thorough { 5 } else { 4 };
    for _ in 0..=maxparts {
        for l in &level {
            let errs = l.iter().filter(|p| !p.is_null()).count();
            em.case("combine", Value::Array(l.clone()), l.len() >= 2 && errs >= 1, &["exhaustive"]);
        }
        let mut next = Vec::new();
        for l in &level {
            for a in &alphabet {
                let mut t = l.clone();
                t.push(a.clone());
                next.push(t);
            }
        }
        level = next;
    }

    // 4. pipelines: validate_values among map_values / filter_values. Every block contains a
    // validation step (a block of only map_values/filter_values is reordered unsoundly by the
    // planner: finding C02-reorder, not this property).
    let alpha: Vec<Value> = vec![
        json!([0, 1]),
        json!([0, 3]),
        json!([1, 2, 0]),
        json!([1, 3, 1]),
        json!([2, 0, 1]),
        json!([2, 1, 1]),
        json!([2, 2, 0]),
    ];
    let pipe_rows: Vec<Value> = (0..11i64).map(|i| json!([i % 3, 3 * i + (i * i) % 5])).collect();
    let mut seqs: Vec<Vec<Value>> = alpha.iter().map(|a| vec![a.clone()]).collect();
    let maxsteps = if thorough { 4 } else { 3 };
    for depth in 1..=maxsteps {
        for s in &seqs {
            if !s.iter().any(|x| x[0] == json!(2)) {
                continue;
            }
            let nt = depth >= 2;
            em.case("pipe", json!([0, 1, 0, pipe_rows, s]), nt, &["pipe", "systematic", "seq"]);
            em.case("pipe", json!([1, 2, 3, pipe_rows, s]), nt, &["pipe", "systematic", "par"]);
        }
        if depth < maxsteps {
            let mut next = Vec::new();
            for s in &seqs {
                for a in &alpha {
                    let mut t = s.clone();
                    t.push(a.clone());
                    next.push(t);
                }
            }
            seqs = next;
        }
    }

    // 4b. trees: branching (one collection feeding several validation steps) and every builder
    // among the other element-wise builders
    gen_trees(seed, thorough, em);

    // 4c. the other ways to collect (collect(), collect_par with None arguments), extreme
    // partition / thread counts, the collector read through every public view, long
    // combine_validations lists, long sequences of runs on one collector, every power of two
    gen_more(seed, thorough, em);

    // 5. seeded random
    let mut rng = SplitMix64::new(seed ^ 0xC17);
    let n_run = if thorough { 20000 } else { 1500 };
    for _ in 0..n_run {
        let len = if rng.chance(1, 8) { rng.below(120) } else { rng.below(33) } as usize;
        let density = *rng.pick(&[1u64, 5, 9]);
        let empties = rng.chance(1, 6);
        let bad: Vec<u8> = (0..len)
            .map(|_| {
                if rng.below(10) < density {
                    if empties && rng.chance(1, 4) { 4 } else { 1 + rng.below(3) as u8 }
                } else {
                    0
                }
            })
            .collect();
        let keyed = rng.chance(1, 2);
        let m = rng.below(3) as i64;
        let hc = rng.chance(3, 4);
        let ex = i64::from(rng.chance(3, 4));
        let n = rng.below(len as u64 + 3) as i64;
        let t = rng.range(1, 4);
        if rng.chance(1, 5) && len > 0 {
            // duplicated records: identical payloads in several entries (multiset, not set)
            let some_bad = bad.iter().any(|b| *b != 0);
            let rows: Vec<Value> = bad
                .iter()
                .map(|b| {
                    let v = match *b {
                        0 => 8,
                        4 => -1,
                        k => 4 * (k as i64 % 2) + i64::from(k),
                    };
                    if keyed { json!([rng.range(0, 2), v]) } else { json!(v) }
                })
                .collect();
            em.case(
                "run",
                json!([i64::from(keyed), m, i64::from(hc), ex, t, n, rows]),
                some_bad && len >= 2,
                &["random", "duplicates"],
            );
        } else {
            let base = rng.range(0, 1000);
            emit_run(em, keyed, m, hc, ex, t, n, &bad, base, &["random"]);
        }
    }
    let n_pipe = if thorough { 6000 } else { 600 };
    for _ in 0..n_pipe {
        let len = rng.below(25) as usize;
        let rows: Vec<Value> = (0..len).map(|_| json!([rng.range(0, 3), rng.range(-2, 60)])).collect();
        let nsteps = rng.range(1, 6) as usize;
        let vpos = rng.below(nsteps as u64) as usize;
        let steps: Vec<Value> = (0..nsteps)
            .map(|i| {
                let k = if i == vpos { 2 } else { rng.below(3) };
                match k {
                    0 => json!([0, rng.range(0, 5)]),
                    1 => {
                        let md = rng.range(2, 4);
                        json!([1, md, rng.range(0, md - 1)])
                    }
                    _ => {
                        // fail-fast less often, otherwise most random pipes just panic
                        let md = if rng.chance(1, 6) { 2 } else { rng.range(0, 1) };
                        json!([2, md, i64::from(rng.chance(3, 4))])
                    }
                }
            })
            .collect();
        let ex = i64::from(rng.chance(2, 3));
        let n = rng.below(len as u64 + 3) as i64;
        em.case(
            "pipe",
            json!([ex, rng.range(1, 4), n, rows, steps]),
            nsteps >= 2 && len >= 2,
            &["pipe", "random"],
        );
    }
    // random sequences of 2..5 steps on one collector
    let n_multi = if thorough { 4000 } else { 300 };
    for _ in 0..n_multi {
        let keyed = rng.chance(1, 2);
        let nsteps = rng.range(2, 5);
        let mut runs = 0;
        let steps: Vec<Value> = (0..nsteps)
            .map(|j| {
                if j > 0 && rng.chance(1, 8) {
                    return json!([9]);
                }
                runs += 1;
                let len = rng.below(10) as usize;
                let density = *rng.pick(&[0u64, 3, 7]);
                let bad: Vec<u8> = (0..len)
                    .map(|_| if rng.below(10) < density { 1 + rng.below(4) as u8 } else { 0 })
                    .collect();
                let md = *rng.pick(&[1i64, 1, 2, 2, 0]);
                let hc = i64::from(rng.chance(5, 6));
                let ex = i64::from(rng.chance(1, 2));
                let base = if rng.chance(1, 4) { 0 } else { 50 * j };
                json!([md, hc, ex, rng.below(len as u64 + 3) as i64, rows_of(keyed, &bad, base)])
            })
            .collect();
        em.case("multi", json!([i64::from(keyed), rng.range(1, 4), steps]), runs >= 2, &["multi", "random"]);
    }
    let n_comb = if thorough { 3000 } else { 300 };
    for _ in 0..n_comb {
        let len = rng.below(9) as usize;
        let parts: Vec<Value> = (0..len)
            .map(|i| {
                if rng.chance(1, 2) {
                    json!(null)
                } else {
                    let k = rng.below(4) as i64;
                    json!((0..k).map(|j| 10 * i as i64 + j).collect::<Vec<i64>>())
                }
            })
            .collect();
        let errs = parts.iter().filter(|p| !p.is_null()).count();
        em.case("combine", Value::Array(parts), len >= 2 && errs >= 1, &["random"]);
    }
}

// ------------------------------------------------------------------ tree generation
/// does the planner's reorder pass change the order of this lineage? Only a block made solely of
/// reorder-safe value-only operators (map_values cost 3, filter_values cost 1, map_values_batches
/// cost 2, i.e. steps 0/1/7 on a keyed source) is sorted; such lineages are finding C02-reorder's
/// subject and are never collected here.
fn lineage_reorders(keyed0: bool, lin: &[Vec<i64>]) -> bool {
    if !keyed0 || lin.len() < 2 {
        return false;
    }
    let mut keys = Vec::new();
    for s in lin {
        match s[0] {
            0 => keys.push((1, 3)),
            1 => keys.push((0, 1)),
            7 => keys.push((1, 2)),
            _ => return false,
        }
    }
    keys.windows(2).any(|w| w[0] > w[1])
}

/// incremental construction of a "tree" script with the bookkeeping the generator needs
struct TreeGen {
    keyed0: bool,
    shapes: Vec<bool>,
    lins: Vec<Vec<Vec<i64>>>,
    script: Vec<Value>,
    builds: usize,
    validated_collects: usize,
}
impl TreeGen {
    fn new(keyed0: bool) -> Self {
        TreeGen { keyed0, shapes: vec![keyed0], lins: vec![vec![]], script: vec![], builds: 0, validated_collects: 0 }
    }
    /// a builder call; None when the step does not exist on the parent's static type
    fn build(&mut self, parent: usize, step: &[i64]) -> Option<usize> {
        let keyed = *self.shapes.get(parent)?;
        let out = match (keyed, step[0]) {
            (false, 0..=4) => false,
            (false, 5) => true,
            (true, 0..=3 | 7) => true,
            (true, 6) => false,
            _ => return None,
        };
        self.shapes.push(out);
        let mut lin = self.lins[parent].clone();
        lin.push(step.to_vec());
        self.lins.push(lin);
        self.script.push(json!([0, parent, step]));
        self.builds += 1;
        Some(self.shapes.len() - 1)
    }
    /// a collect; refused (false) for lineages the planner reorders
    fn collect(&mut self, h: usize, ex: i64, parts: i64) -> bool {
        if h >= self.lins.len() || lineage_reorders(self.keyed0, &self.lins[h]) {
            return false;
        }
        if self.lins[h].iter().any(|s| (2..=4).contains(&s[0])) {
            self.validated_collects += 1;
        }
        self.script.push(json!([1, h, ex, parts]));
        true
    }
    fn emit(self, em: &mut Emitter, threads: i64, rows: Value, tags: &[&str]) {
        let nt = self.validated_collects >= 1 && self.builds >= 2;
        em.case("tree", json!([i64::from(self.keyed0), threads, rows, self.script]), nt, tags);
    }
}

/// rows for the small tree cases: values whose validity changes under +1 / +3 (v mod 4), one
/// negative (invalid without errors)
fn tree_rows(keyed: bool, n: i64) -> Value {
    Value::Array(
        (0..n)
            .map(|i| {
                let v = if i == 5 { -3 } else { 3 * i + (i * i) % 5 };
                if keyed { json!([i % 3, v]) } else { json!(v) }
            })
            .collect(),
    )
}

fn gen_trees(seed: u64, thorough: bool, em: &mut Emitter) {
    // the validation builders: with_mode x (skip, log c0, log c1, log no collector, fail-fast,
    // fail-fast with collector), the skip wrapper, the fail-fast wrapper (unkeyed only)
    let builders_u: Vec<Vec<i64>> = vec![
        vec![2, 0, -1], vec![2, 1, 0], vec![2, 1, 1], vec![2, 1, -1], vec![2, 2, -1], vec![2, 2, 0],
        vec![3], vec![4],
    ];
    let builders_k: Vec<Vec<i64>> = builders_u[..7].to_vec();

    // T1. siblings: ONE parent feeding two validation steps; the parent is the source or a
    // stateless step behind it; collected after / before / between the builder calls
    for keyed0 in [false, true] {
        let prefixes: Vec<Vec<Vec<i64>>> = if keyed0 {
            vec![vec![], vec![vec![0, 2]], vec![vec![1, 4, 3], vec![0, 1]], vec![vec![7, 2, 1]], vec![vec![6]]]
        } else {
            vec![vec![], vec![vec![0, 1]], vec![vec![0, 2], vec![1, 3, 1]], vec![vec![5, 3]]]
        };
        for (pi, prefix) in prefixes.iter().enumerate() {
            // static type of the parent
            let parent_keyed = prefix.iter().fold(keyed0, |k, s| match s[0] { 5 => true, 6 => false, _ => k });
            let bs = if parent_keyed { &builders_k } else { &builders_u };
            for (i, a) in bs.iter().enumerate() {
                for (j, b) in bs.iter().enumerate() {
                    for variant in 0..2 {
                        // quick tier: one of the two scripts per ordered pair
                        if !thorough && variant != (j % 2) ^ ((i / 2) % 2) {
                            continue;
                        }
                        let par = (i + j + variant + pi) % 2 == 1;
                        let (ex, parts) = if par { (1, 3) } else { (0, 0) };
                        let mut t = TreeGen::new(keyed0);
                        let mut parent = 0;
                        for s in prefix {
                            parent = t.build(parent, s).unwrap();
                        }
                        if variant == 0 {
                            // build both, collect both, the parent, the first one again
                            let ha = t.build(parent, a).unwrap();
                            let hb = t.build(parent, b).unwrap();
                            t.collect(ha, ex, parts);
                            t.collect(hb, ex, parts);
                            t.collect(parent, ex, parts);
                            t.collect(ha, 1 - ex, 2);
                        } else {
                            // the parent first, then each child as soon as it is built
                            t.collect(parent, ex, parts);
                            let ha = t.build(parent, a).unwrap();
                            t.collect(ha, ex, parts);
                            let hb = t.build(parent, b).unwrap();
                            t.collect(hb, ex, parts);
                            t.collect(ha, ex, parts);
                            t.collect(parent, 1 - ex, 4);
                        }
                        t.emit(em, 2, tree_rows(keyed0, 9), &["tree", "siblings"]);
                    }
                }
            }
        }
    }

    // T2. fan-out and depth: f validation children on one stateless parent (f = 2..17, 32, 64),
    // and a parent behind d map steps (d = 1..20, 32, 64)
    let mut fans: Vec<usize> = (2..=17).collect();
    fans.extend([32, 64]);
    for keyed0 in [false, true] {
        let bs = if keyed0 { &builders_k } else { &builders_u };
        for &f in &fans {
            let mut t = TreeGen::new(keyed0);
            let parent = t.build(0, &[0, 1]).unwrap();
            let kids: Vec<usize> = (0..f).map(|i| t.build(parent, &bs[(i * 3 + 1) % bs.len()]).unwrap()).collect();
            for &h in [kids[0], kids[f / 2], kids[f - 1]].iter() {
                t.collect(h, (f % 2) as i64, 3);
            }
            t.collect(parent, 0, 0);
            t.emit(em, 2, tree_rows(keyed0, 10), &["tree", "fan-out"]);
        }
        let mut depths: Vec<usize> = (1..=20).collect();
        depths.extend([32, 64]);
        for &d in &depths {
            let mut t = TreeGen::new(keyed0);
            let mut parent = 0;
            for i in 0..d {
                // +1 and +3 alternate: the validity of a record keeps changing along the chain
                parent = t.build(parent, &[0, if i % 2 == 0 { 1 } else { 3 }]).unwrap();
            }
            let a = t.build(parent, &[2, 1, 0]).unwrap();
            let b = t.build(parent, &[3]).unwrap();
            let c = t.build(parent, &[2, 1, 1]).unwrap();
            t.collect(a, (d % 2) as i64, 4);
            t.collect(b, 1 - (d % 2) as i64, 4);
            t.collect(c, 0, 0);
            t.collect(parent, 0, 0);
            t.emit(em, 2, tree_rows(keyed0, 10), &["tree", "depth"]);
        }
    }

    // T3. chains: every sequence of <= 3 steps that contains a validation builder, over 9 step
    // shapes per static type (the wrappers and the general entry points after / between / before
    // map, filter, map_values, filter_values, map_values_batches); the last handle is collected,
    // then the first one (whose lineage is a prefix of the last one's)
    for keyed0 in [false, true] {
        let alpha: Vec<Vec<i64>> = if keyed0 {
            vec![vec![0, 1], vec![0, 3], vec![1, 2, 0], vec![1, 3, 1], vec![7, 2, 2],
                 vec![3], vec![2, 0, -1], vec![2, 1, 0], vec![2, 2, -1]]
        } else {
            vec![vec![0, 1], vec![0, 3], vec![1, 2, 0], vec![1, 3, 1],
                 vec![3], vec![4], vec![2, 0, -1], vec![2, 1, 0], vec![2, 2, 0]]
        };
        let maxd = if thorough { 4 } else { 3 };
        let mut seqs: Vec<Vec<Vec<i64>>> = vec![vec![]];
        for depth in 1..=maxd {
            let mut next = Vec::new();
            for s in &seqs {
                for a in &alpha {
                    let mut t = s.clone();
                    t.push(a.clone());
                    next.push(t);
                }
            }
            seqs = next;
            for (idx, s) in seqs.iter().enumerate() {
                if !s.iter().any(|x| (2..=4).contains(&x[0])) {
                    continue;
                }
                let execs: &[(i64, i64)] = if depth < 3 { &[(0, 0), (1, 3)] } else if idx % 2 == 0 { &[(0, 0)] } else { &[(1, 3)] };
                for &(ex, parts) in execs {
                    let mut t = TreeGen::new(keyed0);
                    let mut h = 0;
                    let mut first = 0;
                    for (i, st) in s.iter().enumerate() {
                        h = t.build(h, st).unwrap();
                        if i == 0 {
                            first = h;
                        }
                    }
                    t.collect(h, ex, parts);
                    if depth >= 2 {
                        t.collect(first, ex, parts);
                    }
                    t.emit(em, 2, tree_rows(keyed0, 11), &["tree", "chain"]);
                }
            }
        }
    }

    // T4. sizes: two log-mode siblings, the skip wrapper and a fail-fast sibling on a stateless
    // parent, n records (every power of two and its neighbours), 1..16 partitions
    let mut sizes: Vec<i64> = Vec::new();
    for p in [16i64, 32, 64, 128] {
        sizes.extend([p - 1, p, p + 1]);
    }
    sizes.extend([20, 256, 1024]);
    if thorough {
        sizes.extend([255, 257, 511, 512, 513, 1023, 1025, 2047, 2048, 4096, 4097]);
    }
    for (i, &n) in sizes.iter().enumerate() {
        for keyed0 in [false, true] {
            if n > 200 && !thorough && keyed0 != (n == 256) {
                continue; // the explicit observations of big trees are expensive to parse in Coq
            }
            let mut t = TreeGen::new(keyed0);
            // +4 keeps v mod 4: the parent's records are invalid where the source's are
            let parent = t.build(0, &[0, 4]).unwrap();
            let a = t.build(parent, &[2, 1, 0]).unwrap();
            let b = t.build(parent, &[2, 1, 1]).unwrap();
            let c = t.build(parent, &[3]).unwrap();
            let d = t.build(parent, &[2, 2, 2]).unwrap();
            let parts = [1i64, 2, 3, 4, 7, 8, 16][i % 7];
            t.collect(a, 1, parts);
            t.collect(b, 0, 0);
            t.collect(c, 1, parts + 1);
            t.collect(d, 1, parts);
            t.collect(a, 0, 0);
            t.emit(em, 3, json!(["r", n, 3, 2]), &["tree", "size"]);
        }
    }

    // T5. seeded random trees
    let mut rng = SplitMix64::new(seed ^ 0xC17_7EE);
    let n_tree = if thorough { 6000 } else { 500 };
    for _ in 0..n_tree {
        let keyed0 = rng.chance(1, 2);
        let len = if rng.chance(1, 8) { rng.below(100) } else { rng.below(25) } as usize;
        let rows: Vec<Value> = (0..len)
            .map(|_| {
                let v = rng.range(-2, 60);
                if keyed0 { json!([rng.range(0, 3), v]) } else { json!(v) }
            })
            .collect();
        let nops = rng.range(3, 10);
        let mut t = TreeGen::new(keyed0);
        let mut hub = 0usize;
        for _ in 0..nops {
            if t.builds < 2 || rng.chance(3, 5) {
                // a builder call: on the hub (so that it gets several children), or anywhere
                let parent = if rng.chance(1, 2) { hub } else { rng.below(t.shapes.len() as u64) as usize };
                let keyed = t.shapes[parent];
                let step: Vec<i64> = match rng.below(10) {
                    0 | 1 => vec![0, rng.range(0, 5)],
                    2 => {
                        let m = rng.range(2, 4);
                        vec![1, m, rng.range(0, m - 1)]
                    }
                    3 => {
                        if keyed {
                            if rng.chance(1, 2) { vec![6] } else { vec![7, rng.range(0, 4), rng.range(0, 3)] }
                        } else {
                            vec![5, rng.range(1, 4)]
                        }
                    }
                    4 => vec![3],
                    5 => if keyed { vec![3] } else { vec![4] },
                    _ => {
                        let md = if rng.chance(1, 6) { 2 } else { rng.range(0, 1) };
                        vec![2, md, rng.range(-1, 2)]
                    }
                };
                if let Some(h) = t.build(parent, &step) {
                    if rng.chance(1, 3) {
                        hub = h;
                    }
                }
            } else {
                let h = rng.below(t.shapes.len() as u64) as usize;
                let ex = i64::from(rng.chance(1, 2));
                t.collect(h, ex, rng.below(len as u64 + 3) as i64);
            }
        }
        // always end with a collect of the hub and of the last handle
        t.collect(hub, i64::from(rng.chance(1, 2)), 3);
        let last = t.shapes.len() - 1;
        t.collect(last, i64::from(rng.chance(1, 2)), 2);
        t.emit(em, rng.range(1, 4), Value::Array(rows), &["tree", "random"]);
    }
}

fn gen_more(seed: u64, thorough: bool, em: &mut Emitter) {
    let pats = |len: usize| -> Vec<(Vec<u8>, &'static str)> {
        vec![
            ((0..len).map(|i| if i % 3 == 1 { 2 } else { 0 }).collect(), "third"),
            ((0..len).map(|i| if i % 2 == 0 { 1 + (i % 3) as u8 } else { 0 }).collect(), "alt"),
            ((0..len).map(|i| if i + 2 >= len { 3 } else { 0 }).collect(), "tail"),
            ((0..len).map(|i| if i == len / 2 { 4 } else { 1 }).collect(), "all+empty"),
        ]
    };
    // every collect entry point x mode x keyed, and extreme partition / thread counts
    for len in [5usize, 8, 12, 33] {
        for (pat, tag) in pats(len) {
            for keyed in [false, true] {
                for m in 0..3i64 {
                    for ex in [2i64, 3, 4, 5] {
                        emit_run(em, keyed, m, true, ex, 2, 3, &pat, 0, &["entry-points", tag]);
                    }
                    emit_run(em, keyed, m, m != 0, 3, 1, 0, &pat, 7, &["entry-points", tag]);
                    for (t, n) in [(1i64, 2 * len as i64), (8, 64), (32, 1000), (3, 65_536), (64, 5)] {
                        emit_run(em, keyed, m, true, 1, t, n, &pat, 0, &["extreme-config", tag]);
                    }
                }
            }
        }
    }
    // the collector through to_json / write_to_file / clone / Display
    for len in [0usize, 1, 2, 5, 9, 16, 40] {
        for (pat, tag) in pats(len) {
            for keyed in [false, true] {
                for (ex, t, n) in [(0i64, 1i64, 0i64), (1, 2, 3), (2, 2, 0)] {
                    let nt = pat.iter().any(|b| *b != 0) && pat.iter().any(|b| *b == 0);
                    em.case(
                        "views",
                        json!([i64::from(keyed), ex, t, n, rows_of(keyed, &pat, 0)]),
                        nt,
                        &["views", tag],
                    );
                }
            }
        }
    }
    // combine_validations: long lists (every length 5..40, powers of two up to 4096 and their
    // neighbours), a part with a long error list, all-Ok lists
    let mut lens: Vec<usize> = (5..=40).collect();
    for p in [64usize, 128, 256, 512, 1024, 4096] {
        lens.extend([p - 1, p, p + 1]);
    }
    lens.extend([100, 1000]);
    for &len in &lens {
        for variant in 0..4 {
            let parts: Vec<Value> = (0..len)
                .map(|i| match variant {
                    0 => json!(null),                                         // all Ok
                    1 => if i + 1 == len { json!([7 * i as i64]) } else { json!(null) }, // last fails
                    2 => match i % 3 {                                        // mixed, some empty
                        0 => json!(null),
                        1 => json!([]),
                        _ => json!([2 * i as i64, 2 * i as i64 + 1]),
                    },
                    _ => json!([i as i64]),                                   // all fail
                })
                .collect();
            if len > 200 && variant != 2 && !(variant == 1 && len % 2 == 0) {
                continue;
            }
            em.case("combine", Value::Array(parts), variant != 0, &["combine", "long"]);
        }
    }
    em.case(
        "combine",
        json!([null, (0..1000).collect::<Vec<i64>>(), [], (5000..5300).collect::<Vec<i64>>()]),
        true,
        &["combine", "long-part"],
    );
    // long sequences of runs on one collector: k = 6..40 log runs of 3 records, a fail-fast run
    // and a clear in the middle
    for keyed in [false, true] {
        for k in [6usize, 8, 9, 16, 17, 32, 33, 40] {
            let steps: Vec<Value> = (0..k)
                .map(|j| {
                    if j == k / 2 {
                        json!([2, 1, j as i64 % 2, 2, rows_of(keyed, &[0, 1, 0], 10 * j as i64)])
                    } else if j == k / 2 + 1 && k % 2 == 0 {
                        json!([9])
                    } else {
                        json!([1, 1, j as i64 % 2, 2, rows_of(keyed, &[1, 0, 2], 10 * j as i64)])
                    }
                })
                .collect();
            em.case("multi", json!([i64::from(keyed), 2, steps]), true, &["multi", "long"]);
        }
    }
    // the views at sizes nobody reads by hand: summaries only
    for keyed in [false, true] {
        for (n, m, t, parts) in [(64i64, 1i64, 0i64, 3i64), (999, 3, 1, 4), (1000, 1, 0, 4), (1001, 1, 0, 1),
                                 (1024, 2, 1, 8), (4096, 1, 0, 16), (10_001, 1, 0, 4), (15_002, 3, 1, 7)] {
            em.case("viewsbig", json!([i64::from(keyed), n, m, t, parts]), true, &["views", "big"]);
        }
        if thorough {
            em.case("viewsbig", json!([i64::from(keyed), 65_537, 1, 0, 16]), true, &["views", "big"]);
            em.case("viewsbig", json!([i64::from(keyed), 100_003, 3, 1, 5]), true, &["views", "big"]);
        }
    }
    // every power of two (and its neighbours) through one operator, all modes: summaries only
    let mut rng = SplitMix64::new(seed ^ 0xC17_B16);
    let mut sizes: Vec<i64> = Vec::new();
    for p in [16i64, 32, 64, 128, 256, 512, 1024, 2048, 4096] {
        sizes.extend([p - 1, p, p + 1]);
    }
    sizes.push(20);
    let plist = [1i64, 2, 3, 4, 7, 8, 16, 64];
    for (i, &n) in sizes.iter().enumerate() {
        for keyed in [false, true] {
            let parts = plist[(i + usize::from(keyed)) % plist.len()];
            let ex = [1i64, 2, 5, 4][i % 4];
            let mk = |md: i64, hc: bool, ex: i64, parts: i64, m: i64, t: i64, k: i64| {
                json!([i64::from(keyed), md, i64::from(hc), ex, 3, parts, n, m, t, k])
            };
            em.case("big", mk(1, true, ex, parts, 3, 1, 1), true, &["big", "pow2", "log"]);
            em.case("big", mk(1, true, 0, 0, 2, 1, 2), true, &["big", "pow2", "log-seq-reuse"]);
            let md = if i % 2 == 0 { 0 } else { 2 };
            // fail-fast: all valid (completes) on odd i, skip: mixed on even i
            let (m, t) = if md == 2 { (1, 1) } else { (3, 1) };
            em.case("big", mk(md, i % 3 == 0, ex, parts, m, t, 1), md == 0, &["big", "pow2", "other"]);
            if rng.chance(1, 4) {
                // fail-fast where exactly the records behind a random position are invalid
                let pos = rng.range(0, n - 1);
                em.case("big", mk(2, true, ex, parts, n, pos + 1, 1), pos + 1 < n, &["big", "pow2", "ff-tail"]);
            }
        }
    }
    if thorough {
        for keyed in [false, true] {
            em.case(
                "big",
                json!([i64::from(keyed), 1, 1, 1, 3, 16, 65_536, 3, 1, 1]),
                true,
                &["big", "pow2", "65536"],
            );
        }
    }
}

fn main() {
    drive(&generate, &run);
}
