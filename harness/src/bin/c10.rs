//! C10: compression is transparent and format detection is sound.
//! Runs the REAL ironbeam writers / readers on real files under /verif/run/C10/ (removed at the
//! end) and on the in-memory `FakeObjectIO` for the cloud entry points.
//!
//! kinds
//!   "rt"  in  = [w, r, name, records, shards]
//!         out = [tag, sig(stored), stored == same writer's output under a neutral name,
//!                first 16 stored bytes, first 16 bytes of the neutral output, read outcome]
//!               | ["werr"]
//!   "raw" in  = [r, name, origin, hdr, expect_verbatim, expect_decoded]
//!               origin = ["lit", {"bytes": content}] | ["enc", w, encname, records, shards]
//!               (enc: written by the real writer `w` to `encname`, bytes copied to `name`)
//!         out = [tag, first 16 bytes of the file, read outcome, reference plain parse]
//!   (tag = the read outcome's tag again, first so that the evidence histogram shows it)
//!   "proc" in = [steps], run in a FRESHLY SPAWNED child process (the codec registry is
//!         process-wide state): step = ["reg", k, [ext..], magic|null, key] (register_codec of a
//!         custom codec: writes its magic, then every byte XOR key; its reader checks the magic)
//!         | ["rt", w, r, name, records, shards] | ["raw", r, name, origin, hdr]
//!         out = ["proc", [step output..]] | ["abort"]
//!   "big" in  = [gen, [[w, r, written name, read name, shards], ...]]   (the SIZE dimension)
//!         gen = [mode, n, klen, seed, k0len]: payload by generator parameters (see `Gen`)
//!         out = ["big", [[tag, sig(stored), stored len, plain len, stored == plain,
//!                         first 16 stored bytes, first 16 plain bytes, digest outcome], ...]]
//!   "rewrite" in = [w, r, name, genA, genB, shards]: A then B written to the same name
//!         out = [tag, sig(stored after B), len after A, len after B, len of B in a fresh store,
//!                stored after B == fresh, first 16 bytes after B, digest outcome]
//!   digest outcome = ["ok", record count, 61-bit digest] | ["err"] | ["panic"]
//!   read outcome = ["ok", records] | ["err"] | ["panic"];  records = [[k, v], ...]
//! Entry-point numbering = constructor order of writer_ep / reader_ep in IO/Compression.v.
use ibv::{Emitter, SplitMix64, Tier, drive};
use ironbeam::io::cloud::readers::{
    read_cloud_jsonl_glob, read_cloud_jsonl_vec, write_cloud_jsonl_vec,
};
use ironbeam::io::cloud::{FakeObjectIO, ObjectIO};
use ironbeam::io::compression::{CompressionCodec, register_codec};
use std::io::{Read, Write};
use ironbeam::io::csv::{build_csv_shards, read_csv_range};
use ironbeam::io::jsonl::build_jsonl_shards;
use ironbeam::{
    Pipeline, from_vec, read_csv, read_csv_streaming, read_csv_vec, read_jsonl, read_jsonl_range,
    read_jsonl_streaming, read_jsonl_vec, read_parquet_vec, write_csv, write_csv_par,
    write_csv_vec, write_jsonl_par, write_jsonl_vec, write_parquet_vec,
};
use serde::{Deserialize, Serialize};
use serde_json::{Value, json};
use std::panic::{AssertUnwindSafe, catch_unwind};
use std::path::{Path, PathBuf};
use std::sync::atomic::{AtomicU64, Ordering};

#[derive(Serialize, Deserialize, Clone, PartialEq, Debug)]
struct Rec {
    k: String,
    v: i64,
}
type Row = (String, i64);

// ---------- entry points ----------
const W_JSONL_VEC: i64 = 0;
const W_JSONL_PAR: i64 = 1;
const W_PC_JSONL: i64 = 2;
const W_PC_JSONL_PAR: i64 = 3;
const W_CSV_VEC: i64 = 4;
const W_CSV: i64 = 5;
const W_CSV_PAR: i64 = 6;
const W_PC_CSV: i64 = 7;
const W_PC_CSV_PAR: i64 = 8;
const W_CLOUD_JSONL: i64 = 9;
const W_PARQUET_VEC: i64 = 10;

const R_JSONL_VEC: i64 = 0;
const R_JSONL_RANGE: i64 = 1;
const R_PC_JSONL: i64 = 2;
const R_PC_JSONL_GLOB: i64 = 3;
const R_JSONL_STREAM_SEQ: i64 = 4;
const R_JSONL_STREAM_PAR: i64 = 5;
const R_CSV_VEC: i64 = 6;
const R_CSV_RANGE: i64 = 7;
const R_PC_CSV: i64 = 8;
const R_PC_CSV_GLOB: i64 = 9;
const R_CSV_STREAM_SEQ: i64 = 10;
const R_CSV_STREAM_PAR: i64 = 11;
const R_CLOUD_JSONL: i64 = 12;
const R_CLOUD_JSONL_GLOB: i64 = 13;
const R_PARQUET_VEC: i64 = 14;

#[derive(Clone, Copy, PartialEq, Eq, Debug)]
enum Fmt {
    Jsonl,
    Csv,
    Cloud,
    Parquet,
}
fn wfmt(w: i64) -> Fmt {
    match w {
        0..=3 => Fmt::Jsonl,
        4..=8 => Fmt::Csv,
        9 => Fmt::Cloud,
        _ => Fmt::Parquet,
    }
}
fn rfmt(r: i64) -> Fmt {
    match r {
        0..=5 => Fmt::Jsonl,
        6..=11 => Fmt::Csv,
        12 | 13 => Fmt::Cloud,
        _ => Fmt::Parquet,
    }
}
const WRITERS: [i64; 11] = [0, 1, 2, 3, 4, 5, 6, 7, 8, 9, 10];
const READERS: [i64; 15] = [0, 1, 2, 3, 4, 5, 6, 7, 8, 9, 10, 11, 12, 13, 14];
fn pairs() -> Vec<(i64, i64)> {
    let mut v = Vec::new();
    for w in WRITERS {
        for r in READERS {
            if wfmt(w) == rfmt(r) {
                v.push((w, r));
            }
        }
    }
    v
}

// ---------- real format signatures (harness-side table, only used to describe stored bytes) ----
const SIGS: [&[u8]; 4] = [
    &[0x1f, 0x8b],
    &[0x28, 0xb5, 0x2f, 0xfd],
    &[0x42, 0x5a, 0x68],
    &[0xfd, 0x37, 0x7a, 0x58, 0x5a, 0x00],
];
const EXTS: [&[&str]; 4] = [&[".gz", ".gzip"], &[".zst", ".zstd"], &[".bz2", ".bzip2"], &[".xz"]];

fn sig_idx(b: &[u8]) -> i64 {
    for (i, s) in SIGS.iter().enumerate() {
        if b.starts_with(s) {
            return i as i64;
        }
    }
    -1
}
fn head(b: &[u8]) -> Value {
    json!({"bytes": b[..b.len().min(16)].to_vec()})
}

// ---------- scratch ----------
static CASE_NO: AtomicU64 = AtomicU64::new(0);
fn scratch_root() -> PathBuf {
    PathBuf::from(format!("/verif/run/C10/scratch-{}", std::process::id()))
}
struct CaseDir(PathBuf);
impl CaseDir {
    fn new() -> Self {
        let n = CASE_NO.fetch_add(1, Ordering::SeqCst);
        let d = scratch_root().join(format!("c{n}"));
        let _ = std::fs::remove_dir_all(&d);
        CaseDir(d)
    }
}
impl CaseDir {
    fn sub(&self, name: &str) -> PathBuf {
        let d = self.0.join(name);
        std::fs::create_dir_all(&d).expect("scratch dir");
        d
    }
}
impl Drop for CaseDir {
    fn drop(&mut self) {
        let _ = std::fs::remove_dir_all(&self.0);
    }
}

// ---------- decoding of case inputs ----------
fn recs_of(v: &Value) -> Vec<Row> {
    v.as_array()
        .expect("records")
        .iter()
        .map(|p| (p[0].as_str().expect("k").to_string(), p[1].as_i64().expect("v")))
        .collect()
}
fn recs_json(rows: &[Row]) -> Value {
    Value::Array(rows.iter().map(|(k, v)| json!([k, v])).collect())
}
fn to_recs(rows: &[Row]) -> Vec<Rec> {
    rows.iter().map(|(k, v)| Rec { k: k.clone(), v: *v }).collect()
}
fn from_recs(rs: Vec<Rec>) -> Vec<Row> {
    rs.into_iter().map(|r| (r.k, r.v)).collect()
}
fn shards_of(v: &Value) -> Option<usize> {
    v.as_u64().map(|x| x as usize)
}

// ---------- where the data lives ----------
enum Loc<'a> {
    File(&'a Path),
    Cloud(&'a FakeObjectIO, &'a str),
}
const BUCKET: &str = "b";

/// Run writer `w`; returns the stored bytes.
fn do_write(w: i64, loc: &Loc, rows: &[Row], shards: Option<usize>) -> Result<Vec<u8>, ()> {
    match loc {
        Loc::Cloud(st, key) => {
            if w != W_CLOUD_JSONL {
                return Err(());
            }
            write_cloud_jsonl_vec(*st, BUCKET, key, &to_recs(rows)).map_err(|_| ())?;
            st.get_object(BUCKET, key).map_err(|_| ())
        }
        Loc::File(path) => {
            let p = Pipeline::default();
            let n = match w {
                W_JSONL_VEC => write_jsonl_vec(path, &to_recs(rows)),
                W_JSONL_PAR => write_jsonl_par(path, &to_recs(rows), shards),
                W_PC_JSONL => from_vec(&p, to_recs(rows)).write_jsonl(path),
                W_PC_JSONL_PAR => from_vec(&p, to_recs(rows)).write_jsonl_par(path, shards),
                W_CSV_VEC => write_csv_vec(path, false, rows),
                W_CSV => write_csv(path, false, &rows.to_vec()),
                W_CSV_PAR => write_csv_par(path, rows, shards, false),
                W_PC_CSV => from_vec(&p, rows.to_vec()).write_csv(path, false),
                W_PC_CSV_PAR => from_vec(&p, rows.to_vec()).write_csv_par(path, shards, false),
                W_PARQUET_VEC => write_parquet_vec(path, &to_recs(rows)),
                _ => return Err(()),
            };
            let n = n.map_err(|_| ())?;
            if n != rows.len() {
                return Err(());
            }
            std::fs::read(path).map_err(|_| ())
        }
    }
}

enum Ro {
    Ok(Vec<Row>),
    Err,
    Panic,
    Bad,
}
fn outcome<T>(f: impl FnOnce() -> Result<Vec<Row>, T>) -> Ro {
    match catch_unwind(AssertUnwindSafe(f)) {
        Ok(Ok(rows)) => Ro::Ok(rows),
        Ok(Err(_)) => Ro::Err,
        Err(_) => Ro::Panic,
    }
}
fn ro_json(ro: &Ro) -> Value {
    match ro {
        Ro::Ok(rows) => json!(["ok", recs_json(rows)]),
        Ro::Err => json!(["err"]),
        Ro::Panic => json!(["panic"]),
        Ro::Bad => json!(["bad-reader"]),
    }
}

/// Run reader `r`. `hdr`: CSV `has_headers`; for the JSONL range reader "skip line 0".
fn do_read(r: i64, loc: &Loc, hdr: bool) -> Value {
    ro_json(&read_rows(r, loc, hdr, 2))
}

/// `lps`: lines per shard of the range / streaming readers (every shard re-reads the file from
/// the start, so big payloads use a few big shards).
fn read_rows(r: i64, loc: &Loc, hdr: bool, lps: usize) -> Ro {
    match loc {
        Loc::Cloud(st, key) => match r {
            R_CLOUD_JSONL => {
                outcome(|| read_cloud_jsonl_vec::<Rec, _>(*st, BUCKET, key).map(from_recs))
            }
            R_CLOUD_JSONL_GLOB => {
                outcome(|| read_cloud_jsonl_glob::<Rec, _>(*st, BUCKET, key).map(from_recs))
            }
            _ => Ro::Bad,
        },
        Loc::File(path) => {
            let dir_glob = format!("{}/*", path.parent().unwrap().display());
            match r {
                R_JSONL_VEC => outcome(|| read_jsonl_vec::<Rec>(path).map(from_recs)),
                R_JSONL_RANGE => outcome(|| -> anyhow::Result<Vec<Row>> {
                    let sh = build_jsonl_shards(path, lps)?;
                    let mut out = Vec::new();
                    if hdr {
                        out.extend(read_jsonl_range::<Rec>(&sh, 1, sh.total_lines.max(1))?);
                    } else {
                        for &(s, e) in &sh.ranges {
                            out.extend(read_jsonl_range::<Rec>(&sh, s, e)?);
                        }
                    }
                    Ok(from_recs(out))
                }),
                R_PC_JSONL => outcome(|| -> anyhow::Result<Vec<Row>> {
                    let p = Pipeline::default();
                    Ok(from_recs(read_jsonl::<Rec>(&p, path)?.collect_seq()?))
                }),
                R_PC_JSONL_GLOB => outcome(|| -> anyhow::Result<Vec<Row>> {
                    let p = Pipeline::default();
                    Ok(from_recs(read_jsonl::<Rec>(&p, &dir_glob)?.collect_seq()?))
                }),
                R_JSONL_STREAM_SEQ => outcome(|| -> anyhow::Result<Vec<Row>> {
                    let p = Pipeline::default();
                    Ok(from_recs(read_jsonl_streaming::<Rec>(&p, path, lps)?.collect_seq()?))
                }),
                R_JSONL_STREAM_PAR => outcome(|| -> anyhow::Result<Vec<Row>> {
                    let p = Pipeline::default();
                    Ok(from_recs(
                        read_jsonl_streaming::<Rec>(&p, path, lps)?.collect_par(Some(2), None)?,
                    ))
                }),
                R_CSV_VEC => outcome(|| read_csv_vec::<Row>(path, hdr)),
                R_CSV_RANGE => outcome(|| -> anyhow::Result<Vec<Row>> {
                    let sh = build_csv_shards(path, hdr, lps)?;
                    let mut out = Vec::new();
                    for &(s, e) in &sh.ranges {
                        out.extend(read_csv_range::<Row>(&sh, s, e)?);
                    }
                    Ok(out)
                }),
                R_PC_CSV => outcome(|| -> anyhow::Result<Vec<Row>> {
                    let p = Pipeline::default();
                    read_csv::<Row>(&p, path, hdr)?.collect_seq()
                }),
                R_PC_CSV_GLOB => outcome(|| -> anyhow::Result<Vec<Row>> {
                    let p = Pipeline::default();
                    read_csv::<Row>(&p, &dir_glob, hdr)?.collect_seq()
                }),
                R_CSV_STREAM_SEQ => outcome(|| -> anyhow::Result<Vec<Row>> {
                    let p = Pipeline::default();
                    read_csv_streaming::<Row>(&p, path, hdr, lps)?.collect_seq()
                }),
                R_CSV_STREAM_PAR => outcome(|| -> anyhow::Result<Vec<Row>> {
                    let p = Pipeline::default();
                    read_csv_streaming::<Row>(&p, path, hdr, lps)?.collect_par(Some(2), None)
                }),
                R_PARQUET_VEC => outcome(|| read_parquet_vec::<Rec>(path).map(from_recs)),
                _ => Ro::Bad,
            }
        }
    }
}

/// Reference: what a PLAIN parse (no codec layer) of `content` gives, computed without ironbeam
/// on a deliberately small subset of the formats; `None` = content outside that subset (the
/// case is then dropped as ["invalid"]; the generator never produces such content).
///  JSONL: `BufRead::lines` + blank lines skipped + serde_json per line; the range reader with
///         hdr=true skips line 0 (which still has to be UTF-8).
///  CSV:   lines of `key,int` without quotes / CR / empty lines; hdr=true: the first line is a
///         header (not parsed, but every later record must have as many fields as it has).
fn ref_parse(r: i64, hdr: bool, content: &[u8]) -> Option<Value> {
    let mut lines: Vec<&[u8]> = content.split(|&b| b == b'\n').collect();
    if lines.last().is_some_and(|l| l.is_empty()) {
        lines.pop();
    }
    match rfmt(r) {
        Fmt::Jsonl | Fmt::Cloud => {
            if hdr && r != R_JSONL_RANGE {
                return None;
            }
            if content.contains(&b'\r') {
                return None;
            }
            let mut out = Vec::new();
            let mut strs = Vec::new();
            for l in &lines {
                match std::str::from_utf8(l) {
                    Ok(t) => strs.push(t),
                    Err(_) => return Some(json!(["err"])),
                }
            }
            for (i, t) in strs.iter().enumerate() {
                if (hdr && i == 0) || t.trim().is_empty() {
                    continue;
                }
                match serde_json::from_str::<Rec>(t) {
                    Ok(rec) => out.push((rec.k, rec.v)),
                    Err(_) => return Some(json!(["err"])),
                }
            }
            Some(json!(["ok", recs_json(&out)]))
        }
        Fmt::Csv => {
            if content.contains(&b'\r') || content.contains(&b'"') || lines.iter().any(|l| l.is_empty())
            {
                return None;
            }
            let nf = |l: &[u8]| l.split(|&b| b == b',').count();
            let mut out = Vec::new();
            let first = lines.first().map(|l| nf(l));
            for (i, l) in lines.iter().enumerate() {
                if hdr && i == 0 {
                    continue;
                }
                if Some(nf(l)) != first {
                    return Some(json!(["err"]));
                }
                let f: Vec<&[u8]> = l.split(|&b| b == b',').collect();
                if f.len() != 2 {
                    return Some(json!(["err"]));
                }
                let (Ok(k), Ok(v)) = (std::str::from_utf8(f[0]), std::str::from_utf8(f[1])) else {
                    return Some(json!(["err"]));
                };
                let Ok(v) = v.parse::<i64>() else {
                    return Some(json!(["err"]));
                };
                out.push((k.to_string(), v));
            }
            Some(json!(["ok", recs_json(&out)]))
        }
        Fmt::Parquet => None,
    }
}


// ---------- big payloads described by generator parameters (kinds "big", "rewrite") ----------
// gen = [mode, n, klen, seed, k0len]: n records (key_i, i); key_0 has k0len characters, every
// other key klen; character j of key i:
//   mode 0: 'x'                    (records differ only in v: extremely compressible)
//   mode 1: ALPHA[i mod 4]         (four distinct keys)
//   mode 2: ALPHA[top 6 bits of a 63-bit LCG seeded by (seed, i)]   (poorly compressible)
// The same definition is in Corr/C10.v (pl_keychar); the digest of a record list likewise.
const M63: u64 = (1u64 << 63) - 1;
const LCG_A: u64 = 6364136223846793005;
const LCG_C: u64 = 1442695040888963407;
const ALPHA: &[u8; 64] = b"ABCDEFGHIJKLMNOPQRSTUVWXYZabcdefghijklmnopqrstuvwxyz0123456789-_";
#[derive(Clone, Copy, Debug)]
struct Gen {
    mode: i64,
    n: usize,
    klen: usize,
    seed: u64,
    k0len: usize,
}
impl Gen {
    fn json(&self) -> Value {
        json!([self.mode, self.n, self.klen, self.seed, self.k0len])
    }
    fn of(v: &Value) -> Option<Gen> {
        let a = v.as_array()?;
        if a.len() != 5 {
            return None;
        }
        let g = Gen {
            mode: a[0].as_i64()?,
            n: a[1].as_u64()? as usize,
            klen: a[2].as_u64()? as usize,
            seed: a[3].as_u64()?,
            k0len: a[4].as_u64()? as usize,
        };
        let total = (g.n as u128) * (g.klen as u128 + 24) + g.k0len as u128;
        if !(0..=2).contains(&g.mode) || g.seed > M63 || total > (1 << 26) {
            return None;
        }
        Some(g)
    }
    fn key(&self, i: usize) -> String {
        let len = if i == 0 { self.k0len } else { self.klen };
        let mut k = Vec::with_capacity(len);
        match self.mode {
            0 => k.resize(len, b'x'),
            1 => k.resize(len, ALPHA[i % 4]),
            _ => {
                let mut x = (self.seed
                    .wrapping_add((i as u64 + 1).wrapping_mul(2654435761)))
                    & M63;
                for _ in 0..len {
                    x = (x.wrapping_mul(LCG_A).wrapping_add(LCG_C)) & M63;
                    k.push(ALPHA[(x >> 57) as usize]);
                }
            }
        }
        String::from_utf8(k).unwrap()
    }
    fn rows(&self) -> Vec<Row> {
        (0..self.n).map(|i| (self.key(i), i as i64)).collect()
    }
    /// length of the JSONL / CSV text of the payload (harness side, used by the generator only)
    fn text_len(&self, csv: bool) -> usize {
        let over = if csv { 2 } else { 14 };
        (0..self.n)
            .map(|i| over + (if i == 0 { self.k0len } else { self.klen }) + i.to_string().len())
            .sum()
    }
}
fn digest(rows: &[Row]) -> u64 {
    let mut d = 0u64;
    for (k, v) in rows {
        let mut h = 0u64;
        for &b in k.as_bytes() {
            h = (h.wrapping_mul(131).wrapping_add(b as u64)) & M63;
        }
        h = (h.wrapping_mul(1000003).wrapping_add(*v as u64)) & M63;
        d = (d.wrapping_mul(LCG_A).wrapping_add(h).wrapping_add(1)) & M63;
    }
    d
}
fn ro_digest(ro: &Ro) -> Value {
    match ro {
        Ro::Ok(rows) => json!(["ok", rows.len(), digest(rows) as i64 & ((1i64 << 61) - 1)]),
        Ro::Err => json!(["err"]),
        Ro::Panic => json!(["panic"]),
        Ro::Bad => json!(["bad-reader"]),
    }
}
/// results of large "big" cases computed ahead of emission, several cases at a time (the cases
/// themselves are emitted one after the other); key = the case input as JSON text
static BIG_CACHE: std::sync::Mutex<Option<std::collections::HashMap<String, Value>>> =
    std::sync::Mutex::new(None);
const PLAIN_NAME: &str = "plain";
const PLAIN_KEY: &str = "zz/plain";

/// kind "big": one payload, many (writer, reader, name) entries, run in parallel.
///  phase 1: every distinct (w, wname, shards) and the same writer's neutral output is written
///           once with the real writer; phase 2: every entry reads with its reader - in place
///           when it is the first entry of that write under the same name, else from a copy of
///           the stored bytes under `rname` (std::fs::write / put_object).
fn run_big(g: &Gen, entries: &[Value]) -> Value {
    use rayon::prelude::*;
    struct Ent {
        w: i64,
        r: i64,
        wname: String,
        rname: String,
        shards: Option<usize>,
    }
    let mut ents = Vec::new();
    for e in entries {
        let Some(a) = e.as_array() else { return json!(["invalid"]) };
        if a.len() != 5 {
            return json!(["invalid"]);
        }
        let (Some(w), Some(r), Some(wn), Some(rn)) =
            (a[0].as_i64(), a[1].as_i64(), a[2].as_str(), a[3].as_str())
        else {
            return json!(["invalid"]);
        };
        if !(0..=10).contains(&w) || !(0..=14).contains(&r) || wfmt(w) != rfmt(r)
            || wn.is_empty() || rn.is_empty()
            || (wfmt(w) != Fmt::Cloud && (wn.contains('/') || rn.contains('/')))
            || !(a[4].is_null() || a[4].is_u64())
        {
            return json!(["invalid"]);
        }
        ents.push(Ent { w, r, wname: wn.to_string(), rname: rn.to_string(), shards: shards_of(&a[4]) });
    }
    let rows = g.rows();
    let cd = CaseDir::new();
    // distinct writes
    let mut wkeys: Vec<(i64, String, Option<usize>)> = Vec::new();
    let mut widx = |k: (i64, String, Option<usize>)| -> usize {
        if let Some(i) = wkeys.iter().position(|x| *x == k) {
            i
        } else {
            wkeys.push(k);
            wkeys.len() - 1
        }
    };
    let mut ent_w = Vec::new();
    let mut ent_p = Vec::new();
    for e in &ents {
        ent_w.push(widx((e.w, e.wname.clone(), e.shards)));
        let pn = if wfmt(e.w) == Fmt::Cloud { PLAIN_KEY } else { PLAIN_NAME };
        ent_p.push(widx((e.w, pn.to_string(), e.shards)));
    }
    let stores: Vec<FakeObjectIO> = wkeys.iter().map(|_| FakeObjectIO::new()).collect();
    let dirs: Vec<PathBuf> = (0..wkeys.len()).map(|i| cd.sub(&format!("w{i}"))).collect();
    let written: Vec<Result<Vec<u8>, ()>> = wkeys
        .par_iter()
        .enumerate()
        .map(|(i, (w, name, shards))| {
            catch_unwind(AssertUnwindSafe(|| {
                if wfmt(*w) == Fmt::Cloud {
                    do_write(*w, &Loc::Cloud(&stores[i], name), &rows, *shards)
                } else {
                    do_write(*w, &Loc::File(&dirs[i].join(name)), &rows, *shards)
                }
            }))
            .unwrap_or(Err(()))
        })
        .collect();
    // the first entry of a write that reads under the name it was written to reads in place
    let mut owner: Vec<Option<usize>> = vec![None; wkeys.len()];
    for (ei, e) in ents.iter().enumerate() {
        if e.rname == e.wname && owner[ent_w[ei]].is_none() {
            owner[ent_w[ei]] = Some(ei);
        }
    }
    let lps = (g.n / 3 + 1).max(2);
    let outs: Vec<Value> = ents
        .par_iter()
        .enumerate()
        .map(|(ei, e)| {
            let (Ok(stored), Ok(plain)) = (&written[ent_w[ei]], &written[ent_p[ei]]) else {
                return json!(["werr"]);
            };
            let wi = ent_w[ei];
            let ro = if owner[wi] == Some(ei) {
                if wfmt(e.w) == Fmt::Cloud {
                    read_rows(e.r, &Loc::Cloud(&stores[wi], &e.rname), false, lps)
                } else {
                    read_rows(e.r, &Loc::File(&dirs[wi].join(&e.rname)), false, lps)
                }
            } else if wfmt(e.w) == Fmt::Cloud {
                let st = FakeObjectIO::new();
                st.put_object(BUCKET, &e.rname, stored).unwrap();
                read_rows(e.r, &Loc::Cloud(&st, &e.rname), false, lps)
            } else {
                let target = cd.sub(&format!("e{ei}")).join(&e.rname);
                std::fs::write(&target, stored).expect("copy stored bytes");
                read_rows(e.r, &Loc::File(&target), false, lps)
            };
            let rd = ro_digest(&ro);
            json!([rd[0].clone(), sig_idx(stored), stored.len(), plain.len(), stored == plain,
                   head(stored), head(plain), rd])
        })
        .collect();
    json!(["big", outs])
}

/// kind "rewrite": payload A, then payload B, written to the SAME name in the same directory /
/// object store; read; compared with what a fresh store gets when only B is written.
fn run_rewrite(w: i64, r: i64, name: &str, ga: &Gen, gb: &Gen, shards: Option<usize>) -> Value {
    let (ra, rb) = (ga.rows(), gb.rows());
    let cd = CaseDir::new();
    let (st, st2) = (FakeObjectIO::new(), FakeObjectIO::new());
    let cloud = wfmt(w) == Fmt::Cloud;
    let target = cd.sub("t").join(if cloud { "unused" } else { name });
    let fresh = cd.sub("f").join(if cloud { "unused" } else { name });
    let loc = if cloud { Loc::Cloud(&st, name) } else { Loc::File(&target) };
    let loc2 = if cloud { Loc::Cloud(&st2, name) } else { Loc::File(&fresh) };
    let Ok(s1) = do_write(w, &loc, &ra, shards) else { return json!(["werr"]) };
    let Ok(s2) = do_write(w, &loc, &rb, shards) else { return json!(["werr"]) };
    let Ok(sf) = do_write(w, &loc2, &rb, shards) else { return json!(["werr"]) };
    let lps = (gb.n / 3 + 1).max(2);
    let rd = ro_digest(&read_rows(r, &loc, false, lps));
    json!([rd[0].clone(), sig_idx(&s2), s1.len(), s2.len(), sf.len(), s2 == sf, head(&s2), rd])
}

fn name_of(v: &Value) -> String {
    v.as_str().expect("name").to_string()
}

fn run(kind: &str, input: &Value) -> Value {
    if std::env::var_os("C10_TIMING").is_none() {
        return run_inner(kind, input);
    }
    let t0 = std::time::Instant::now();
    let out = run_inner(kind, input);
    let big = kind == "big" && input[0][1].as_u64().unwrap_or(0) * (input[0][2].as_u64().unwrap_or(0) + 20) > 100_000;
    eprintln!("T {}{} {}", kind, if big { "-large" } else { "" }, t0.elapsed().as_micros());
    out
}

fn run_inner(kind: &str, input: &Value) -> Value {
    match kind {
        "rt" => {
            let (w, r) = (input[0].as_i64().unwrap(), input[1].as_i64().unwrap());
            let name = name_of(&input[2]);
            let rows = recs_of(&input[3]);
            let shards = shards_of(&input[4]);
            if wfmt(w) != rfmt(r) || name.is_empty() {
                return json!(["invalid"]);
            }
            if wfmt(w) == Fmt::Cloud {
                let st = FakeObjectIO::new();
                let Ok(stored) = do_write(w, &Loc::Cloud(&st, &name), &rows, shards) else {
                    return json!(["werr"]);
                };
                let Ok(plain) = do_write(w, &Loc::Cloud(&st, "zz/plain"), &rows, shards) else {
                    return json!(["werr"]);
                };
                st.delete_object(BUCKET, "zz/plain").unwrap();
                let ro = do_read(r, &Loc::Cloud(&st, &name), false);
                json!([ro[0].clone(), sig_idx(&stored), stored == plain, head(&stored), head(&plain), ro])
            } else {
                if name.contains('/') {
                    return json!(["invalid"]);
                }
                let cd = CaseDir::new();
                let target = cd.sub("t").join(&name);
                let neutral = cd.sub("n").join("plain");
                let Ok(stored) = do_write(w, &Loc::File(&target), &rows, shards) else {
                    return json!(["werr"]);
                };
                let Ok(plain) = do_write(w, &Loc::File(&neutral), &rows, shards) else {
                    return json!(["werr"]);
                };
                let ro = do_read(r, &Loc::File(&target), false);
                json!([ro[0].clone(), sig_idx(&stored), stored == plain, head(&stored), head(&plain), ro])
            }
        }
        "raw" => {
            let r = input[0].as_i64().unwrap();
            let name = name_of(&input[1]);
            let origin = &input[2];
            let hdr = input[3].as_bool().unwrap();
            if name.is_empty() {
                return json!(["invalid"]);
            }
            let cd = CaseDir::new();
            let st = FakeObjectIO::new();
            let content: Vec<u8> = match origin[0].as_str().unwrap() {
                "lit" => origin[1]["bytes"]
                    .as_array()
                    .expect("bytes")
                    .iter()
                    .map(|b| b.as_u64().unwrap() as u8)
                    .collect(),
                "enc" => {
                    let w = origin[1].as_i64().unwrap();
                    let encname = name_of(&origin[2]);
                    let rows = recs_of(&origin[3]);
                    let shards = shards_of(&origin[4]);
                    if wfmt(w) != rfmt(r) || encname.is_empty() {
                        return json!(["invalid"]);
                    }
                    let res = if wfmt(w) == Fmt::Cloud {
                        do_write(w, &Loc::Cloud(&st, &format!("e/{encname}")), &rows, shards)
                    } else {
                        if encname.contains('/') {
                            return json!(["invalid"]);
                        }
                        do_write(w, &Loc::File(&cd.sub("e").join(&encname)), &rows, shards)
                    };
                    match res {
                        Ok(b) => b,
                        Err(()) => return json!(["werr"]),
                    }
                }
                _ => return json!(["invalid"]),
            };
            // compressed bytes (outside the reference parser's subset) are not records in any
            // plain reading; bytes the writer stored plain are parsed like literal content
            let reference = if origin[0] == "enc" {
                ref_parse(r, hdr, &content).unwrap_or(json!(["err"]))
            } else if let Some(v) = ref_parse(r, hdr, &content) {
                v
            } else {
                return json!(["invalid"]);
            };
            if rfmt(r) == Fmt::Cloud {
                st.put_object(BUCKET, &name, &content).unwrap();
                let ro = do_read(r, &Loc::Cloud(&st, &name), hdr);
                json!([ro[0].clone(), head(&content), ro, reference])
            } else {
                if name.contains('/') {
                    return json!(["invalid"]);
                }
                let target = cd.sub("t").join(&name);
                std::fs::write(&target, &content).expect("write raw file");
                let ro = do_read(r, &Loc::File(&target), hdr);
                json!([ro[0].clone(), head(&content), ro, reference])
            }
        }
        "big" => {
            let (Some(g), Some(entries)) = (Gen::of(&input[0]), input[1].as_array()) else {
                return json!(["invalid"]);
            };
            if input.as_array().map(Vec::len) != Some(2) {
                return json!(["invalid"]);
            }
            if let Some(v) = BIG_CACHE
                .lock()
                .ok()
                .and_then(|mut c| c.as_mut().and_then(|m| m.remove(&input.to_string())))
            {
                return v;
            }
            run_big(&g, entries)
        }
        "rewrite" => {
            let a = input.as_array().cloned().unwrap_or_default();
            if a.len() != 6 {
                return json!(["invalid"]);
            }
            let (Some(w), Some(r), Some(name), Some(ga), Some(gb)) =
                (a[0].as_i64(), a[1].as_i64(), a[2].as_str(), Gen::of(&a[3]), Gen::of(&a[4]))
            else {
                return json!(["invalid"]);
            };
            if !(0..=10).contains(&w) || !(0..=14).contains(&r) || wfmt(w) != rfmt(r)
                || name.is_empty() || (wfmt(w) != Fmt::Cloud && name.contains('/'))
                || !(a[5].is_null() || a[5].is_u64())
            {
                return json!(["invalid"]);
            }
            run_rewrite(w, r, name, &ga, &gb, shards_of(&a[5]))
        }
        "proc" => {
            // the registry must stay untouched in THIS process: never register here
            let Some(steps) = input[0].as_array() else {
                return json!(["invalid"]);
            };
            for st in steps {
                let Some(a) = st.as_array() else {
                    return json!(["invalid"]);
                };
                let ok = match st[0].as_str() {
                    Some("reg") => {
                        a.len() == 5
                            && st[1].is_u64()
                            && st[4].is_u64()
                            && (st[3].is_null() || st[3]["bytes"].is_array())
                            && st[2].as_array().is_some_and(|e| {
                                e.iter().all(|x| x.as_str().is_some_and(|t| !t.is_empty()))
                            })
                    }
                    Some("rt") => a.len() == 6,
                    Some("raw") => a.len() == 5,
                    _ => false,
                };
                if !ok {
                    return json!(["invalid"]);
                }
            }
            let out = run_proc(&input[0]);
            // a step the child rejected makes the whole script invalid (only when shrinking)
            if out[1].as_array().is_some_and(|a| a.iter().any(|o| *o == json!(["invalid"]))) {
                return json!(["invalid"]);
            }
            out
        }
        _ => json!(["bad-kind"]),
    }
}

// ---------- custom codecs (registered only inside child processes) ----------
struct DynCodec {
    name: &'static str,
    exts: Vec<&'static str>,
    magic: Option<&'static [u8]>,
    key: u8,
}
struct XorReader {
    inner: Box<dyn Read>,
    key: u8,
}
impl Read for XorReader {
    fn read(&mut self, buf: &mut [u8]) -> std::io::Result<usize> {
        let n = self.inner.read(buf)?;
        for b in &mut buf[..n] {
            *b ^= self.key;
        }
        Ok(n)
    }
}
struct XorWriter {
    inner: Box<dyn Write>,
    key: u8,
}
impl Write for XorWriter {
    fn write(&mut self, buf: &[u8]) -> std::io::Result<usize> {
        let t: Vec<u8> = buf.iter().map(|b| b ^ self.key).collect();
        self.inner.write_all(&t)?;
        Ok(buf.len())
    }
    fn flush(&mut self) -> std::io::Result<()> {
        self.inner.flush()
    }
}
impl CompressionCodec for DynCodec {
    fn name(&self) -> &str {
        self.name
    }
    fn extensions(&self) -> &[&str] {
        &self.exts
    }
    fn magic_bytes(&self) -> Option<&[u8]> {
        self.magic
    }
    fn wrap_reader_dyn(&self, mut reader: Box<dyn Read>) -> std::io::Result<Box<dyn Read>> {
        if let Some(m) = self.magic {
            let mut h = vec![0u8; m.len()];
            reader.read_exact(&mut h)?;
            if h != m {
                return Err(std::io::Error::new(std::io::ErrorKind::InvalidData, "bad magic"));
            }
        }
        Ok(Box::new(XorReader { inner: reader, key: self.key }))
    }
    fn wrap_writer_dyn(&self, mut writer: Box<dyn Write>) -> std::io::Result<Box<dyn Write>> {
        if let Some(m) = self.magic {
            writer.write_all(m)?;
        }
        Ok(Box::new(XorWriter { inner: writer, key: self.key }))
    }
}

fn bytes_of(v: &Value) -> Vec<u8> {
    v["bytes"].as_array().expect("bytes").iter().map(|b| b.as_u64().unwrap() as u8).collect()
}

/// one step of a "proc" script, executed in the child
fn exec_step(step: &Value) -> Value {
    let tag = step[0].as_str().unwrap_or("");
    let args = Value::Array(step.as_array().map(|a| a[1..].to_vec()).unwrap_or_default());
    match tag {
        "reg" => {
            let exts: Vec<&'static str> = args[1]
                .as_array()
                .expect("exts")
                .iter()
                .map(|e| &*Box::leak(e.as_str().expect("ext").to_string().into_boxed_str()))
                .collect();
            let magic: Option<&'static [u8]> =
                if args[2].is_null() { None } else { Some(&*Box::leak(bytes_of(&args[2]).into_boxed_slice())) };
            let key = args[3].as_u64().expect("key") as u8;
            register_codec(std::sync::Arc::new(DynCodec { name: "custom", exts, magic, key }));
            json!(["reg"])
        }
        "rt" | "raw" => ibv::run_caught(&run, tag, &args),
        _ => json!(["bad-step"]),
    }
}

fn child_main() {
    std::panic::set_hook(Box::new(|_| {}));
    let mut inp = String::new();
    std::io::stdin().read_to_string(&mut inp).expect("stdin");
    let steps: Value = serde_json::from_str(&inp).expect("script");
    let _ = std::fs::create_dir_all(scratch_root());
    let outs: Vec<Value> = steps.as_array().expect("steps").iter().map(exec_step).collect();
    let _ = std::fs::remove_dir_all(scratch_root());
    println!("{}", Value::Array(outs));
}

/// run a script in a freshly spawned process (this binary with `--child`)
fn run_proc(steps: &Value) -> Value {
    use std::process::{Command, Stdio};
    let exe = std::env::current_exe().expect("current_exe");
    let Ok(mut ch) = Command::new(exe)
        .arg("--child")
        .stdin(Stdio::piped())
        .stdout(Stdio::piped())
        .stderr(Stdio::null())
        .spawn()
    else {
        return json!(["abort"]);
    };
    {
        let mut si = ch.stdin.take().expect("child stdin");
        let _ = si.write_all(steps.to_string().as_bytes());
    }
    let Ok(out) = ch.wait_with_output() else {
        return json!(["abort"]);
    };
    if !out.status.success() {
        return json!(["abort"]);
    }
    match serde_json::from_slice::<Value>(&out.stdout) {
        Ok(v) if v.is_array() => json!(["proc", v]),
        _ => json!(["abort"]),
    }
}

// ---------- generator ----------

/// every upper/lower-case variant of an extension (letters only vary)
fn case_variants(ext: &str) -> Vec<String> {
    let letters: Vec<usize> =
        ext.char_indices().filter(|(_, c)| c.is_ascii_alphabetic()).map(|(i, _)| i).collect();
    let mut out = Vec::new();
    for mask in 0..(1u32 << letters.len()) {
        let mut s: Vec<u8> = ext.as_bytes().to_vec();
        for (bit, &i) in letters.iter().enumerate() {
            if mask & (1 << bit) != 0 {
                s[i] = s[i].to_ascii_uppercase();
            }
        }
        out.push(String::from_utf8(s).unwrap());
    }
    out
}

fn stem_for(f: Fmt, i: usize) -> &'static str {
    let js = ["x.jsonl", "data", "a.b.jsonl", "X.JSONL"];
    let cs = ["x.csv", "data", "a.b.csv", "X.CSV"];
    let cl = ["out/x.jsonl", "k", "a/b.c/x.jsonl", "X"];
    let pq = ["x.parquet", "data", "a.b.parquet", "X.PARQUET"];
    match f {
        Fmt::Jsonl => js[i % 4],
        Fmt::Csv => cs[i % 4],
        Fmt::Cloud => cl[i % 4],
        Fmt::Parquet => pq[i % 4],
    }
}

fn rows(keys: &[&str]) -> Vec<Row> {
    keys.iter().enumerate().map(|(i, k)| (k.to_string(), i as i64 + 1)).collect()
}

/// names that must NOT select a codec (near misses of every extension) and must (odd spellings)
const NEUTRAL_NAMES: [&str; 40] = [
    "x.jsonl", "x.csv", "data", "x.txt", "x.tgz", "xgz", "x.g", "x.z", "x.gzz", "x.gz.bak",
    "x.gz.jsonl", "x.gz_", "x.gz ", "x.zs", "x.zstd1", "x.zst.tmp", "x.bz", "x.bz22", "x.bzip",
    "x.bz2.csv", "x.xzz", "x.x", "x.lzma", "x.7z", "x.zip", "x.gzi", "x.gzipp", "x_gz", "x-gz",
    "gz", "gzip", "zst", "bz2", "xz", "x.GZZ", "x.Z", "x.zst2", "x.b2", "x. gz", "x.g.z",
];
const CODEC_NAMES: [(&str, usize); 14] = [
    (".gz", 0), ("x..gz", 0), ("x.csv.GZ", 0), ("a.gz.gzip", 0), ("x.xz.gz", 0), ("x.gz.zst", 1),
    (".ZSTD", 1), ("x.gz.bz2", 2), ("x.tar.bzip2", 2), (".bz2", 2), ("x.gz.xz", 3), (".xz", 3),
    ("x.zst.XZ", 3), ("x.bz2.Gzip", 0),
];

fn emit_rt(em: &mut Emitter, w: i64, r: i64, name: &str, rs: &[Row], shards: Option<usize>,
           nt: bool, tags: &[&str]) {
    em.case("rt", json!([w, r, name, recs_json(rs), shards]), nt, tags);
}

fn csv_text(rs: &[Row]) -> Vec<u8> {
    let mut s = String::new();
    for (k, v) in rs {
        s.push_str(&format!("{k},{v}\n"));
    }
    s.into_bytes()
}
fn jsonl_text(rs: &[Row]) -> Vec<u8> {
    let mut s = String::new();
    for (k, v) in rs {
        s.push_str(&format!("{{\"k\":{},\"v\":{}}}\n", serde_json::to_string(k).unwrap(), v));
    }
    s.into_bytes()
}

fn emit_lit(em: &mut Emitter, r: i64, name: &str, content: &[u8], hdr: bool, tags: &[&str]) {
    em.case(
        "raw",
        json!([r, name, ["lit", {"bytes": content}], hdr]),
        !content.is_empty(),
        tags,
    );
}


// ---------- size sweep (kinds "big" / "rewrite") ----------
/// a payload whose text (CSV if `csv`, else JSONL) is exactly `target` bytes long where that is
/// possible (n >= 1, every key at least one character), else the smallest one-record payload.
/// shape 0: many records with 48-character keys; 1: 1500-character keys; 2: one to three records;
/// 3: one-character keys (record counts beyond 65536 at 2 MiB)
fn solve_gen(mode: i64, seed: u64, target: usize, csv: bool, shape: usize, few: usize) -> Gen {
    let over = if csv { 2 } else { 14 };
    if target == 0 {
        return Gen { mode, n: 0, klen: 1, seed, k0len: 1 };
    }
    let (mut n, klen) = match shape {
        0 => ((target / (over + 48 + 3)).max(1), 48),
        1 => ((target / (over + 1500 + 2)).max(1), 1500),
        3 => ((target / (over + 1 + 4)).max(1), 1),
        _ => {
            let n = few.clamp(1, 3);
            (n, (target / n).saturating_sub(over + 1).max(1))
        }
    };
    loop {
        let g = Gen { mode, n, klen, seed, k0len: 1 };
        if n == 1 || g.text_len(csv) <= target {
            break;
        }
        n -= (n / 64).max(1).min(n - 1);
    }
    let base = Gen { mode, n, klen, seed, k0len: 1 }.text_len(csv);
    let k0len = if base <= target { 1 + (target - base) } else { 1 };
    Gen { mode, n, klen, seed, k0len }
}

/// name variants: 0 = neutral name; 1..=4 = codec c's extension (written and read under it);
/// 5..=8 = written under codec c's extension, the stored bytes copied to a neutral name (signature
/// detection); 9..=12 = written under codec c's extension, copied to ANOTHER codec's name
fn variant_names(f: Fmt, variant: usize, spell: usize) -> (String, String) {
    let (stem, neutral) = match f {
        Fmt::Jsonl => ("s.jsonl", ["s.jsonl", "s", "s.dat"][spell % 3]),
        Fmt::Csv => ("s.csv", ["s.csv", "s", "s.dat"][spell % 3]),
        Fmt::Cloud => ("d/part-0.jsonl", ["d/part-0.jsonl", "d/blob-0001", "s"][spell % 3]),
        Fmt::Parquet => ("s.parquet", ["s.parquet", "s", "s.dat"][spell % 3]),
    };
    let ext = |c: usize, k: usize| -> String {
        let e = EXTS[c][k % EXTS[c].len()];
        if (k / 2) % 3 == 2 { e.to_ascii_uppercase() } else { e.to_string() }
    };
    match variant {
        0 => (neutral.to_string(), neutral.to_string()),
        1..=4 => {
            let n = format!("{stem}{}", ext(variant - 1, spell));
            (n.clone(), n)
        }
        5..=8 => (format!("{stem}{}", ext(variant - 5, spell)), neutral.to_string()),
        _ => {
            let c = (variant - 9) % 4;
            (format!("{stem}{}", ext(c, spell)), format!("{stem}{}", ext((c + 1 + spell % 3) % 4, spell / 2)))
        }
    }
}
const SHARD_OPTS: [Option<usize>; 5] = [Some(2), Some(1), Some(4), None, Some(7)];

fn emit_big(em: &mut Emitter, g: &Gen, entries: Vec<Value>, tags: &[&str]) {
    em.case("big", json!([g.json(), entries]), g.n > 0, tags);
}

fn generate(seed: u64, tier: Tier, em: &mut Emitter) {
    let thorough = tier == Tier::Thorough;
    let all_pairs = pairs();
    let small = rows(&["a", "b c", "d"]);

    // 1. exhaustive: codecs x extensions x case variants x (writer, reader) pairs
    let mut vi = 0usize;
    for (ci, exts) in EXTS.iter().enumerate() {
        for ext in exts.iter() {
            for var in case_variants(ext) {
                let lower = var == *ext;
                for (pi, &(w, r)) in all_pairs.iter().enumerate() {
                    // quick tier: mixed-case variants rotate through the readers of the format
                    if !thorough && !lower && (pi + vi) % 4 != 0 {
                        continue;
                    }
                    let name = format!("{}{}", stem_for(wfmt(w), vi), var);
                    let _ = ci;
                    emit_rt(em, w, r, &name, &small, Some(2), true, &["exhaustive", "ext"]);
                }
                vi += 1;
            }
        }
    }

    // 2. neutral / near-miss names and odd codec names x pairs x payloads whose text starts
    //    with (a prefix of) a signature where that is expressible
    let csv_keys: [&str; 12] = [
        "a", "B", "BZ", "BZh", "BZh9", "BZh91AY&SY", "BZH", "bzh", "(", "\u{1f}", "\u{1f}\u{8b}",
        "Bz",
    ];
    for (ni, name) in NEUTRAL_NAMES.iter().enumerate() {
        for (pi, &(w, r)) in all_pairs.iter().enumerate() {
            if !thorough && (pi + ni) % 4 != 0 {
                continue;
            }
            let cname = if wfmt(w) == Fmt::Cloud { format!("p/{name}") } else { name.to_string() };
            emit_rt(em, w, r, &cname, &small, Some(3), false, &["neutral-name"]);
        }
    }
    for (ni, (name, _)) in CODEC_NAMES.iter().enumerate() {
        for (pi, &(w, r)) in all_pairs.iter().enumerate() {
            if !thorough && (pi + ni) % 3 != 0 {
                continue;
            }
            emit_rt(em, w, r, name, &small, Some(2), true, &["odd-codec-name"]);
        }
    }
    for key in csv_keys {
        let rs = rows(&[key, "CA"]);
        let sigish = key.as_bytes()[0] == b'B' || key.as_bytes()[0] == b'(' || key.as_bytes()[0] == 0x1f;
        for (pi, &(w, r)) in all_pairs.iter().enumerate() {
            if wfmt(w) != Fmt::Csv || (!thorough && (pi + key.len()) % 3 != 0) {
                continue;
            }
            for name in ["x.csv", "data", "x.csv.gz", "x.BZ2"] {
                emit_rt(em, w, r, name, &rs, Some(2), sigish, &["sig-prefix-text"]);
            }
        }
    }
    // empty record lists and one record, every writer (n = 0 branch of the parallel writers)
    for &(w, r) in all_pairs.iter() {
        for name in ["e.dat", "e.gz", "e.ZST", "e.bzip2", "e.xz"] {
            emit_rt(em, w, r, name, &[], Some(2), name != "e.dat", &["empty"]);
            emit_rt(em, w, r, name, &rows(&["only"]), None, name != "e.dat", &["one", "shards-none"]);
        }
    }
    // large payload: more than one 8 KiB buffer
    let big: Vec<Row> = (0..40).map(|i| (format!("key-{i:03}-{}", "x".repeat(240)), i)).collect();
    for (pi, &(w, r)) in all_pairs.iter().enumerate() {
        if !thorough && (wfmt(w) == Fmt::Parquet || pi % 4 != 0) {
            continue;
        }
        for name in ["big.dat", "big.gz", "big.zst"] {
            emit_rt(em, w, r, name, &big, Some(4), name != "big.dat", &["big"]);
        }
    }

    // 3. reader-side detection on raw bytes
    let body = rows(&["k", "m"]);
    let raw_names = ["n.dat", "n", "n.gz", "n.GZIP", "n.zst", "n.zstd", "n.bz2", "n.BZip2", "n.xz"];
    for r in READERS {
        if rfmt(r) == Fmt::Parquet {
            continue;
        }
        let csv = rfmt(r) == Fmt::Csv;
        let text = if csv { csv_text(&body) } else { jsonl_text(&body) };
        // readers that can skip the first line: CSV has_headers, JSONL range reader from line 1
        let skip = csv || r == R_JSONL_RANGE;
        for (ni, name) in raw_names.into_iter().enumerate() {
            emit_lit(em, r, name, &[], false, &["raw", "empty-file"]);
            emit_lit(em, r, name, &text, false, &["raw", "plain"]);
            if !thorough && !(ni <= 2 || ni == 7) {
                continue;
            }
            for sig in SIGS.iter() {
                // every prefix of the signature: proper ones, the full one, full + one more byte
                for len in 1..=sig.len() + 1 {
                    let p: Vec<u8> =
                        if len <= sig.len() { sig[..len].to_vec() } else { [sig, &b"9"[..]].concat() };
                    // (a) the prefix alone: a file shorter than / as long as the magic
                    emit_lit(em, r, name, &p, skip, &["raw", "prefix-alone"]);
                    // (b) first line = prefix (CSV: a two-field header `prefix,h`), then records
                    let mut q = p.clone();
                    if csv {
                        q.extend_from_slice(b",h");
                    }
                    q.push(b'\n');
                    q.extend_from_slice(&text);
                    emit_lit(em, r, name, &q, skip, &["raw", "prefix-line"]);
                }
            }
        }
        // text-expressible prefixes directly followed by text (CSV first field)
        if csv {
            for key in csv_keys {
                let rs = rows(&[key, "CA"]);
                for name in ["w.csv", "w"] {
                    emit_lit(em, r, name, &csv_text(&rs), false, &["raw", "csv-first-field"]);
                }
            }
        }
        // genuinely compressed bytes (made by the real writers) under neutral names, under the
        // same codec's other spellings, and under other codecs' names
        for w in WRITERS {
            if wfmt(w) != rfmt(r) {
                continue;
            }
            if !thorough
                && !(w == W_JSONL_VEC || w == W_JSONL_PAR || w == W_CSV_VEC || w == W_CSV_PAR
                    || w == W_CLOUD_JSONL)
            {
                continue;
            }
            for (ei, encname) in
                ["c.gz", "c.zst", "c.bz2", "c.xz", "c.GZIP", "c.zstd", "c.bzip2"].into_iter().enumerate()
            {
                for (ni, name) in raw_names.into_iter().enumerate() {
                    if !thorough && (ei + ni + (w + r) as usize) % 3 != 0 {
                        continue;
                    }
                    em.case(
                        "raw",
                        json!([r, name, ["enc", w, encname, recs_json(&body), 2], false]),
                        true,
                        &["raw", "compressed"],
                    );
                }
            }
        }
    }
    // the parquet reader has no codec layer: compressed parquet bytes are not readable,
    // plain parquet bytes are, whatever the name says (model: DNone)
    for name in ["p.parquet", "p.parquet.gz", "p.XZ"] {
        emit_rt(em, W_PARQUET_VEC, R_PARQUET_VEC, name, &body, None, false, &["parquet"]);
    }

    // 3b. the codec registry is process-wide state: scripts run in freshly spawned processes.
    //     custom codecs: (k, extensions, magic, xor key)
    let cat = |k: usize| -> Value {
        match k {
            0 => json!(["reg", 0, [".myz"], {"bytes": b"MYZ1"}, 0x55]),
            1 => json!(["reg", 1, [".my2", ".myzip"], {"bytes": b"MY2"}, 0x2a]),
            2 => json!(["reg", 2, [".nmz"], null, 0x55]),
            // extension "z": every "...gz" / "...xz" name also ends with it; magic 1f = first
            // byte of the gzip signature
            3 => json!(["reg", 3, ["z"], {"bytes": [0x1f]}, 0x33]),
            // extension ".g" = prefix of ".gz"; magic = gzip signature + one byte
            4 => json!(["reg", 4, [".g"], {"bytes": [0x1f, 0x8b, 0x08]}, 0x11]),
            // a built-in extension is a suffix of / identical to its extensions; magic "BZ"
            5 => json!(["reg", 5, [".my.gz", ".gz"], {"bytes": b"BZ"}, 0x44]),
            // an upper-case extension can never match the lower-cased path
            _ => json!(["reg", 6, [".MYU"], {"bytes": b"MYU"}, 0x21]),
        }
    };
    let quick_pairs: Vec<(i64, i64)> = vec![
        (W_JSONL_VEC, R_JSONL_VEC),
        (W_JSONL_PAR, R_JSONL_STREAM_SEQ),
        (W_CSV_VEC, R_CSV_VEC),
        (W_CSV_PAR, R_CSV_RANGE),
        (W_PC_CSV, R_PC_CSV_GLOB),
        (W_CLOUD_JSONL, R_CLOUD_JSONL),
    ];
    let proc_pairs: Vec<(i64, i64)> = if thorough {
        all_pairs.iter().copied().filter(|&(w, _)| wfmt(w) != Fmt::Parquet).collect()
    } else {
        quick_pairs
    };
    let bnames = ["b.gz", "b.ZST", "b.bz2", "b.xz", "b.GZip", "b.zstd", "b.BZIP2"];
    let rs = recs_json(&small);
    for (pi, &(w, r)) in proc_pairs.iter().enumerate() {
        let rt = |name: &str| json!(["rt", w, r, name, rs, 2]);
        let enc = |name: &str, encname: &str| {
            json!(["raw", r, name, ["enc", w, encname, rs, 2], false])
        };
        let bn = |i: usize| bnames[(pi + i) % bnames.len()];
        let mut scripts: Vec<(Vec<Value>, &str)> = Vec::new();
        // baseline: a fresh process that registers nothing
        scripts.push((vec![rt(bn(0))], "no-registration"));
        scripts.push((vec![enc("n.dat", bn(1))], "no-registration"));
        // register, THEN the first I/O of the process uses a built-in extension
        for (j, k) in [0usize, 3, 5, 2].into_iter().enumerate() {
            scripts.push((vec![cat(k), rt(bn(j))], "register-then-builtin-io"));
        }
        // register, THEN the first read is of signature-carrying content under a neutral name
        for (j, k) in [0usize, 3, 4, 5].into_iter().enumerate() {
            scripts.push((vec![cat(k), enc("n.dat", bn(j + 2))], "register-then-neutral-read"));
        }
        // built-in I/O, register, built-in I/O again, then the custom codec itself
        scripts.push((
            vec![rt(bn(2)), cat(0), rt(bn(3)), rt("c.myz"), enc("n", bn(4))],
            "io-register-io",
        ));
        scripts.push((
            vec![enc("n.dat", bn(5)), cat(0), enc("n.dat", bn(6)), enc("n.dat", "c.myz"),
                 enc("n.gz", "c.myz"), enc("n.myz", bn(0))],
            "read-register-read",
        ));
        // register twice (the same codec, two different codecs)
        scripts.push((vec![cat(0), cat(0), rt(bn(1)), rt("c.MYZ")], "register-twice"));
        scripts.push((
            vec![cat(0), cat(1), rt(bn(2)), rt("c.myz"), rt("c.my2"), rt("c.MyZip"),
                 enc("n.dat", "c.my2")],
            "register-two",
        ));
        // the custom codec's own round trip, by extension and by magic
        for (k, name) in [(0usize, "c.myz"), (2, "c.nmz"), (3, "c.abz"), (4, "c.g"), (5, "c.my.gz"),
                          (5, "c.gz"), (6, "c.myu"), (3, "c.xz"), (1, "c.jsonl.MYZIP")]
        {
            scripts.push((vec![cat(k), rt(name), enc("n.dat", name)], "custom-roundtrip"));
        }
        // registered but not involved: neutral names, plain content
        scripts.push((vec![cat(0), cat(3), rt("p.dat"), rt("p.gzz")], "register-then-neutral-io"));
        for (steps, tag) in scripts {
            let nt = steps.iter().any(|s| s[0] == "reg");
            em.case("proc", json!([steps]), nt, &["proc", tag]);
        }
    }


    // 3c. the SIZE dimension: payloads described by generator parameters, text sizes 0 B .. 4 MiB
    //     across every power of two (2^k - 1, 2^k, 2^k + 1), three shapes (many short records,
    //     1500-byte records, one to three huge records: a single line longer than any buffer),
    //     three compressibility classes, every entry point, every codec by extension and by
    //     signature under a neutral name.
    let np_pairs: Vec<(i64, i64)> =
        all_pairs.iter().copied().filter(|&(w, _)| wfmt(w) != Fmt::Parquet).collect();
    let sweep_seed = seed.wrapping_mul(0x9E37_79B9).wrapping_add(0xC10) & 0xFFFF_FFFF;
    let mut e_no: usize = (seed as usize).wrapping_mul(7) % 504;
    let mut b_no: usize = 0;
    let small_entries = if thorough { 56 } else { 16 };
    let mut small_targets: Vec<usize> = vec![0];
    for k in 0..=16u32 {
        for d in [-1i64, 0, 1] {
            let t = (1i64 << k) + d;
            if t > 0 && !small_targets.contains(&(t as usize)) {
                small_targets.push(t as usize);
            }
        }
    }
    for (ti, &target) in small_targets.iter().enumerate() {
        for shape in 0..3usize {
            if shape == 1 && target < 4096 {
                continue;
            }
            for mode in 0..3i64 {
                // quick tier: compressible and incompressible for the many-records shape, one of
                // the two (alternating) for the other shapes, four-distinct-keys now and then
                let keep = thorough
                    || match mode {
                        1 => (ti + shape) % 5 == 0,
                        m => shape == 0 || (ti + shape + m as usize / 2 + seed as usize) % 2 == 0,
                    };
                if !keep {
                    continue;
                }
                let csv = b_no % 2 == 1;
                let g = solve_gen(mode, sweep_seed + b_no as u64, target, csv, shape, 1 + b_no % 3);
                let mut entries = Vec::new();
                for _ in 0..small_entries {
                    let (w, r) = np_pairs[e_no % np_pairs.len()];
                    // a mismatching name (variants 9..) once in a while
                    let variant = if e_no % 41 == 40 { 9 + e_no % 4 } else { e_no % 9 };
                    let (wn, rn) = variant_names(wfmt(w), variant, e_no / 9);
                    entries.push(json!([w, r, wn, rn, SHARD_OPTS[(e_no / 3) % 5]]));
                    e_no += 1;
                }
                if b_no % 8 == 0 {
                    let (wn, rn) = variant_names(Fmt::Parquet, [0, 1, 3][b_no / 8 % 3], b_no);
                    entries.push(json!([W_PARQUET_VEC, R_PARQUET_VEC, wn, rn, null]));
                }
                emit_big(em, &g, entries, &["size", "small"]);
                b_no += 1;
            }
        }
    }
    // 128 KiB .. 4 MiB: every reader x three name variants per bucket (rotating so that every
    // (reader, variant) meets every size class, shape and compressibility), two writers per format
    let mut big_targets: Vec<usize> = vec![
        (1 << 17) + 1, (1 << 18) - 1, 1 << 19, (1 << 20) - 1, 1 << 20, (1 << 20) + 1, 1_280_000,
        (1 << 21) + 1, 3 * (1 << 20) + 17, (1 << 22) + 1,
    ];
    if thorough {
        big_targets.extend([(1 << 23) + 1, (1 << 24) - 1]);
    }
    let mut large: Vec<(Gen, Vec<Value>)> = Vec::new();
    let jw = [W_JSONL_VEC, W_JSONL_PAR, W_PC_JSONL, W_PC_JSONL_PAR];
    let cw = [W_CSV_VEC, W_CSV, W_CSV_PAR, W_PC_CSV, W_PC_CSV_PAR];
    for (ti, &target) in big_targets.iter().enumerate() {
        for shape in 0..4usize {
            for mode in 0..3i64 {
                let keep = if thorough {
                    shape != 3 || (ti >= 5 && mode != 1)
                } else if shape == 3 {
                    // one-character keys: 50 000 records at 1 MiB, 100 000 at 2 MiB
                    (ti == 5 && mode != 1) || (ti == 7 && mode == 0)
                } else {
                    match mode {
                        0 => (ti + shape + seed as usize) % 3 != 0,
                        2 => shape != 1 && [0usize, 5].contains(&ti),
                        _ => shape == (ti % 2) && (ti == 6 || ti == 9),
                    }
                };
                if !keep || (mode == 2 && target > (1 << 22) + 1) {
                    continue;
                }
                let csv = (ti + shape) % 2 == 1;
                let g = solve_gen(mode, sweep_seed + 1000 + b_no as u64, target, csv, shape, 1 + (ti + mode as usize) % 3);
                let mut entries = Vec::new();
                for r in READERS {
                    if rfmt(r) == Fmt::Parquet {
                        continue;
                    }
                    for t in 0..3usize {
                        // below 1 MiB two of the three variants (thorough: all)
                        if !thorough && ti < 3 && t == (b_no + r as usize) % 3 {
                            continue;
                        }
                        // (2 * shape: not aliased with the quick tier's choice of (size, shape) pairs above)
                        let variant = (ti + 2 * shape + mode as usize + r as usize + seed as usize) % 3 + 3 * t;
                        // one writer per format and bucket (thorough: two)
                        let q = if thorough { (r as usize + t) % 2 } else { 0 };
                        let w = match rfmt(r) {
                            Fmt::Jsonl => jw[(b_no + q) % 4],
                            Fmt::Csv => cw[(b_no + q) % 5],
                            _ => W_CLOUD_JSONL,
                        };
                        let (wn, rn) = variant_names(rfmt(r), variant, b_no + t);
                        entries.push(json!([w, r, wn, rn, SHARD_OPTS[(b_no + t) % 5]]));
                    }
                }
                if b_no % 4 == 0 {
                    entries.push(json!([W_PARQUET_VEC, R_PARQUET_VEC, "s.parquet", "s.parquet", null]));
                }
                large.push((g, entries));
                b_no += 1;
            }
        }
    }
    // run the large cases six at a time (each is parallel inside, but its critical path - the
    // slowest single write, then the slowest single read - leaves most cores idle), then emit
    {
        use rayon::prelude::*;
        for chunk in large.chunks(6) {
            let outs: Vec<(String, Option<Value>)> = chunk
                .par_iter()
                .map(|(g, entries)| {
                    let key = json!([g.json(), entries]).to_string();
                    let out = catch_unwind(AssertUnwindSafe(|| run_big(g, entries))).ok();
                    (key, out)
                })
                .collect();
            {
                let mut c = BIG_CACHE.lock().unwrap();
                let m = c.get_or_insert_with(Default::default);
                for (k, v) in outs {
                    if let Some(v) = v {
                        m.insert(k, v);
                    }
                }
            }
            for (g, entries) in chunk {
                emit_big(em, g, entries.clone(), &["size", "large"]);
            }
        }
    }

    // 3d. a second write to the SAME name (same directory / same object store): same length and
    //     different content, shorter, longer, empty after non-empty and back
    let rw_names = |f: Fmt, i: usize| -> String { variant_names(f, [0, 1, 2, 3, 4, 0][i % 6], i / 6).0 };
    let mut rw_no = seed as usize % 7;
    for (pi, &(w, r)) in all_pairs.iter().enumerate() {
        let f = wfmt(w);
        // quick tier: one reader per writer (rotating), every reader for the cloud writer
        if !thorough && f != Fmt::Cloud && (pi + w as usize + seed as usize) % 6 != 0 {
            continue;
        }
        let shapes: [(Gen, Gen); 7] = [
            // same text length, different content
            (Gen { mode: 2, n: 5, klen: 9, seed: 11, k0len: 9 }, Gen { mode: 2, n: 5, klen: 9, seed: 12, k0len: 9 }),
            (Gen { mode: 0, n: 1, klen: 1, seed: 0, k0len: 40 }, Gen { mode: 1, n: 1, klen: 1, seed: 0, k0len: 40 }),
            (Gen { mode: 2, n: 300, klen: 30, seed: 5, k0len: 30 }, Gen { mode: 2, n: 300, klen: 30, seed: 6, k0len: 30 }),
            // longer then shorter (truncation), shorter then longer
            (Gen { mode: 2, n: 400, klen: 30, seed: 7, k0len: 30 }, Gen { mode: 1, n: 3, klen: 4, seed: 0, k0len: 4 }),
            (Gen { mode: 1, n: 3, klen: 4, seed: 0, k0len: 4 }, Gen { mode: 2, n: 400, klen: 30, seed: 8, k0len: 30 }),
            // non-empty then empty (n = 0 branch of the parallel writers), empty then non-empty
            (Gen { mode: 2, n: 50, klen: 20, seed: 9, k0len: 20 }, Gen { mode: 0, n: 0, klen: 1, seed: 0, k0len: 1 }),
            (Gen { mode: 0, n: 0, klen: 1, seed: 0, k0len: 1 }, Gen { mode: 2, n: 50, klen: 20, seed: 10, k0len: 20 }),
        ];
        for (si, (ga, gb)) in shapes.iter().enumerate() {
            let name = if f == Fmt::Parquet { "s.parquet".to_string() } else { rw_names(f, rw_no) };
            rw_no += 1;
            em.case(
                "rewrite",
                json!([w, r, name, ga.json(), gb.json(), SHARD_OPTS[(rw_no + si) % 5]]),
                true,
                &["rewrite", ["same-length", "same-length", "same-length", "shorter", "longer", "to-empty", "from-empty"][si]],
            );
        }
    }

    // 4. seeded random: names built from extension fragments with random edits; random pairs
    let mut rng = SplitMix64::new(seed ^ 0xC10);
    let n = if thorough { 6000 } else { 700 };
    let alphabet: Vec<char> = ".gzipstdbx2GZIPSTDBX_ -7a".chars().collect();
    for _ in 0..n {
        let &(w, r) = rng.pick(&all_pairs);
        if wfmt(w) == Fmt::Parquet {
            continue;
        }
        let mut name: Vec<char> = stem_for(wfmt(w), rng.below(4) as usize).chars().collect();
        let ci = rng.below(4) as usize;
        let ext = *rng.pick(EXTS[ci]);
        let mut e: Vec<char> = ext
            .chars()
            .map(|c| if rng.chance(1, 3) { c.to_ascii_uppercase() } else { c })
            .collect();
        match rng.below(6) {
            0 => {
                let i = rng.below(e.len() as u64) as usize;
                e.remove(i);
            }
            1 => {
                let i = rng.below(e.len() as u64 + 1) as usize;
                e.insert(i, *rng.pick(&alphabet));
            }
            2 => {
                let i = rng.below(e.len() as u64) as usize;
                e[i] = *rng.pick(&alphabet);
            }
            3 => {
                let cj = rng.below(4) as usize;
                let ext2 = *rng.pick(EXTS[cj]);
                e.extend(ext2.chars());
            }
            _ => {}
        }
        name.extend(e);
        let name: String = name.into_iter().collect();
        if name.is_empty() {
            continue;
        }
        let key = *rng.pick(&csv_keys);
        let cnt = rng.below(4) as usize;
        let mut rs = rows(&[key, "q", "r"]);
        rs.truncate(cnt);
        let shards = if rng.chance(1, 4) { None } else { Some(rng.range(1, 4) as usize) };
        emit_rt(em, w, r, &name, &rs, shards, true, &["random"]);
    }
    // random raw first lines over the signature bytes, for the readers that can skip line 0
    let sig_bytes: Vec<u8> =
        SIGS.iter().flat_map(|s| s.iter().copied()).chain([b'9', b'B']).collect();
    let m = if thorough { 4000 } else { 500 };
    for _ in 0..m {
        let r = *rng.pick(&[
            R_CSV_VEC, R_CSV_RANGE, R_PC_CSV, R_PC_CSV_GLOB, R_CSV_STREAM_SEQ, R_CSV_STREAM_PAR,
            R_JSONL_RANGE,
        ]);
        let len = rng.range(1, 7) as usize;
        let base = *rng.pick(&SIGS);
        let mut p: Vec<u8> = (0..len)
            .map(|i| if i < base.len() && rng.chance(4, 5) { base[i] } else { *rng.pick(&sig_bytes) })
            .collect();
        if rfmt(r) == Fmt::Csv {
            p.extend_from_slice(b",h");
        }
        p.push(b'\n');
        p.extend_from_slice(&if rfmt(r) == Fmt::Csv { csv_text(&body) } else { jsonl_text(&body) });
        let name = *rng.pick(&["q.dat", "q", "q.csv", "q.gz", "q.bz2"]);
        emit_lit(em, r, name, &p, true, &["raw", "random-prefix"]);
    }
}

fn main() {
    if std::env::args().nth(1).as_deref() == Some("--child") {
        child_main();
        return;
    }
    let _ = std::fs::create_dir_all(scratch_root());
    drive(&generate, &run);
    let _ = std::fs::remove_dir_all(scratch_root());
}
