//! C20: the shipped test assertions accept exactly equal collections.
//! Runs the REAL ironbeam::testing assertions; `true` = returned, `false` = panicked.
use ibv::{Emitter, SplitMix64, Tier, drive};
use ironbeam::testing::{
    assert_all, assert_any, assert_collection_size, assert_collections_equal,
    assert_collections_unordered_equal, assert_contains, assert_csv_equals,
    assert_grouped_kv_equal, assert_jsonl_equals, assert_kv_collections_equal, assert_maps_equal,
    assert_none, mock_csv_file, mock_jsonl_file,
};
use serde_json::{Value, json};
use std::cell::Cell;
use std::collections::HashMap;
use std::fmt::Debug;
use std::hash::{BuildHasher, Hash, Hasher};
use std::panic::{AssertUnwindSafe, catch_unwind};

/// an element type whose Hash is deliberately coarser than its Eq
#[derive(Debug, Clone, PartialEq, Eq)]
struct Coarse(i64);
impl std::hash::Hash for Coarse {
    fn hash<H: std::hash::Hasher>(&self, state: &mut H) {
        (self.0.rem_euclid(3)).hash(state);
    }
}

impl PartialOrd for Coarse {
    fn partial_cmp(&self, o: &Self) -> Option<std::cmp::Ordering> {
        Some(self.cmp(o))
    }
}
impl Ord for Coarse {
    fn cmp(&self, o: &Self) -> std::cmp::Ordering {
        self.0.cmp(&o.0)
    }
}

/// Element types of the typed kinds. `mk(v, tag)`: equality / order / hash are those of `v`; the
/// tag is different for every element of a case.
trait Elt: Debug + Clone + Eq + Hash + Ord {
    fn mk(v: i64, tag: i64) -> Self;
}
impl Elt for i64 {
    fn mk(v: i64, _: i64) -> Self {
        v
    }
}
impl Elt for Coarse {
    fn mk(v: i64, _: i64) -> Self {
        Coarse(v)
    }
}
/// Eq / Ord / Hash look at `v` only while Debug prints the tag too (Eq coarser than Debug)
#[derive(Debug, Clone)]
struct Tagged {
    v: i64,
    #[allow(dead_code)]
    tag: i64,
}
impl PartialEq for Tagged {
    fn eq(&self, o: &Self) -> bool {
        self.v == o.v
    }
}
impl Eq for Tagged {}
impl Hash for Tagged {
    fn hash<H: Hasher>(&self, state: &mut H) {
        self.v.hash(state);
    }
}
impl PartialOrd for Tagged {
    fn partial_cmp(&self, o: &Self) -> Option<std::cmp::Ordering> {
        Some(self.cmp(o))
    }
}
impl Ord for Tagged {
    fn cmp(&self, o: &Self) -> std::cmp::Ordering {
        self.v.cmp(&o.v)
    }
}
impl Elt for Tagged {
    fn mk(v: i64, tag: i64) -> Self {
        Tagged { v, tag }
    }
}
/// Debug prints the same text for every value (Debug coarser than Eq)
#[derive(Clone, PartialEq, Eq, PartialOrd, Ord, Hash)]
struct Opaque(i64);
impl Debug for Opaque {
    fn fmt(&self, f: &mut std::fmt::Formatter<'_>) -> std::fmt::Result {
        write!(f, "_")
    }
}
impl Elt for Opaque {
    fn mk(v: i64, _: i64) -> Self {
        Opaque(v)
    }
}
impl Elt for String {
    fn mk(v: i64, _: i64) -> Self {
        format!("s{v:07}")
    }
}
/// every value has the same hash
#[derive(Debug, Clone, PartialEq, Eq, PartialOrd, Ord)]
struct Collide(i64);
impl Hash for Collide {
    fn hash<H: Hasher>(&self, state: &mut H) {
        0u8.hash(state);
    }
}
impl Elt for Collide {
    fn mk(v: i64, _: i64) -> Self {
        Collide(v)
    }
}
/// PartialEq only, and not reflexive: a negative value is not equal to anything (like a NaN)
#[derive(Debug, Clone)]
struct Irr(i64);
impl PartialEq for Irr {
    fn eq(&self, o: &Self) -> bool {
        self.0 >= 0 && self.0 == o.0
    }
}

/// BuildHashers for the maps: every key in one bucket chain / two hash values only
#[derive(Default, Clone)]
struct ConstState;
struct ConstHasher;
impl Hasher for ConstHasher {
    fn write(&mut self, _: &[u8]) {}
    fn finish(&self) -> u64 {
        0
    }
}
impl BuildHasher for ConstState {
    type Hasher = ConstHasher;
    fn build_hasher(&self) -> ConstHasher {
        ConstHasher
    }
}
#[derive(Default, Clone)]
struct LowBitState;
struct LowBitHasher(u64);
impl Hasher for LowBitHasher {
    fn write(&mut self, b: &[u8]) {
        for x in b {
            self.0 = self.0.wrapping_add(*x as u64);
        }
    }
    fn finish(&self) -> u64 {
        self.0 & 1
    }
}
impl BuildHasher for LowBitState {
    type Hasher = LowBitHasher;
    fn build_hasher(&self) -> LowBitHasher {
        LowBitHasher(0)
    }
}

macro_rules! by_ty {
    ($tyid:expr, $f:ident, $($arg:expr),*) => {
        match $tyid {
            0 => $f::<i64>($($arg),*),
            1 => $f::<Coarse>($($arg),*),
            2 => $f::<Tagged>($($arg),*),
            3 => $f::<Opaque>($($arg),*),
            4 => $f::<String>($($arg),*),
            5 => $f::<Collide>($($arg),*),
            _ => json!(["invalid"]),
        }
    };
}

fn mk_vec<T: Elt>(vs: &[i64], side: i64) -> Vec<T> {
    vs.iter().enumerate().map(|(i, &v)| T::mk(v, side * 1_000_000 + i as i64)).collect()
}
fn mk_kvs<T: Elt>(vs: &[(i64, i64)], side: i64) -> Vec<(T, T)> {
    vs.iter()
        .enumerate()
        .map(|(i, &(k, v))| {
            (T::mk(k, side * 1_000_000 + 2 * i as i64), T::mk(v, side * 1_000_000 + 2 * i as i64 + 1))
        })
        .collect()
}
fn mk_groups<T: Elt>(gs: &[(i64, Vec<i64>)], side: i64) -> Vec<(T, Vec<T>)> {
    gs.iter()
        .enumerate()
        .map(|(i, (k, vs))| {
            let base = side * 1_000_000 + 1000 * i as i64;
            (T::mk(*k, base), vs.iter().enumerate().map(|(j, &v)| T::mk(v, base + 1 + j as i64)).collect())
        })
        .collect()
}

/// ordered (aid 0) / unordered (aid 1) assertion on typed elements
fn seq_assert<T: Elt>(aid: i64, a: &[i64], b: &[i64]) -> Value {
    let (a, b) = (mk_vec::<T>(a, 1), mk_vec::<T>(b, 2));
    if aid == 0 {
        accepts_v(|| assert_collections_equal(&a, &b))
    } else {
        accepts_v(|| assert_collections_unordered_equal(&a, &b))
    }
}
fn seq_row<T: Elt>(aid: i64, a: &[i64], bs: &[Vec<i64>]) -> Value {
    Value::Array(bs.iter().map(|b| seq_assert::<T>(aid, a, b)).collect())
}
fn kv_assert<T: Elt>(a: &[(i64, i64)], b: &[(i64, i64)]) -> Value {
    let (a, b) = (mk_kvs::<T>(a, 1), mk_kvs::<T>(b, 2));
    accepts_v(|| assert_kv_collections_equal(a.clone(), b.clone()))
}
fn grouped_assert<T: Elt>(a: &[(i64, Vec<i64>)], b: &[(i64, Vec<i64>)]) -> Value {
    let (a, b) = (mk_groups::<T>(a, 1), mk_groups::<T>(b, 2));
    accepts_v(|| assert_grouped_kv_equal(a.clone(), b.clone()))
}
fn contains_row<T: Elt>(l: &[i64], xs: &[i64]) -> Value {
    let l = mk_vec::<T>(l, 1);
    Value::Array(
        xs.iter()
            .map(|&x| {
                let x = T::mk(x, 2_000_000);
                accepts_v(|| assert_contains(&l, &x))
            })
            .collect(),
    )
}
fn build_map<T: Elt, S: BuildHasher + Default>(ins: &[(i64, i64)], side: i64) -> HashMap<T, T, S> {
    let mut m: HashMap<T, T, S> = HashMap::default();
    for (k, v) in mk_kvs::<T>(ins, side) {
        m.insert(k, v);
    }
    m
}
fn maps_row<T: Elt, S: BuildHasher + Default>(ia: &[(i64, i64)], ies: &[Vec<(i64, i64)>]) -> Value {
    let a = build_map::<T, S>(ia, 1);
    Value::Array(
        ies.iter()
            .map(|ie| {
                let e = build_map::<T, S>(ie, 2);
                accepts_v(|| assert_maps_equal(&a, &e))
            })
            .collect(),
    )
}
fn maps_row_h<T: Elt>(hid: i64, ia: &[(i64, i64)], ies: &[Vec<(i64, i64)>]) -> Value {
    match hid {
        0 => maps_row::<T, std::collections::hash_map::RandomState>(ia, ies),
        1 => maps_row::<T, ConstState>(ia, ies),
        2 => maps_row::<T, LowBitState>(ia, ies),
        _ => json!(["invalid"]),
    }
}

/// assert_all (fid 0) / assert_any (1) / assert_none (2) on 0..n with the predicate `truth`;
/// observed = [accepted, number of predicate calls]
fn pred_run(fid: i64, n: usize, truth: &dyn Fn(usize) -> bool) -> Value {
    let coll: Vec<i64> = (0..n as i64).collect();
    let calls = Cell::new(0i64);
    let p = |x: &i64| {
        calls.set(calls.get() + 1);
        truth(*x as usize)
    };
    let once = || {
        calls.set(0);
        let ok = catch_unwind(AssertUnwindSafe(|| match fid {
            0 => assert_all(&coll, &p),
            1 => assert_any(&coll, &p),
            _ => assert_none(&coll, &p),
        }))
        .is_ok();
        (ok, calls.get())
    };
    let r1 = once();
    let r2 = once();
    if r1 == r2 { json!([r1.0, r1.1]) } else { json!("unstable") }
}

/// -1 stands for usize::MAX (JSON integers stay below 2^62)
fn usz(v: &Value) -> Option<usize> {
    match v.as_i64()? {
        -1 => Some(usize::MAX),
        x if x >= 0 => Some(x as usize),
        _ => None,
    }
}
/// a Vec of n zero-sized elements without an n-step loop
fn zst_vec(n: usize) -> Vec<()> {
    let mut v: Vec<()> = Vec::new();
    // SAFETY: () is zero-sized: the capacity of Vec<()> is usize::MAX and there is nothing to initialise
    unsafe { v.set_len(n) };
    v
}

// ---------- file-content assertions ----------
#[derive(Clone, serde::Serialize, serde::Deserialize)]
struct Rec {
    id: i64,
    name: String,
}
/// names are compared without regard to ASCII case (Eq coarser than the text in the file) ...
impl PartialEq for Rec {
    fn eq(&self, o: &Self) -> bool {
        self.id == o.id && self.name.eq_ignore_ascii_case(&o.name)
    }
}
/// ... and Debug does not show the name at all
impl Debug for Rec {
    fn fmt(&self, f: &mut std::fmt::Formatter<'_>) -> std::fmt::Result {
        write!(f, "Rec#{}", self.id)
    }
}
/// name table; index 2 equals index 1 under Rec's PartialEq; index 8 is longer than an I/O buffer
fn name_of(i: i64) -> Option<String> {
    Some(match i {
        0 => String::new(),
        1 => "a".into(),
        2 => "A".into(),
        3 => "b,c".into(),
        4 => "q\"t".into(),
        5 => "two\nlines".into(),
        6 => " sp ".into(),
        7 => "\u{fc}n\u{ef}".into(),
        8 => "x".repeat(9000),
        _ => return None,
    })
}
fn rec_of(v: &Value) -> Option<Rec> {
    let p = v.as_array()?;
    if p.len() != 2 {
        return None;
    }
    Some(Rec { id: p[0].as_i64()?, name: name_of(p[1].as_i64()?)? })
}
fn recs_of(v: &Value) -> Option<Vec<Rec>> {
    v.as_array()?.iter().map(rec_of).collect()
}
fn csv_field(s: &str) -> String {
    if s.contains([',', '"', '\n', '\r']) {
        format!("\"{}\"", s.replace('"', "\"\""))
    } else {
        s.to_string()
    }
}
/// text of one line descriptor: [id, name] record, -1 empty line, -2 blanks only, -3 malformed,
/// -4 the csv header row
fn render_line(fmt: i64, d: &Value) -> Option<String> {
    if let Some(r) = rec_of(d) {
        return Some(if fmt == 0 {
            serde_json::to_string(&r).ok()?
        } else {
            format!("{},{}", r.id, csv_field(&r.name))
        });
    }
    Some(match d.as_i64()? {
        -1 => String::new(),
        -2 => "   ".into(),
        -3 => if fmt == 0 { "{".into() } else { "1,x,y".into() },
        -4 => "id,name".into(),
        _ => return None,
    })
}
fn scratch_dir() -> &'static tempfile::TempDir {
    static D: std::sync::OnceLock<tempfile::TempDir> = std::sync::OnceLock::new();
    D.get_or_init(|| tempfile::tempdir().expect("tempdir"))
}
/// eol 0: "\n" after every line; 1: "\r\n"; 2: "\n" but nothing after the last line
fn write_lines(fmt: i64, eol: i64, lines: &[String]) -> std::path::PathBuf {
    static N: std::sync::atomic::AtomicU64 = std::sync::atomic::AtomicU64::new(0);
    let n = N.fetch_add(1, std::sync::atomic::Ordering::Relaxed);
    let path = scratch_dir().path().join(format!("f{n}.{}", if fmt == 0 { "jsonl" } else { "csv" }));
    let mut text = String::new();
    for (i, l) in lines.iter().enumerate() {
        text.push_str(l);
        if eol == 2 && i + 1 == lines.len() {
            break;
        }
        text.push_str(if eol == 1 { "\r\n" } else { "\n" });
    }
    std::fs::write(&path, text).expect("write scratch file");
    path
}
fn file_assert(fmt: i64, path: &std::path::Path, expected: &[Rec]) -> Value {
    let big = expected.len() > 5000;
    if fmt == 0 {
        accepts_big(big, || assert_jsonl_equals(path, expected))
    } else {
        accepts_big(big, || assert_csv_equals(path, expected))
    }
}
/// records i -> (i, i mod 8) (name 8, the long one, at i = 5 when `long_name`), and the expected
/// list derived from them: mode 0 same, 1 id changed at pos, 2 name changed at pos, 3 last record
/// dropped, 4 one record appended, 5 record at pos dropped, 6 record at pos duplicated
fn long_data(n: usize) -> Vec<Rec> {
    (0..n as i64).map(|i| Rec { id: i, name: name_of(i % 8).unwrap() }).collect()
}
fn long_expected(data: &[Rec], mode: i64, pos: usize) -> Option<Vec<Rec>> {
    let mut e = data.to_vec();
    match mode {
        0 => {}
        1 => e.get_mut(pos)?.id += 1_000_000,
        2 => {
            let r = e.get_mut(pos)?;
            r.name = name_of((pos as i64 % 8 + 3) % 8).unwrap();
        }
        3 => {
            e.pop()?;
        }
        4 => e.push(Rec { id: -5, name: "a".into() }),
        5 => {
            if pos >= e.len() {
                return None;
            }
            e.remove(pos);
        }
        6 => {
            let r = e.get(pos)?.clone();
            e.insert(pos, r);
        }
        _ => return None,
    }
    Some(e)
}

/// `true` = the assertion returned, `false` = it panicked. Every assertion is a pure function of its
/// arguments, so it is called twice; a second answer that differs from the first is reported as
/// the string "unstable" (never agrees with the model).
fn accepts_v(f: impl Fn()) -> Value {
    let r1 = catch_unwind(AssertUnwindSafe(&f)).is_ok();
    let r2 = catch_unwind(AssertUnwindSafe(&f)).is_ok();
    if r1 == r2 { Value::Bool(r1) } else { json!("unstable") }
}
/// as accepts_v, but a single call when the input is big (the panic message of a failing assertion
/// formats whole collections)
fn accepts_big(big: bool, f: impl Fn()) -> Value {
    if big { Value::Bool(catch_unwind(AssertUnwindSafe(&f)).is_ok()) } else { accepts_v(f) }
}
fn accepts(f: impl FnOnce()) -> bool {
    catch_unwind(AssertUnwindSafe(f)).is_ok()
}

/// all sequences over `syms` of length 0..=maxlen; by length, first element slowest
fn all_seqs<T: Clone>(syms: &[T], maxlen: usize) -> Vec<Vec<T>> {
    let mut out = Vec::new();
    let mut cur: Vec<Vec<T>> = vec![vec![]];
    out.extend(cur.iter().cloned());
    for _ in 0..maxlen {
        // prepend-free construction that keeps "first element slowest": extend on the right
        // of sequences enumerated in the same order
        let mut next = Vec::new();
        for s in &cur {
            for x in syms {
                let mut t = s.clone();
                t.push(x.clone());
                next.push(t);
            }
        }
        out.extend(next.iter().cloned());
        cur = next;
    }
    out
}

fn ints(v: &Value) -> Vec<i64> {
    v.as_array().unwrap().iter().map(|x| x.as_i64().unwrap()).collect()
}
fn kvs(v: &Value) -> Vec<(i64, i64)> {
    v.as_array()
        .unwrap()
        .iter()
        .map(|p| (p[0].as_i64().unwrap(), p[1].as_i64().unwrap()))
        .collect()
}
fn groups(v: &Value) -> Vec<(i64, Vec<i64>)> {
    v.as_array().unwrap().iter().map(|p| (p[0].as_i64().unwrap(), ints(&p[1]))).collect()
}

fn acc01(aid: i64, a: &[i64], b: &[i64]) -> bool {
    if aid == 0 {
        accepts(|| assert_collections_equal(a, b))
    } else {
        accepts(|| assert_collections_unordered_equal(a, b))
    }
}

fn run(kind: &str, input: &Value) -> Value {
    match kind {
        "row" => {
            let aid = input[0].as_i64().unwrap();
            let a = ints(&input[1]);
            let syms: Vec<i64> = (0..input[2].as_i64().unwrap()).collect();
            let bs = all_seqs(&syms, input[3].as_u64().unwrap() as usize);
            Value::Array(bs.iter().map(|b| Value::Bool(acc01(aid, &a, b))).collect())
        }
        "rowkv" => {
            let a = kvs(&input[0]);
            let (nk, nv) = (input[1].as_i64().unwrap(), input[2].as_i64().unwrap());
            let syms: Vec<(i64, i64)> =
                (0..nk).flat_map(|k| (0..nv).map(move |v| (k, v))).collect();
            let bs = all_seqs(&syms, input[3].as_u64().unwrap() as usize);
            Value::Array(
                bs.iter()
                    .map(|b| {
                        Value::Bool(accepts(|| assert_kv_collections_equal(a.clone(), b.clone())))
                    })
                    .collect(),
            )
        }
        "rowg" => {
            let a = groups(&input[0]);
            let (nk, nv) = (input[1].as_i64().unwrap(), input[2].as_i64().unwrap());
            let vsyms: Vec<i64> = (0..nv).collect();
            let vss = all_seqs(&vsyms, input[3].as_u64().unwrap() as usize);
            let syms: Vec<(i64, Vec<i64>)> =
                (0..nk).flat_map(|k| vss.iter().map(move |vs| (k, vs.clone()))).collect();
            let bs = all_seqs(&syms, input[4].as_u64().unwrap() as usize);
            Value::Array(
                bs.iter()
                    .map(|b| Value::Bool(accepts(|| assert_grouped_kv_equal(a.clone(), b.clone()))))
                    .collect(),
            )
        }
        "pair" => {
            let aid = input[0].as_i64().unwrap();
            Value::Bool(match aid {
                0 | 1 => acc01(aid, &ints(&input[1]), &ints(&input[2])),
                2 => accepts(|| assert_kv_collections_equal(kvs(&input[1]), kvs(&input[2]))),
                _ => accepts(|| assert_grouped_kv_equal(groups(&input[1]), groups(&input[2]))),
            })
        }
        // elements whose Hash is coarser than Eq (hash = value mod 3): in = [aid, a, b]
        "pairc" => {
            let aid = input[0].as_i64().unwrap();
            let a: Vec<Coarse> = ints(&input[1]).into_iter().map(Coarse).collect();
            let b: Vec<Coarse> = ints(&input[2]).into_iter().map(Coarse).collect();
            Value::Bool(if aid == 0 {
                accepts(|| assert_collections_equal(&a, &b))
            } else {
                accepts(|| assert_collections_unordered_equal(&a, &b))
            })
        }
        // long sequences: in = [aid, n, diffs]; a[i] = i mod 5, b[i] = a[i] except (a[i]+1) mod 5 at
        // the listed positions
        "long" => {
            let aid = input[0].as_i64().unwrap();
            let n = input[1].as_u64().unwrap() as usize;
            let diffs = ints(&input[2]);
            let a: Vec<i64> = (0..n as i64).map(|i| i % 5).collect();
            let b: Vec<i64> = (0..n as i64)
                .map(|i| if diffs.contains(&i) { (i % 5 + 1) % 5 } else { i % 5 })
                .collect();
            Value::Bool(acc01(aid, &a, &b))
        }
        // two slices of ONE buffer: in = [aid, v, i, j] -> assert(&v[..i], &v[..j])
        "alias" => {
            let aid = input[0].as_i64().unwrap();
            let v = ints(&input[1]);
            let (i, j) = (input[2].as_u64().unwrap() as usize, input[3].as_u64().unwrap() as usize);
            if i > v.len() || j > v.len() {
                return json!(["invalid"]);
            }
            Value::Bool(acc01(aid, &v[..i], &v[..j]))
        }
        // zero-sized elements (every Vec<()> shares one dangling pointer): in = [aid, n, m]
        "zst" => {
            let aid = input[0].as_i64().unwrap();
            let a = vec![(); input[1].as_u64().unwrap() as usize];
            let b = vec![(); input[2].as_u64().unwrap() as usize];
            Value::Bool(if aid == 0 {
                accepts(|| assert_collections_equal(&a, &b))
            } else {
                accepts(|| assert_collections_unordered_equal(&a, &b))
            })
        }
        _ => run_more(kind, input).unwrap_or_else(|| json!(["invalid"])),
    }
}

fn usize_of(v: &Value) -> Option<usize> {
    v.as_u64().map(|x| x as usize)
}
fn ints_o(v: &Value) -> Option<Vec<i64>> {
    v.as_array()?.iter().map(Value::as_i64).collect()
}
fn kvs_o(v: &Value) -> Option<Vec<(i64, i64)>> {
    v.as_array()?
        .iter()
        .map(|p| {
            let p = p.as_array()?;
            if p.len() != 2 {
                return None;
            }
            Some((p[0].as_i64()?, p[1].as_i64()?))
        })
        .collect()
}
fn groups_o(v: &Value) -> Option<Vec<(i64, Vec<i64>)>> {
    v.as_array()?
        .iter()
        .map(|p| {
            let p = p.as_array()?;
            if p.len() != 2 {
                return None;
            }
            Some((p[0].as_i64()?, ints_o(&p[1])?))
        })
        .collect()
}
fn kv_syms(klo: i64, khi: i64, vlo: i64, vhi: i64) -> Vec<(i64, i64)> {
    (klo..khi).flat_map(|k| (vlo..vhi).map(move |v| (k, v))).collect()
}
/// the sizes every "long" family sweeps: around every power of two and a few others
fn sizes_upto(max: usize) -> Vec<usize> {
    let mut v = vec![0usize, 1, 2, 3, 4, 5, 7, 8, 9, 15, 16, 17, 20, 31, 32, 33, 63, 64, 65, 100];
    let mut p = 128usize;
    while p <= 65536 {
        v.extend([p - 1, p, p + 1]);
        p *= 2;
    }
    v.retain(|&n| n <= max);
    v
}
/// positions worth flipping in a sequence of length n: both ends and the neighbourhood of every
/// power of two / multiple of 64 boundary that a block-wise rewrite could mishandle
fn boundary_positions(n: usize, budget: usize) -> Vec<usize> {
    let mut v: Vec<usize> = vec![0, 1, 2, n.wrapping_sub(1), n.wrapping_sub(2), n.wrapping_sub(3), n / 2];
    let mut p = 2usize;
    while p <= n {
        v.extend([p - 1, p, p + 1, n - p, (n - p).wrapping_sub(1)]);
        p *= 2;
    }
    for c in [3usize, 5, 7, 10, 12, 24, 48, 65, 96, 100, 129, 192, 194, 1000] {
        v.push(c);
    }
    v.retain(|&x| x < n);
    v.sort_unstable();
    v.dedup();
    if v.len() > budget {
        // keep both ends and an even spread of the rest
        let step = v.len() as f64 / budget as f64;
        let mut w: Vec<usize> = (0..budget).map(|i| v[(i as f64 * step) as usize]).collect();
        w.push(*v.last().unwrap());
        w.dedup();
        v = w;
    }
    v
}

/// kv rows / groups of the long keyed cases and their modified, reversed copies
fn long_kv(n: usize, nk: i64) -> Vec<(i64, i64)> {
    (0..n as i64).map(|i| (i % nk, i % 3)).collect()
}
fn long_kv_b(a: &[(i64, i64)], nk: i64, mode: i64, pos: usize) -> Option<Vec<(i64, i64)>> {
    let mut b = a.to_vec();
    match mode {
        0 => {}
        1 => {
            let r = b.get_mut(pos)?;
            r.1 = (r.1 + 1) % 3;
        }
        2 => {
            let r = b.get_mut(pos)?;
            r.0 = (r.0 + 1) % nk;
        }
        3 => {
            b.pop()?;
        }
        4 => {
            let n = b.len();
            let r = *b.get(pos)?;
            b[(pos + 1) % n] = r;
        }
        _ => return None,
    }
    b.reverse();
    Some(b)
}
fn long_groups(n: usize) -> Vec<(i64, Vec<i64>)> {
    (0..n as i64).map(|i| (i, (0..i % 4).map(|j| (i + j) % 3).collect())).collect()
}
fn long_groups_b(a: &[(i64, Vec<i64>)], mode: i64, pos: usize) -> Option<Vec<(i64, Vec<i64>)>> {
    let mut b = a.to_vec();
    let n = b.len() as i64;
    match mode {
        0 => {}
        1 => {
            let g = b.get_mut(pos)?;
            if g.1.is_empty() {
                g.1.push(0);
            } else {
                g.1[0] = (g.1[0] + 1) % 3;
            }
        }
        2 => b.get_mut(pos)?.0 = n + pos as i64,
        3 => {
            b.pop()?;
        }
        4 => b.get_mut(pos)?.1.push(1),
        _ => return None,
    }
    b.reverse();
    for g in &mut b {
        g.1.reverse();
    }
    Some(b)
}
/// maps of the long cases: actual = {i -> i mod 7 | i < n} inserted in ascending order; expected is
/// inserted in descending order and differs by: 0 nothing, 1 value of key pos, 2 key pos replaced
/// by key n+5, 3 key pos missing, 4 extra key n+5, 5 (mirror of 2) ACTUAL has key pos replaced
fn long_map_ins(n: usize, mode: i64, pos: usize) -> Option<(Vec<(i64, i64)>, Vec<(i64, i64)>)> {
    let mut a: Vec<(i64, i64)> = (0..n as i64).map(|i| (i, i % 7)).collect();
    let mut e = a.clone();
    let fresh = n as i64 + 5;
    match mode {
        0 => {}
        1 => e.get_mut(pos)?.1 += 1,
        2 => e.get_mut(pos)?.0 = fresh,
        3 => {
            if pos >= e.len() {
                return None;
            }
            e.remove(pos);
        }
        4 => e.push((fresh, 0)),
        5 => a.get_mut(pos)?.0 = fresh,
        _ => return None,
    }
    e.reverse();
    Some((a, e))
}

fn bits(v: impl Iterator<Item = Value>) -> Option<Value> {
    Some(Value::Array(v.collect()))
}

fn run_more(kind: &str, input: &Value) -> Option<Value> {
    let inp = input.as_array()?;
    match kind {
        // typed elements: in = [aid, tyid, a, nsym, maxlen]
        "rowt" => {
            let (aid, tyid) = (inp.first()?.as_i64()?, inp.get(1)?.as_i64()?);
            let a = ints_o(inp.get(2)?)?;
            let syms: Vec<i64> = (0..inp.get(3)?.as_i64()?).collect();
            let bs = all_seqs(&syms, usize_of(inp.get(4)?)?.min(5));
            Some(by_ty!(tyid, seq_row, aid, &a, &bs))
        }
        // in = [aid, tyid, a, b]; aid 0 ordered, 1 unordered, 2 key-sorted rows, 3 grouped
        "pairt" => {
            let (aid, tyid) = (inp.first()?.as_i64()?, inp.get(1)?.as_i64()?);
            match aid {
                0 | 1 => {
                    let (a, b) = (ints_o(inp.get(2)?)?, ints_o(inp.get(3)?)?);
                    Some(by_ty!(tyid, seq_assert, aid, &a, &b))
                }
                2 => {
                    let (a, b) = (kvs_o(inp.get(2)?)?, kvs_o(inp.get(3)?)?);
                    Some(by_ty!(tyid, kv_assert, &a, &b))
                }
                3 => {
                    let (a, b) = (groups_o(inp.get(2)?)?, groups_o(inp.get(3)?)?);
                    Some(by_ty!(tyid, grouped_assert, &a, &b))
                }
                _ => None,
            }
        }
        // in = [aid, n, [diffs...]]: a[i] = i mod 5; b = a except (a[i]+1) mod 5 at the positions of one
        // diff set; one accept bit per diff set
        "longs" => {
            let aid = inp.first()?.as_i64()?;
            let n = usize_of(inp.get(1)?)?;
            if n > 70_000 {
                return None;
            }
            let a: Vec<i64> = (0..n as i64).map(|i| i % 5).collect();
            bits(inp.get(2)?.as_array()?.iter().map(|d| {
                let mut b = a.clone();
                for p in ints_o(d).unwrap_or_default() {
                    if let Some(x) = b.get_mut(p as usize) {
                        *x = (*x + 1) % 5;
                    }
                }
                if aid == 0 {
                    accepts_big(n > 5000, || assert_collections_equal(&a, &b))
                } else {
                    accepts_big(n > 5000, || assert_collections_unordered_equal(&a, &b))
                }
            }))
        }
        // in = [aid, n, nk, [[mode, pos]...]] (aid 2: key-sorted rows, 3: grouped; see long_kv_b / long_groups_b)
        "longkv" => {
            let aid = inp.first()?.as_i64()?;
            let n = usize_of(inp.get(1)?)?;
            let nk = inp.get(2)?.as_i64()?;
            if n > 5000 || nk < 1 {
                return None;
            }
            let sets = inp.get(3)?.as_array()?;
            let mut out = Vec::new();
            for s in sets {
                let (mode, pos) = (s.get(0)?.as_i64()?, usize_of(s.get(1)?)?);
                if aid == 2 {
                    let a = long_kv(n, nk);
                    let b = long_kv_b(&a, nk, mode, pos)?;
                    out.push(accepts_v(|| assert_kv_collections_equal(a.clone(), b.clone())));
                } else {
                    let a = long_groups(n);
                    let b = long_groups_b(&a, mode, pos)?;
                    out.push(accepts_v(|| assert_grouped_kv_equal(a.clone(), b.clone())));
                }
            }
            Some(Value::Array(out))
        }
        // in = [tyid, l, [x...]]: one accept bit of assert_contains(l, x) per x
        "containsrow" => {
            let tyid = inp.first()?.as_i64()?;
            let (l, xs) = (ints_o(inp.get(1)?)?, ints_o(inp.get(2)?)?);
            Some(by_ty!(tyid, contains_row, &l, &xs))
        }
        // in = [n, [pos...]]: l[i] = i mod 5 except l[pos] = 7 (pos = -1: nowhere); looking for 7
        "containslong" => {
            let n = usize_of(inp.first()?)?;
            if n > 70_000 {
                return None;
            }
            bits(ints_o(inp.get(1)?)?.into_iter().map(|pos| {
                let mut l: Vec<i64> = (0..n as i64).map(|i| i % 5).collect();
                if pos >= 0 {
                    if let Some(x) = l.get_mut(pos as usize) {
                        *x = 7;
                    }
                }
                accepts_v(|| assert_contains(&l, &7))
            }))
        }
        // in = [fid, len]: every truth vector of that length (first element slowest) -> [ok, calls]
        "predrow" => {
            let (fid, len) = (inp.first()?.as_i64()?, usize_of(inp.get(1)?)?);
            if len > 10 {
                return None;
            }
            bits((0..1usize << len).map(|m| pred_run(fid, len, &|i| (m >> (len - 1 - i)) & 1 == 1)))
        }
        // in = [fid, n, base, [flips...]]: truth(i) = base xor (i in flips) -> [ok, calls] per flip set
        "predlong" => {
            let (fid, n, base) = (inp.first()?.as_i64()?, usize_of(inp.get(1)?)?, inp.get(2)?.as_i64()? == 1);
            if n > 70_000 {
                return None;
            }
            bits(inp.get(3)?.as_array()?.iter().map(|f| {
                let flips = ints_o(f).unwrap_or_default();
                pred_run(fid, n, &|i| base ^ flips.contains(&(i as i64)))
            }))
        }
        // in = [n, zst, [m...]]: assert_collection_size(&v, m) with |v| = n (zst = 1: Vec<()>; -1 = usize::MAX)
        "sizerow" => {
            let n = usz(inp.first()?)?;
            let zst = inp.get(1)?.as_i64()? == 1;
            let ms = inp.get(2)?.as_array()?;
            if zst {
                let v = zst_vec(n);
                bits(ms.iter().map(|m| match usz(m) {
                    Some(m) => accepts_v(|| assert_collection_size(&v, m)),
                    None => json!("invalid"),
                }))
            } else {
                if n > 70_000 {
                    return None;
                }
                let v = vec![7u8; n];
                bits(ms.iter().map(|m| match usz(m) {
                    Some(m) => accepts_v(|| assert_collection_size(&v, m)),
                    None => json!("invalid"),
                }))
            }
        }
        // in = [aid, n, [m...]]: n and m zero-sized elements (ordered: any sizes as long as the element
        // walk stays short; unordered walks both sides before the length check)
        "zstrow" => {
            let aid = inp.first()?.as_i64()?;
            let n = usz(inp.get(1)?)?;
            let ms: Vec<usize> = inp.get(2)?.as_array()?.iter().map(usz).collect::<Option<_>>()?;
            // a failing assertion formats both collections into its panic message, so the lengths
            // have to stay moderate here (assert_collection_size, kind "sizerow", has no such limit)
            let cap = 1usize << 17;
            if n > cap || ms.iter().any(|&m| m > cap) {
                return None;
            }
            let a = zst_vec(n);
            bits(ms.iter().map(|&m| {
                let b = zst_vec(m);
                let big = n.max(m) > 5000;
                if aid == 0 {
                    accepts_big(big, || assert_collections_equal(&a, &b))
                } else {
                    accepts_big(big, || assert_collections_unordered_equal(&a, &b))
                }
            }))
        }
        // maps are given by their insertion sequences (a later insert under the same key overwrites)
        // in = [hid, tyid, ia, nk, nv, maxlen]: one bit per ie over the symbols (k, v), k-major
        "maprow" => {
            let (hid, tyid) = (inp.first()?.as_i64()?, inp.get(1)?.as_i64()?);
            let ia = kvs_o(inp.get(2)?)?;
            let syms = kv_syms(0, inp.get(3)?.as_i64()?.min(4), 0, inp.get(4)?.as_i64()?.min(4));
            let ies = all_seqs(&syms, usize_of(inp.get(5)?)?.min(4));
            Some(by_ty!(tyid, maps_row_h, hid, &ia, &ies))
        }
        // in = [hid, tyid, ia, ie]
        "mappair" => {
            let (hid, tyid) = (inp.first()?.as_i64()?, inp.get(1)?.as_i64()?);
            let (ia, ie) = (kvs_o(inp.get(2)?)?, kvs_o(inp.get(3)?)?);
            let r = by_ty!(tyid, maps_row_h, hid, &ia, std::slice::from_ref(&ie));
            Some(r.get(0).cloned().unwrap_or(r))
        }
        // in = [hid, tyid, n, [[mode, pos]...]] (see long_map_ins)
        "maplong" => {
            let (hid, tyid) = (inp.first()?.as_i64()?, inp.get(1)?.as_i64()?);
            let n = usize_of(inp.get(2)?)?;
            if n > 5000 {
                return None;
            }
            let mut out = Vec::new();
            for s in inp.get(3)?.as_array()? {
                let (ia, ie) = long_map_ins(n, s.get(0)?.as_i64()?, usize_of(s.get(1)?)?)?;
                let r = by_ty!(tyid, maps_row_h, hid, &ia, std::slice::from_ref(&ie));
                out.push(r.get(0).cloned().unwrap_or(r));
            }
            Some(Value::Array(out))
        }
        // elements with a PartialEq that is not reflexive (negative values equal nothing)
        // in = [aid, a, maxlen]: 0 ordered (b over -1..=1), 2 key-sorted rows with such values (b over
        // 2 keys x -1..=1), 4 contains (x in -1..=1), 5 maps with such values (ie over 2 keys x -1..=1)
        "rown" => {
            let aid = inp.first()?.as_i64()?;
            let maxlen = usize_of(inp.get(2)?)?.min(4);
            match aid {
                0 => {
                    let a: Vec<Irr> = ints_o(inp.get(1)?)?.into_iter().map(Irr).collect();
                    bits(all_seqs(&[-1i64, 0, 1], maxlen).into_iter().map(|b| {
                        let b: Vec<Irr> = b.into_iter().map(Irr).collect();
                        accepts_v(|| assert_collections_equal(&a, &b))
                    }))
                }
                2 => {
                    let a: Vec<(i64, Irr)> = kvs_o(inp.get(1)?)?.into_iter().map(|(k, v)| (k, Irr(v))).collect();
                    bits(all_seqs(&kv_syms(0, 2, -1, 2), maxlen).into_iter().map(|b| {
                        let b: Vec<(i64, Irr)> = b.into_iter().map(|(k, v)| (k, Irr(v))).collect();
                        accepts_v(|| assert_kv_collections_equal(a.clone(), b.clone()))
                    }))
                }
                4 => {
                    let a: Vec<Irr> = ints_o(inp.get(1)?)?.into_iter().map(Irr).collect();
                    bits([-1i64, 0, 1].into_iter().map(|x| accepts_v(|| assert_contains(&a, &Irr(x)))))
                }
                5 => {
                    let a: HashMap<i64, Irr> = kvs_o(inp.get(1)?)?.into_iter().map(|(k, v)| (k, Irr(v))).collect();
                    bits(all_seqs(&kv_syms(0, 2, -1, 2), maxlen).into_iter().map(|ie| {
                        let e: HashMap<i64, Irr> = ie.into_iter().map(|(k, v)| (k, Irr(v))).collect();
                        accepts_v(|| assert_maps_equal(&a, &e))
                    }))
                }
                _ => None,
            }
        }
        // in = [aid, a]: the SAME object on both sides (0 ordered, 2 key-sorted rows, 5 maps), Irr values
        "selfn" => {
            let aid = inp.first()?.as_i64()?;
            match aid {
                0 => {
                    let a: Vec<Irr> = ints_o(inp.get(1)?)?.into_iter().map(Irr).collect();
                    Some(accepts_v(|| assert_collections_equal(&a, &a)))
                }
                2 => {
                    let a: Vec<(i64, Irr)> = kvs_o(inp.get(1)?)?.into_iter().map(|(k, v)| (k, Irr(v))).collect();
                    Some(accepts_v(|| assert_kv_collections_equal(a.clone(), a.clone())))
                }
                5 => {
                    let a: HashMap<i64, Irr> = kvs_o(inp.get(1)?)?.into_iter().map(|(k, v)| (k, Irr(v))).collect();
                    Some(accepts_v(|| assert_maps_equal(&a, &a)))
                }
                _ => None,
            }
        }
        // files. in = [fmt, eol, lines, esyms, maxlen]: one bit per expected sequence over esyms
        "filerow" => {
            let (fmt, eol) = (inp.first()?.as_i64()?, inp.get(1)?.as_i64()?);
            let lines: Vec<String> =
                inp.get(2)?.as_array()?.iter().map(|d| render_line(fmt, d)).collect::<Option<_>>()?;
            let esyms = recs_of(inp.get(3)?)?;
            let path = write_lines(fmt, eol, &lines);
            let r = bits(
                all_seqs(&esyms, usize_of(inp.get(4)?)?.min(4)).iter().map(|e| file_assert(fmt, &path, e)),
            );
            let _ = std::fs::remove_file(&path);
            r
        }
        // in = [fmt, eol, lines, expected]
        "filepair" => {
            let (fmt, eol) = (inp.first()?.as_i64()?, inp.get(1)?.as_i64()?);
            let lines: Vec<String> =
                inp.get(2)?.as_array()?.iter().map(|d| render_line(fmt, d)).collect::<Option<_>>()?;
            let expected = recs_of(inp.get(3)?)?;
            let path = write_lines(fmt, eol, &lines);
            let r = file_assert(fmt, &path, &expected);
            let _ = std::fs::remove_file(&path);
            Some(r)
        }
        // the file is written by the real mock_jsonl_file / mock_csv_file(data, with_header)
        // in = [fmt, with_header, data, esyms, maxlen]
        "mockrow" => {
            let (fmt, wh) = (inp.first()?.as_i64()?, inp.get(1)?.as_i64()? == 1);
            let data = recs_of(inp.get(2)?)?;
            let esyms = recs_of(inp.get(3)?)?;
            let tmp = if fmt == 0 { mock_jsonl_file(&data).ok()? } else { mock_csv_file(&data, wh).ok()? };
            bits(
                all_seqs(&esyms, usize_of(inp.get(4)?)?.min(4)).iter().map(|e| file_assert(fmt, tmp.path(), e)),
            )
        }
        // in = [fmt, eol, n, bl, via_mock, [[mode, pos]...]]: records (i, i mod 8), i < n; via_mock = 1: written
        // by mock_*_file, else by hand with an empty line before record i whenever i mod bl = bl - 1
        "filelong" => {
            let (fmt, eol) = (inp.first()?.as_i64()?, inp.get(1)?.as_i64()?);
            let n = usize_of(inp.get(2)?)?;
            let bl = usize_of(inp.get(3)?)?;
            let via_mock = inp.get(4)?.as_i64()? == 1;
            if n > 70_000 {
                return None;
            }
            let data = long_data(n);
            let mut keep = None;
            let path = if via_mock {
                let t = if fmt == 0 { mock_jsonl_file(&data).ok()? } else { mock_csv_file(&data, true).ok()? };
                let p = t.path().to_path_buf();
                keep = Some(t);
                p
            } else {
                let mut lines = Vec::new();
                if fmt == 1 {
                    lines.push("id,name".to_string());
                }
                for (i, r) in data.iter().enumerate() {
                    if bl > 0 && i % bl == bl - 1 {
                        lines.push(String::new());
                    }
                    lines.push(render_line(fmt, &json!([r.id, i as i64 % 8]))?);
                }
                write_lines(fmt, eol, &lines)
            };
            let mut out = Vec::new();
            for s in inp.get(5)?.as_array()? {
                let e = long_expected(&data, s.get(0)?.as_i64()?, usize_of(s.get(1)?)?)?;
                out.push(file_assert(fmt, &path, &e));
            }
            if keep.is_none() {
                let _ = std::fs::remove_file(&path);
            }
            drop(keep);
            Some(Value::Array(out))
        }
        // in = [fmt]: the file does not exist
        "nofile" => {
            let fmt = inp.first()?.as_i64()?;
            let path = scratch_dir().path().join("does-not-exist");
            Some(file_assert(fmt, &path, &[]))
        }
        _ => None,
    }
}

fn shuffle<T>(rng: &mut SplitMix64, v: &mut [T]) {
    for i in (1..v.len()).rev() {
        let j = rng.below(i as u64 + 1) as usize;
        v.swap(i, j);
    }
}

fn generate(seed: u64, tier: Tier, em: &mut Emitter) {
    // 1. exhaustive: every a in the space, one row of accept bits (one per b) each
    let (nsym, maxlen) = (3i64, 4usize);
    let syms: Vec<i64> = (0..nsym).collect();
    for aid in 0..2 {
        for a in all_seqs(&syms, maxlen) {
            let nt = a.len() >= 2;
            em.case("row", json!([aid, a, nsym, maxlen]), nt, &["exhaustive"]);
        }
    }
    let (nk, nv, kvlen) = (2i64, 3i64, if tier == Tier::Thorough { 4usize } else { 3 });
    let kvsyms: Vec<(i64, i64)> = (0..nk).flat_map(|k| (0..nv).map(move |v| (k, v))).collect();
    for a in all_seqs(&kvsyms, kvlen) {
        let nt = a.len() >= 2;
        let ja: Vec<Value> = a.iter().map(|(k, v)| json!([k, v])).collect();
        em.case("rowkv", json!([ja, nk, nv, kvlen]), nt, &["exhaustive"]);
    }
    let (gk, gv, gvlen, glen) = (2i64, 2i64, 2usize, 2usize);
    let vsyms: Vec<i64> = (0..gv).collect();
    let vss = all_seqs(&vsyms, gvlen);
    let gsyms: Vec<(i64, Vec<i64>)> =
        (0..gk).flat_map(|k| vss.iter().map(move |vs| (k, vs.clone()))).collect();
    for a in all_seqs(&gsyms, glen) {
        let nt = !a.is_empty();
        let ja: Vec<Value> = a.iter().map(|(k, vs)| json!([k, vs])).collect();
        em.case("rowg", json!([ja, gk, gv, gvlen, glen]), nt, &["exhaustive"]);
    }

    // 1b. slices of one buffer and zero-sized elements (an "identical buffer" shortcut must not
    // skip the length check)
    for aid in 0..2 {
        for v in [vec![], vec![1], vec![1, 1], vec![1, 2, 1], vec![0, 1, 2, 0]] {
            for i in 0..=v.len() {
                for j in 0..=v.len() {
                    em.case("alias", json!([aid, v, i, j]), i != j, &["alias"]);
                }
            }
        }
        for n in 0..4 {
            for m in 0..4 {
                em.case("zst", json!([aid, n, m]), n != m, &["zst"]);
            }
        }
    }

    // 1c. long sequences differing at few positions (a block-wise / SIMD-style comparison must not
    // skip an index), and hash-colliding elements (a hash-ordered comparison must not reject
    // permutations)
    for aid in 0..2 {
        for n in [63usize, 64, 65, 66, 129, 130, 131, 195, 200] {
            let n_i = n as i64;
            let mut sets: Vec<Vec<i64>> = vec![vec![]];
            for p in [0, 1, 62, 63, 64, 65, 66, 127, 128, 129, 130, 192, 193, 194, 195, n_i - 2, n_i - 1] {
                if p >= 0 && p < n_i {
                    sets.push(vec![p]);
                }
            }
            if n > 130 {
                sets.push(vec![64, 129]);
            }
            if n > 195 {
                sets.push(vec![64, 129, 194]);
            }
            for d in sets {
                em.case("long", json!([aid, n, d]), true, &["long"]);
            }
        }
        for a in all_seqs(&[0i64, 3, 6, 1], 4) {
            // 0, 3, 6 collide under hash = value mod 3
            let mut b = a.clone();
            b.reverse();
            em.case("pairc", json!([aid, a, b]), a.len() >= 2, &["coarse-hash"]);
            let mut c = a.clone();
            c.rotate_left(1.min(a.len()));
            em.case("pairc", json!([aid, a, c]), a.len() >= 2, &["coarse-hash"]);
        }
    }

    generate_more(seed, tier, em);

    // 2. random longer pairs: b is a (mostly) small mutation of a permutation of a
    let mut rng = SplitMix64::new(seed ^ 0xC20);
    let n = if tier == Tier::Thorough { 20000 } else { 1500 };
    for _ in 0..n {
        let aid = rng.below(4) as i64;
        let len = rng.below(10) as usize;
        let mutate = rng.below(4); // 0 none, 1 replace one, 2 drop one, 3 duplicate one
        match aid {
            0 | 1 => {
                let a: Vec<i64> = (0..len).map(|_| rng.range(0, 3)).collect();
                let mut b = a.clone();
                if aid == 1 || rng.chance(1, 4) {
                    shuffle(&mut rng, &mut b);
                }
                mutate_vec(&mut rng, &mut b, mutate, |r| r.range(0, 3));
                em.case("pair", json!([aid, a, b]), len >= 2, &["random"]);
            }
            2 => {
                let a: Vec<(i64, i64)> =
                    (0..len).map(|_| (rng.range(0, 2), rng.range(0, 2))).collect();
                let mut b = a.clone();
                shuffle(&mut rng, &mut b);
                mutate_vec(&mut rng, &mut b, mutate, |r| (r.range(0, 2), r.range(0, 2)));
                let ja: Vec<Value> = a.iter().map(|(k, v)| json!([k, v])).collect();
                let jb: Vec<Value> = b.iter().map(|(k, v)| json!([k, v])).collect();
                em.case("pair", json!([aid, ja, jb]), len >= 2, &["random"]);
            }
            _ => {
                // grouped data: distinct keys (what group_by_key produces), 3/4 of the time
                let distinct = rng.chance(3, 4);
                let a: Vec<(i64, Vec<i64>)> = (0..len.min(5))
                    .map(|i| {
                        let k = if distinct { i as i64 } else { rng.range(0, 2) };
                        let vl = rng.below(4) as usize;
                        (k, (0..vl).map(|_| rng.range(0, 2)).collect())
                    })
                    .collect();
                let mut b = a.clone();
                shuffle(&mut rng, &mut b);
                for g in &mut b {
                    shuffle(&mut rng, &mut g.1);
                }
                if mutate != 0 && !b.is_empty() {
                    let i = rng.below(b.len() as u64) as usize;
                    let mut vs = b[i].1.clone();
                    mutate_vec(&mut rng, &mut vs, mutate, |r| r.range(0, 2));
                    b[i].1 = vs;
                }
                let ja: Vec<Value> = a.iter().map(|(k, vs)| json!([k, vs])).collect();
                let jb: Vec<Value> = b.iter().map(|(k, vs)| json!([k, vs])).collect();
                em.case("pair", json!([aid, ja, jb]), !a.is_empty(), &["random"]);
            }
        }
    }
}

/// every further public assertion of ironbeam::testing, typed elements, sizes across the powers of two
fn generate_more(seed: u64, tier: Tier, em: &mut Emitter) {
    let thorough = tier == Tier::Thorough;
    let mut rng = SplitMix64::new(seed ^ 0xC20_0002);
    let syms3: Vec<i64> = (0..3).collect();

    // 3a. ordered / unordered on every element type: exhaustive rows
    for aid in 0..2 {
        for tyid in 1..=5 {
            for a in all_seqs(&syms3, 3) {
                em.case("rowt", json!([aid, tyid, a, 3, 3]), a.len() >= 2, &["exhaustive", "typed"]);
            }
        }
    }

    // 3b. sizes across the powers of two, differences at block boundaries
    for aid in 0..2 {
        for n in sizes_upto(65537) {
            if n == 0 {
                continue;
            }
            let budget = if n > 5000 { 4 } else { 20 };
            let pos = boundary_positions(n, budget);
            let mut sets: Vec<Vec<usize>> = vec![vec![]];
            sets.extend(pos.iter().map(|&p| vec![p]));
            if n >= 4 {
                // two positions whose changes keep the multiset (i and i+5k carry the same symbol; the
                // ordered assertion must still reject, the unordered one must reject too since both move up)
                sets.push(vec![0, n - 1]);
                sets.push(vec![n / 2, n / 2 + 1]);
            }
            em.case("longs", json!([aid, n, sets]), n >= 2, &["long"]);
        }
    }
    for aid in 2..4 {
        let max = if thorough { 4097 } else { 1025 };
        for n in sizes_upto(max) {
            if n == 0 {
                continue;
            }
            let nk = [1i64, 2, 5, 64, n as i64][n % 5].max(1);
            let mut sets: Vec<(i64, usize)> = vec![(0, 0), (3, 0)];
            for p in boundary_positions(n, if n > 600 { 1 } else { 6 }) {
                for mode in [1, 2, 4] {
                    sets.push((mode, p));
                }
            }
            let sets: Vec<Value> = sets.iter().map(|(m, p)| json!([m, p])).collect();
            em.case("longkv", json!([aid, n, nk, sets]), n >= 2, &["long"]);
        }
    }
    if !thorough {
        // one big keyed case each in the quick tier
        em.case("longkv", json!([2, 4096, 5, [[0, 0], [4, 64]]]), true, &["long"]);
        em.case("longkv", json!([3, 2049, 1, [[0, 0], [1, 2048]]]), true, &["long"]);
    }

    // 4. assert_contains: exhaustive rows on every element type, then long slices
    for tyid in 0..=5 {
        for l in all_seqs(&syms3, if tyid == 0 { 4 } else { 3 }) {
            em.case("containsrow", json!([tyid, l, [0, 1, 2, 3]]), l.len() >= 2, &["exhaustive", "contains"]);
        }
    }
    for n in sizes_upto(65537) {
        let mut pos: Vec<i64> = vec![-1];
        pos.extend(boundary_positions(n, if n > 5000 { 12 } else { 40 }).iter().map(|&p| p as i64));
        em.case("containslong", json!([n, pos]), n >= 2, &["long", "contains"]);
    }

    // 5. assert_all / assert_any / assert_none: every truth vector up to length 9, then long ones
    for fid in 0..3 {
        for len in 0..=(if thorough { 10 } else { 9 }) {
            em.case("predrow", json!([fid, len]), len >= 2, &["exhaustive", "pred"]);
        }
        for n in sizes_upto(65537) {
            if n == 0 {
                continue;
            }
            for base in 0..2 {
                let mut sets: Vec<Vec<usize>> = vec![vec![]];
                sets.extend(boundary_positions(n, if n > 5000 { 6 } else { 16 }).iter().map(|&p| vec![p]));
                if n >= 3 {
                    sets.push(vec![n / 2, n - 1]);
                }
                em.case("predlong", json!([fid, n, base, sets]), n >= 2, &["long", "pred"]);
            }
        }
    }

    // 6. assert_collection_size: lengths and expected sizes around every truncation boundary
    let big: Vec<i64> = vec![
        0, 1, 2, 3, 4, 7, 8, 15, 16, 17, 20, 31, 32, 33, 63, 64, 65, 127, 128, 129, 255, 256, 257, 511, 512, 513,
        1023, 1024, 1025, 4095, 4096, 4097, 65535, 65536, 65537, (1 << 31) - 1, 1 << 31, (1 << 31) + 1,
        (1 << 32) - 1, 1 << 32, (1 << 32) + 1, (1 << 32) + 256, (1 << 62) - 1, -1,
    ];
    for &n in &big {
        let mut ms: Vec<i64> = vec![n, 0, 1];
        if n >= 0 {
            ms.extend([n - 1, n + 1, n % 256, n % 65536, n % (1 << 32), n + 256, n + 65536, n + (1 << 32), -1]);
            ms.push(n & 0x7fff_ffff);
        } else {
            ms.extend([(1 << 32) - 1, (1 << 62) - 1, 255, 65535]);
        }
        ms.retain(|&m| m >= -1 && m < (1 << 62));
        ms.dedup();
        em.case("sizerow", json!([n, 1, ms]), true, &["size"]);
        if (0..=65537).contains(&n) {
            em.case("sizerow", json!([n, 0, ms]), true, &["size"]);
        }
        // ordered / unordered assertion on zero-sized elements of these lengths
        if (0..=65537).contains(&n) {
            let ms1: Vec<i64> = ms.iter().copied().filter(|m| (0..=70_000).contains(m)).collect();
            em.case("zstrow", json!([0, n, ms1]), true, &["zst"]);
            em.case("zstrow", json!([1, n, ms1]), true, &["zst"]);
        }
    }

    // 7. assert_maps_equal: exhaustive pairs of insertion sequences (3 keys x 2 values, length <= 3),
    // under three hashers and element types; random longer ones; sizes across the resize thresholds
    let msyms = kv_syms(0, 3, 0, 2);
    for (hid, tyid) in [(0, 0), (1, 2), (2, 3)] {
        for ia in all_seqs(&msyms, 3) {
            let ja: Vec<Value> = ia.iter().map(|(k, v)| json!([k, v])).collect();
            em.case("maprow", json!([hid, tyid, ja, 3, 2, 3]), !ia.is_empty(), &["exhaustive", "maps"]);
        }
    }
    for _ in 0..(if thorough { 6000 } else { 500 }) {
        let (hid, tyid) = (rng.below(3) as i64, rng.below(6) as i64);
        let len = rng.below(13) as usize;
        let ia: Vec<(i64, i64)> = (0..len).map(|_| (rng.range(0, 5), rng.range(0, 2))).collect();
        let mut ie = ia.clone();
        shuffle(&mut rng, &mut ie);
        let how = rng.below(5);
        if how == 4 {
            if !ie.is_empty() {
                let i = rng.below(ie.len() as u64) as usize;
                ie.remove(i);
            }
        } else {
            mutate_vec(&mut rng, &mut ie, how, |r| (r.range(0, 6), r.range(0, 2)));
        }
        let ja: Vec<Value> = ia.iter().map(|(k, v)| json!([k, v])).collect();
        let je: Vec<Value> = ie.iter().map(|(k, v)| json!([k, v])).collect();
        em.case("mappair", json!([hid, tyid, ja, je]), len >= 2, &["random", "maps"]);
    }
    let map_sizes: Vec<usize> = {
        let mut v = vec![1usize, 2, 3, 4, 5, 7, 8, 9, 14, 15, 16, 17, 28, 29, 32, 33, 56, 57, 64, 65, 100];
        for p in [128usize, 256, 512, 1024] {
            v.extend([p * 7 / 8, p * 7 / 8 + 1, p - 1, p, p + 1]);
        }
        if thorough {
            for p in [2048usize, 4096] {
                v.extend([p * 7 / 8, p * 7 / 8 + 1, p - 1, p, p + 1]);
            }
        } else {
            v.extend([1792, 1793]);
        }
        v
    };
    for (i, &n) in map_sizes.iter().enumerate() {
        let (hid, tyid) = if n > 300 { (0, [0i64, 2, 4][i % 3]) } else { ([0i64, 1, 2][i % 3], [0i64, 2, 3, 4, 5][i % 5]) };
        let mut sets: Vec<(i64, usize)> = vec![(0, 0), (4, 0)];
        let ps: Vec<usize> = if n > 300 { vec![n - 1] } else { vec![0, n / 2, n - 1] };
        for &p in &ps {
            for mode in [1, 2, 3, 5] {
                sets.push((mode, p));
            }
        }
        let sets: Vec<Value> = sets.iter().map(|(m, p)| json!([m, p])).collect();
        em.case("maplong", json!([hid, tyid, n, sets]), n >= 2, &["long", "maps"]);
    }

    // 8. PartialEq that is not reflexive (the ordered / key-sorted / contains / maps assertions only ask
    // for PartialEq), also with the very same object on both sides
    let nsyms = [-1i64, 0, 1];
    for a in all_seqs(&nsyms, 3) {
        em.case("rown", json!([0, a, 3]), a.len() >= 2, &["exhaustive", "irreflexive"]);
        em.case("rown", json!([4, a, 3]), a.len() >= 2, &["exhaustive", "irreflexive"]);
        em.case("selfn", json!([0, a]), !a.is_empty(), &["alias", "irreflexive"]);
    }
    for a in all_seqs(&kv_syms(0, 2, -1, 2), 2) {
        let ja: Vec<Value> = a.iter().map(|(k, v)| json!([k, v])).collect();
        em.case("rown", json!([2, ja, 2]), !a.is_empty(), &["exhaustive", "irreflexive"]);
        em.case("rown", json!([5, ja, 2]), !a.is_empty(), &["exhaustive", "irreflexive"]);
        em.case("selfn", json!([2, ja]), !a.is_empty(), &["alias", "irreflexive"]);
        em.case("selfn", json!([5, ja]), !a.is_empty(), &["alias", "irreflexive"]);
    }

    // 9. file-content assertions: every file of <= 3 lines over 7 kinds of line against every expected
    // list of <= 3 records; files written by mock_*_file; long files
    let lsyms: Vec<Value> =
        vec![json!([0, 1]), json!([0, 2]), json!([1, 3]), json!(-1), json!(-2), json!(-3), json!(-4)];
    let esyms = json!([[0, 1], [1, 3]]);
    for fmt in 0..2 {
        em.case("nofile", json!([fmt]), true, &["files"]);
        for (i, lines) in all_seqs(&lsyms, 3).into_iter().enumerate() {
            let nt = !lines.is_empty();
            em.case("filerow", json!([fmt, i % 3, lines, esyms, 3]), nt, &["exhaustive", "files"]);
        }
        let dsyms: Vec<Value> = vec![json!([0, 1]), json!([1, 3]), json!([0, 5])];
        for data in all_seqs(&dsyms, 3) {
            for wh in 0..(1 + fmt) {
                let nt = !data.is_empty();
                em.case("mockrow", json!([fmt, wh, data, [[0, 1], [1, 3], [0, 5]], 3]), nt, &["exhaustive", "files"]);
            }
        }
        for (idx, n) in sizes_upto(if thorough { 65537 } else { 4097 }).into_iter().enumerate() {
            let mut sets: Vec<(i64, usize)> = vec![(0, 0), (3, 0), (4, 0)];
            for p in boundary_positions(n, if n > 600 { 3 } else { 10 }) {
                for mode in [1, 2, 5, 6] {
                    sets.push((mode, p));
                }
            }
            if n == 0 {
                sets = vec![(0, 0), (4, 0)];
            }
            let sets: Vec<Value> = sets.iter().map(|(m, p)| json!([m, p])).collect();
            // once written by mock_*_file, once by hand with empty lines in between
            em.case("filelong", json!([fmt, 0, n, 0, 1, sets]), n >= 2, &["long", "files"]);
            let bl = [1usize, 3, 64, 0, 7][idx % 5];
            em.case("filelong", json!([fmt, idx % 3, n, bl, 0, sets]), n >= 2, &["long", "files"]);
        }
        if !thorough {
            em.case("filelong", json!([fmt, 0, 65536, 0, 1, [[0, 0], [1, 65535], [5, 32768], [3, 0]]]), true, &["long", "files"]);
        }
    }
    // records longer than an I/O buffer
    for fmt in 0..2 {
        em.case("mockrow", json!([fmt, 1, [[0, 8], [1, 1], [2, 8]], [[0, 8], [1, 1], [2, 8], [0, 1]], 3]), true, &["files", "long-record"]);
    }
    for _ in 0..(if thorough { 4000 } else { 300 }) {
        let fmt = rng.below(2) as i64;
        let eol = rng.below(3) as i64;
        let n = rng.below(10) as usize;
        let mut lines: Vec<Value> = Vec::new();
        let mut expected: Vec<Value> = Vec::new();
        if fmt == 1 && !rng.chance(1, 12) {
            lines.push(json!(-4));
        }
        for _ in 0..n {
            if rng.chance(1, 5) {
                lines.push(json!(-1));
            }
            if rng.chance(1, 25) {
                lines.push(json!(*rng.pick(&[-2i64, -3, -4])));
            }
            let r = json!([rng.range(0, 3), rng.range(0, 7)]);
            lines.push(r.clone());
            expected.push(r);
        }
        let how = rng.below(4);
        mutate_vec(&mut rng, &mut expected, how, |r| json!([r.range(0, 3), r.range(0, 7)]));
        em.case("filepair", json!([fmt, eol, lines, expected]), n >= 2, &["random", "files"]);
    }

    // 10. key-sorted / grouped assertion on typed keys and values (random)
    for _ in 0..(if thorough { 4000 } else { 400 }) {
        let aid = 2 + rng.below(2) as i64;
        let tyid = 1 + rng.below(5) as i64;
        let len = rng.below(8) as usize;
        let mutate = rng.below(4);
        if aid == 2 {
            let a: Vec<(i64, i64)> = (0..len).map(|_| (rng.range(0, 2), rng.range(0, 2))).collect();
            let mut b = a.clone();
            shuffle(&mut rng, &mut b);
            mutate_vec(&mut rng, &mut b, mutate, |r| (r.range(0, 2), r.range(0, 2)));
            let ja: Vec<Value> = a.iter().map(|(k, v)| json!([k, v])).collect();
            let jb: Vec<Value> = b.iter().map(|(k, v)| json!([k, v])).collect();
            em.case("pairt", json!([aid, tyid, ja, jb]), len >= 2, &["random", "typed"]);
        } else {
            let a: Vec<(i64, Vec<i64>)> = (0..len.min(5))
                .map(|i| {
                    let vl = rng.below(4) as usize;
                    (i as i64, (0..vl).map(|_| rng.range(0, 2)).collect())
                })
                .collect();
            let mut b = a.clone();
            shuffle(&mut rng, &mut b);
            for g in &mut b {
                shuffle(&mut rng, &mut g.1);
            }
            if mutate != 0 && !b.is_empty() {
                let i = rng.below(b.len() as u64) as usize;
                let mut vs = b[i].1.clone();
                mutate_vec(&mut rng, &mut vs, mutate, |r| r.range(0, 2));
                b[i].1 = vs;
            }
            let ja: Vec<Value> = a.iter().map(|(k, vs)| json!([k, vs])).collect();
            let jb: Vec<Value> = b.iter().map(|(k, vs)| json!([k, vs])).collect();
            em.case("pairt", json!([aid, tyid, ja, jb]), !a.is_empty(), &["random", "typed"]);
        }
    }
}

fn mutate_vec<T: Clone>(
    rng: &mut SplitMix64,
    v: &mut Vec<T>,
    how: u64,
    fresh: impl Fn(&mut SplitMix64) -> T,
) {
    if v.is_empty() {
        return;
    }
    let i = rng.below(v.len() as u64) as usize;
    match how {
        1 => v[i] = fresh(rng),
        2 => {
            // drop one and duplicate another: same length, different multiplicities
            let x = v[(i + 1) % v.len()].clone();
            v[i] = x;
        }
        3 => {
            let x = v[i].clone();
            v.push(x);
        }
        _ => {}
    }
}

fn main() {
    drive(&generate, &run);
}
