//! C20: the shipped test assertions accept exactly equal collections.
//! Runs the REAL ironbeam::testing assertions; `true` = returned, `false` = panicked.
use ibv::{Emitter, SplitMix64, Tier, drive};
use ironbeam::testing::{
    assert_collections_equal, assert_collections_unordered_equal, assert_grouped_kv_equal,
    assert_kv_collections_equal,
};
use serde_json::{Value, json};
use std::panic::{AssertUnwindSafe, catch_unwind};

/// an element type whose Hash is deliberately coarser than its Eq
#[derive(Debug, Clone, PartialEq, Eq)]
struct Coarse(i64);
impl std::hash::Hash for Coarse {
    fn hash<H: std::hash::Hasher>(&self, state: &mut H) {
        (self.0.rem_euclid(3)).hash(state);
    }
}

fn accepts(f: impl FnOnce()) -> bool {
    catch_unwind(AssertUnwindSafe(f)).is_ok()
}

/// all sequences over `syms` of length 0..=maxlen; by length, first element slowest
fn all_seqs<T: Clone>(syms: &[T], maxlen: usize) -> Vec<Vec<T>> {
    let mut out = Vec::new();
    let mut cur: Vec<Vec<T>> = vec![vec![]];
    out.extend(cur.iter().cloned());
    for _ in 0..maxlen {
        // prepend-free construction that keeps "first element slowest": extend on the right
        // of sequences enumerated in the same order
        let mut next = Vec::new();
        for s in &cur {
            for x in syms {
                let mut t = s.clone();
                t.push(x.clone());
                next.push(t);
            }
        }
        out.extend(next.iter().cloned());
        cur = next;
    }
    out
}

fn ints(v: &Value) -> Vec<i64> {
    v.as_array().unwrap().iter().map(|x| x.as_i64().unwrap()).collect()
}
fn kvs(v: &Value) -> Vec<(i64, i64)> {
    v.as_array()
        .unwrap()
        .iter()
        .map(|p| (p[0].as_i64().unwrap(), p[1].as_i64().unwrap()))
        .collect()
}
fn groups(v: &Value) -> Vec<(i64, Vec<i64>)> {
    v.as_array().unwrap().iter().map(|p| (p[0].as_i64().unwrap(), ints(&p[1]))).collect()
}

fn acc01(aid: i64, a: &[i64], b: &[i64]) -> bool {
    if aid == 0 {
        accepts(|| assert_collections_equal(a, b))
    } else {
        accepts(|| assert_collections_unordered_equal(a, b))
    }
}

fn run(kind: &str, input: &Value) -> Value {
    match kind {
        "row" => {
            let aid = input[0].as_i64().unwrap();
            let a = ints(&input[1]);
            let syms: Vec<i64> = (0..input[2].as_i64().unwrap()).collect();
            let bs = all_seqs(&syms, input[3].as_u64().unwrap() as usize);
            Value::Array(bs.iter().map(|b| Value::Bool(acc01(aid, &a, b))).collect())
        }
        "rowkv" => {
            let a = kvs(&input[0]);
            let (nk, nv) = (input[1].as_i64().unwrap(), input[2].as_i64().unwrap());
            let syms: Vec<(i64, i64)> =
                (0..nk).flat_map(|k| (0..nv).map(move |v| (k, v))).collect();
            let bs = all_seqs(&syms, input[3].as_u64().unwrap() as usize);
            Value::Array(
                bs.iter()
                    .map(|b| {
                        Value::Bool(accepts(|| assert_kv_collections_equal(a.clone(), b.clone())))
                    })
                    .collect(),
            )
        }
        "rowg" => {
            let a = groups(&input[0]);
            let (nk, nv) = (input[1].as_i64().unwrap(), input[2].as_i64().unwrap());
            let vsyms: Vec<i64> = (0..nv).collect();
            let vss = all_seqs(&vsyms, input[3].as_u64().unwrap() as usize);
            let syms: Vec<(i64, Vec<i64>)> =
                (0..nk).flat_map(|k| vss.iter().map(move |vs| (k, vs.clone()))).collect();
            let bs = all_seqs(&syms, input[4].as_u64().unwrap() as usize);
            Value::Array(
                bs.iter()
                    .map(|b| Value::Bool(accepts(|| assert_grouped_kv_equal(a.clone(), b.clone()))))
                    .collect(),
            )
        }
        "pair" => {
            let aid = input[0].as_i64().unwrap();
            Value::Bool(match aid {
                0 | 1 => acc01(aid, &ints(&input[1]), &ints(&input[2])),
                2 => accepts(|| assert_kv_collections_equal(kvs(&input[1]), kvs(&input[2]))),
                _ => accepts(|| assert_grouped_kv_equal(groups(&input[1]), groups(&input[2]))),
            })
        }
        // elements whose Hash is coarser than Eq (hash = value mod 3): in = [aid, a, b]
        "pairc" => {
            let aid = input[0].as_i64().unwrap();
            let a: Vec<Coarse> = ints(&input[1]).into_iter().map(Coarse).collect();
            let b: Vec<Coarse> = ints(&input[2]).into_iter().map(Coarse).collect();
            Value::Bool(if aid == 0 {
                accepts(|| assert_collections_equal(&a, &b))
            } else {
                accepts(|| assert_collections_unordered_equal(&a, &b))
            })
        }
        // long sequences: in = [aid, n, diffs]; a[i] = i mod 5, b[i] = a[i] except (a[i]+1) mod 5 at
        // the listed positions
        "long" => {
            let aid = input[0].as_i64().unwrap();
            let n = input[1].as_u64().unwrap() as usize;
            let diffs = ints(&input[2]);
            let a: Vec<i64> = (0..n as i64).map(|i| i % 5).collect();
            let b: Vec<i64> = (0..n as i64)
                .map(|i| if diffs.contains(&i) { (i % 5 + 1) % 5 } else { i % 5 })
                .collect();
            Value::Bool(acc01(aid, &a, &b))
        }
        // two slices of ONE buffer: in = [aid, v, i, j] -> assert(&v[..i], &v[..j])
        "alias" => {
            let aid = input[0].as_i64().unwrap();
            let v = ints(&input[1]);
            let (i, j) = (input[2].as_u64().unwrap() as usize, input[3].as_u64().unwrap() as usize);
            if i > v.len() || j > v.len() {
                return json!(["invalid"]);
            }
            Value::Bool(acc01(aid, &v[..i], &v[..j]))
        }
        // zero-sized elements (every Vec<()> shares one dangling pointer): in = [aid, n, m]
        "zst" => {
            let aid = input[0].as_i64().unwrap();
            let a = vec![(); input[1].as_u64().unwrap() as usize];
            let b = vec![(); input[2].as_u64().unwrap() as usize];
            Value::Bool(if aid == 0 {
                accepts(|| assert_collections_equal(&a, &b))
            } else {
                accepts(|| assert_collections_unordered_equal(&a, &b))
            })
        }
        _ => json!(["bad-kind"]),
    }
}

fn shuffle<T>(rng: &mut SplitMix64, v: &mut [T]) {
    for i in (1..v.len()).rev() {
        let j = rng.below(i as u64 + 1) as usize;
        v.swap(i, j);
    }
}

fn generate(seed: u64, tier: Tier, em: &mut Emitter) {
    // 1. exhaustive: every a in the space, one row of accept bits (one per b) each
    let (nsym, maxlen) = (3i64, 4usize);
    let syms: Vec<i64> = (0..nsym).collect();
    for aid in 0..2 {
        for a in all_seqs(&syms, maxlen) {
            let nt = a.len() >= 2;
            em.case("row", json!([aid, a, nsym, maxlen]), nt, &["exhaustive"]);
        }
    }
    let (nk, nv, kvlen) = (2i64, 3i64, if tier == Tier::Thorough { 4usize } else { 3 });
    let kvsyms: Vec<(i64, i64)> = (0..nk).flat_map(|k| (0..nv).map(move |v| (k, v))).collect();
    for a in all_seqs(&kvsyms, kvlen) {
        let nt = a.len() >= 2;
        let ja: Vec<Value> = a.iter().map(|(k, v)| json!([k, v])).collect();
        em.case("rowkv", json!([ja, nk, nv, kvlen]), nt, &["exhaustive"]);
    }
    let (gk, gv, gvlen, glen) = (2i64, 2i64, 2usize, 2usize);
    let vsyms: Vec<i64> = (0..gv).collect();
    let vss = all_seqs(&vsyms, gvlen);
    let gsyms: Vec<(i64, Vec<i64>)> =
        (0..gk).flat_map(|k| vss.iter().map(move |vs| (k, vs.clone()))).collect();
    for a in all_seqs(&gsyms, glen) {
        let nt = !a.is_empty();
        let ja: Vec<Value> = a.iter().map(|(k, vs)| json!([k, vs])).collect();
        em.case("rowg", json!([ja, gk, gv, gvlen, glen]), nt, &["exhaustive"]);
    }

    // 1b. slices of one buffer and zero-sized elements (an "identical buffer" shortcut must not
    // skip the length check)
    for aid in 0..2 {
        for v in [vec![], vec![1], vec![1, 1], vec![1, 2, 1], vec![0, 1, 2, 0]] {
            for i in 0..=v.len() {
                for j in 0..=v.len() {
                    em.case("alias", json!([aid, v, i, j]), i != j, &["alias"]);
                }
            }
        }
        for n in 0..4 {
            for m in 0..4 {
                em.case("zst", json!([aid, n, m]), n != m, &["zst"]);
            }
        }
    }

    // 1c. long sequences differing at few positions (a block-wise / SIMD-style comparison must not
    // skip an index), and hash-colliding elements (a hash-ordered comparison must not reject
    // permutations)
    for aid in 0..2 {
        for n in [63usize, 64, 65, 66, 129, 130, 131, 195, 200] {
            let n_i = n as i64;
            let mut sets: Vec<Vec<i64>> = vec![vec![]];
            for p in [0, 1, 62, 63, 64, 65, 66, 127, 128, 129, 130, 192, 193, 194, 195, n_i - 2, n_i - 1] {
                if p >= 0 && p < n_i {
                    sets.push(vec![p]);
                }
            }
            if n > 130 {
                sets.push(vec![64, 129]);
            }
            if n > 195 {
                sets.push(vec![64, 129, 194]);
            }
            for d in sets {
                em.case("long", json!([aid, n, d]), true, &["long"]);
            }
        }
        for a in all_seqs(&[0i64, 3, 6, 1], 4) {
            // 0, 3, 6 collide under hash = value mod 3
            let mut b = a.clone();
            b.reverse();
            em.case("pairc", json!([aid, a, b]), a.len() >= 2, &["coarse-hash"]);
            let mut c = a.clone();
            c.rotate_left(1.min(a.len()));
            em.case("pairc", json!([aid, a, c]), a.len() >= 2, &["coarse-hash"]);
        }
    }

    // 2. random longer pairs: b is a (mostly) small mutation of a permutation of a
    let mut rng = SplitMix64::new(seed ^ 0xC20);
    let n = if tier == Tier::Thorough { 20000 } else { 1500 };
    for _ in 0..n {
        let aid = rng.below(4) as i64;
        let len = rng.below(10) as usize;
        let mutate = rng.below(4); // 0 none, 1 replace one, 2 drop one, 3 duplicate one
        match aid {
            0 | 1 => {
                let a: Vec<i64> = (0..len).map(|_| rng.range(0, 3)).collect();
                let mut b = a.clone();
                if aid == 1 || rng.chance(1, 4) {
                    shuffle(&mut rng, &mut b);
                }
                mutate_vec(&mut rng, &mut b, mutate, |r| r.range(0, 3));
                em.case("pair", json!([aid, a, b]), len >= 2, &["random"]);
            }
            2 => {
                let a: Vec<(i64, i64)> =
                    (0..len).map(|_| (rng.range(0, 2), rng.range(0, 2))).collect();
                let mut b = a.clone();
                shuffle(&mut rng, &mut b);
                mutate_vec(&mut rng, &mut b, mutate, |r| (r.range(0, 2), r.range(0, 2)));
                let ja: Vec<Value> = a.iter().map(|(k, v)| json!([k, v])).collect();
                let jb: Vec<Value> = b.iter().map(|(k, v)| json!([k, v])).collect();
                em.case("pair", json!([aid, ja, jb]), len >= 2, &["random"]);
            }
            _ => {
                // grouped data: distinct keys (what group_by_key produces), 3/4 of the time
                let distinct = rng.chance(3, 4);
                let a: Vec<(i64, Vec<i64>)> = (0..len.min(5))
                    .map(|i| {
                        let k = if distinct { i as i64 } else { rng.range(0, 2) };
                        let vl = rng.below(4) as usize;
                        (k, (0..vl).map(|_| rng.range(0, 2)).collect())
                    })
                    .collect();
                let mut b = a.clone();
                shuffle(&mut rng, &mut b);
                for g in &mut b {
                    shuffle(&mut rng, &mut g.1);
                }
                if mutate != 0 && !b.is_empty() {
                    let i = rng.below(b.len() as u64) as usize;
                    let mut vs = b[i].1.clone();
                    mutate_vec(&mut rng, &mut vs, mutate, |r| r.range(0, 2));
                    b[i].1 = vs;
                }
                let ja: Vec<Value> = a.iter().map(|(k, vs)| json!([k, vs])).collect();
                let jb: Vec<Value> = b.iter().map(|(k, vs)| json!([k, vs])).collect();
                em.case("pair", json!([aid, ja, jb]), !a.is_empty(), &["random"]);
            }
        }
    }
}

fn mutate_vec<T: Clone>(
    rng: &mut SplitMix64,
    v: &mut Vec<T>,
    how: u64,
    fresh: impl Fn(&mut SplitMix64) -> T,
) {
    if v.is_empty() {
        return;
    }
    let i = rng.below(v.len() as u64) as usize;
    match how {
        1 => v[i] = fresh(rng),
        2 => {
            // drop one and duplicate another: same length, different multiplicities
            let x = v[(i + 1) % v.len()].clone();
            v[i] = x;
        }
        3 => {
            let x = v[i].clone();
            v.push(x);
        }
        _ => {}
    }
}

fn main() {
    drive(&generate, &run);
}
