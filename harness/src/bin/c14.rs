//! C14: reservoir sampling — right size, real elements only, reproducible, mode-stable.
//! Runs the REAL public API (`sample_reservoir_vec`, `sample_reservoir`,
//! `sample_values_reservoir_vec`, `sample_values_reservoir`, collected with `collect_seq` /
//! `collect_par(None, Some(partitions))`) and, for arbitrary merge shapes, the REAL
//! `PriorityReservoir` combiner (`create / add_input / merge / finish / build_from_group`).
//!
//! kinds (k = integer or [hi, lo] halves for huge values; seed = [hi, lo] 32-bit halves of the u64 seed; mode = -1 sequential, p >= 0 = parallel
//! with `partitions = Some(p)`)
//!   "g":    in = [entry, k, seed, mode, data]         entry 0 = sample_reservoir_vec (output: list of
//!           samples, as collected), 1 = sample_reservoir (output: the flattened sample).
//!           out = ["ok", run1, run2]: the pipeline is built and run twice (reproducibility).
//!   "k":    in = [entry, k, seed, mode, [[key, v], ..]]  entry 0 = sample_values_reservoir_vec
//!           (output [[key, [v..]], ..]), 1 = sample_values_reservoir (output [[key, v], ..]);
//!           both stably sorted by key (HashMap order); out = ["ok", run1, run2].
//!   "cmpg": in = [entry, k, seed, mode1, mode2, data]; out = ["ok", out(mode1), out(mode2)]
//!   "cmpk": same for the per-key entry points.
//!   "j":    in = [entry, k, seed, mode, route, [[key, v], ..]]  the per-key sample collected directly
//!           (route 0) or as the input of a join (1 = left of join_inner, 2 = left of join_left,
//!           3 = right of join_inner; the other side has one row (key, 3*key+1) per key), output as
//!           for "k"; out = ["ok", first collect, second collect of the SAME collection].
//!   "bg":   in = [entry, k, seed, mode, [start, step, n]]  global sample of start, start+step, ..
//!           (n values); out = ["ok", r1, r2], r = [shape_ok, len, d1, d2, ms, mq, sub] (digests of
//!           the sample, see `digest`; sub = sample is a sub-multiset of the input; shape_ok = the
//!           `_vec` collection has exactly one element), first / second collect of one collection.
//!   "bk":   in = [entry, k, seed, mode, route, [[kmod, kbase, start, step, count], ..]]  rows
//!           (kbase + i % kmod, start + step * i), i < count, segments concatenated; routes as "j";
//!           out = ["ok", r1, r2], r = [[key, len, d1, d2, ms, mq, sub], ..] sorted by key.
//!   "expr": in = [k, seed, e]; e = [0] create | [1, e, v] add_input | [2, l, r] merge(l, r)
//!           | [3, vs] build_from_group(vs); out = ["ok", finish(e)].
use ibv::{Emitter, SplitMix64, Tier, drive, err, ok};
use ironbeam::collection::{CombineFn, LiftableCombiner};
use ironbeam::combiners::PriorityReservoir;
use ironbeam::{PCollection, Pipeline, RFBound, from_vec};
use std::collections::HashMap;
use std::sync::atomic::{AtomicUsize, Ordering};
use std::sync::{Mutex, OnceLock};
use serde_json::{Value, json};

fn ints(v: &Value) -> Vec<i64> {
    v.as_array().unwrap().iter().map(|x| x.as_i64().unwrap()).collect()
}
fn pairs(v: &Value) -> Vec<(i64, i64)> {
    v.as_array()
        .unwrap()
        .iter()
        .map(|p| (p[0].as_i64().unwrap(), p[1].as_i64().unwrap()))
        .collect()
}
fn seed_of(v: &Value) -> u64 {
    (v[0].as_u64().unwrap() << 32) | v[1].as_u64().unwrap()
}
/// k: plain integer, or [hi, lo] 32-bit halves (values >= 2^31, e.g. usize::MAX)
fn k_of(v: &Value) -> usize {
    match v.as_u64() {
        Some(k) => k as usize,
        None => ((v[0].as_u64().unwrap() << 32) | v[1].as_u64().unwrap()) as usize,
    }
}
fn k_json(k: usize) -> Value {
    if (k as u64) < (1u64 << 31) { json!(k) } else { json!([(k as u64) >> 32, (k as u64) & 0xffff_ffff]) }
}
const HUGE_K: [usize; 6] =
    [usize::MAX, 1usize << 63, (1usize << 63) + 1, (1usize << 63) - 1, 1usize << 62, 1_000_000_000];
fn seed_json(s: u64) -> Value {
    json!([s >> 32, s & 0xffff_ffff])
}

fn collect<T: ironbeam::RFBound>(
    c: ironbeam::PCollection<T>,
    mode: i64,
) -> Result<Vec<T>, anyhow::Error> {
    if mode < 0 { c.collect_seq() } else { c.collect_par(None, Some(mode as usize)) }
}

fn run_global(entry: i64, k: usize, seed: u64, mode: i64, data: &[i64]) -> Option<Value> {
    let p = Pipeline::default();
    let c = from_vec(&p, data.to_vec());
    if entry == 0 {
        collect(c.sample_reservoir_vec(k, seed), mode).ok().map(|v| json!(v))
    } else {
        collect(c.sample_reservoir(k, seed), mode).ok().map(|v| json!(v))
    }
}

fn run_keyed(entry: i64, k: usize, seed: u64, mode: i64, data: &[(i64, i64)]) -> Option<Value> {
    let p = Pipeline::default();
    let c = from_vec(&p, data.to_vec());
    if entry == 0 {
        collect(c.sample_values_reservoir_vec(k, seed), mode).ok().map(|mut v| {
            v.sort_by_key(|g| g.0); // stable
            Value::Array(v.into_iter().map(|(key, vs)| json!([key, vs])).collect())
        })
    } else {
        collect(c.sample_values_reservoir(k, seed), mode).ok().map(|mut v| {
            v.sort_by_key(|kv| kv.0); // stable: per-key order kept
            Value::Array(v.into_iter().map(|(key, x)| json!([key, x])).collect())
        })
    }
}


// ------------------------------------------------------------------ big / routed cases

const P1: u64 = 2_147_483_647;
const P2: u64 = 2_147_483_629;
/// [len, d1, d2, ms, mq] (mirrored by `digest` in Corr/C14.v)
fn digest(vs: &[i64]) -> Vec<Value> {
    let (mut d1, mut d2, mut ms, mut mq) = (7u64, 7u64, 0u64, 0u64);
    for &v in vs {
        let x = v as u64;
        let (x1, x2) = (x % P1, x % P2);
        d1 = (d1 * 1_000_003 + x1 + 1) % P1;
        d2 = (d2 * 2_000_003 + x2 + 1) % P2;
        ms = (ms + x1) % P1;
        mq = (mq + (x1 * x1) % P1) % P1;
    }
    vec![json!(vs.len()), json!(d1), json!(d2), json!(ms), json!(mq)]
}
/// every value of `sample` occurs in `input` at least as often
fn submultiset(sample: &[i64], input: &[i64]) -> bool {
    let mut cnt: HashMap<i64, i64> = HashMap::new();
    for &v in input {
        *cnt.entry(v).or_insert(0) += 1;
    }
    sample.iter().all(|v| match cnt.get_mut(v) {
        Some(c) if *c > 0 => {
            *c -= 1;
            true
        }
        _ => false,
    })
}
fn seg_rows(segs: &Value) -> Vec<(i64, i64)> {
    let mut rows = Vec::new();
    for s in segs.as_array().unwrap() {
        let f = |i: usize| s[i].as_i64().unwrap();
        let (kmod, kbase, start, step, count) = (f(0), f(1), f(2), f(3), f(4));
        for i in 0..count {
            rows.push((kbase + i % kmod, start + step * i));
        }
    }
    rows
}
/// first and second collect of the SAME collection
fn collect2<T: RFBound>(c: PCollection<T>, mode: i64) -> Option<[Vec<T>; 2]> {
    let a = collect(c.clone(), mode).ok()?;
    let b = collect(c, mode).ok()?;
    Some([a, b])
}
fn conv<A, V>(r: [Vec<A>; 2], f: impl Fn(A) -> Option<(i64, V)>) -> Option<[Vec<(i64, V)>; 2]> {
    let [a, b] = r;
    let a: Option<Vec<_>> = a.into_iter().map(&f).collect();
    let b: Option<Vec<_>> = b.into_iter().map(&f).collect();
    Some([a?, b?])
}
/// the per-key sample `s`, collected directly or through a join with the dimension table
fn routed<V: RFBound>(
    s: PCollection<(i64, V)>,
    dim: &PCollection<(i64, i64)>,
    route: i64,
    mode: i64,
) -> Option<[Vec<(i64, V)>; 2]> {
    let w_ok = |k: i64, w: i64| w == 3 * k + 1;
    let mut r = match route {
        0 => collect2(s, mode)?,
        1 => conv(collect2(s.join_inner(dim), mode)?, |(k, (v, w))| w_ok(k, w).then_some((k, v)))?,
        2 => conv(collect2(s.join_left(dim), mode)?, |(k, (v, w))| {
            w.is_some_and(|w| w_ok(k, w)).then_some((k, v))
        })?,
        _ => conv(collect2(dim.join_inner(&s), mode)?, |(k, (w, v))| w_ok(k, w).then_some((k, v)))?,
    };
    for x in &mut r {
        x.sort_by_key(|kv| kv.0); // stable: per-key order kept
    }
    Some(r)
}
/// entry 0: one (key, sample) row per output element; entry 1: the flattened rows grouped by key
fn run_routed(entry: i64, k: usize, seed: u64, mode: i64, route: i64, data: &[(i64, i64)]) -> Option<[Vec<(i64, Vec<i64>)>; 2]> {
    let p = Pipeline::default();
    let c = from_vec(&p, data.to_vec());
    let mut keys: Vec<i64> = data.iter().map(|kv| kv.0).collect();
    keys.sort_unstable();
    keys.dedup();
    let dim = from_vec(&p, keys.iter().map(|&k| (k, 3 * k + 1)).collect::<Vec<_>>());
    if entry == 0 {
        routed(c.sample_values_reservoir_vec(k, seed), &dim, route, mode)
    } else {
        let [a, b] = routed(c.sample_values_reservoir(k, seed), &dim, route, mode)?;
        let group = |v: Vec<(i64, i64)>| {
            let mut out: Vec<(i64, Vec<i64>)> = Vec::new();
            for (key, x) in v {
                match out.last_mut() {
                    Some(g) if g.0 == key => g.1.push(x),
                    _ => out.push((key, vec![x])),
                }
            }
            out
        };
        Some([group(a), group(b)])
    }
}
fn run_j(input: &Value) -> Value {
    let (entry, k) = (input[0].as_i64().unwrap(), k_of(&input[1]));
    let (seed, mode, route) = (seed_of(&input[2]), input[3].as_i64().unwrap(), input[4].as_i64().unwrap());
    match run_routed(entry, k, seed, mode, route, &pairs(&input[5])) {
        Some([a, b]) => {
            let enc = |g: Vec<(i64, Vec<i64>)>| {
                if entry == 0 {
                    Value::Array(g.into_iter().map(|(key, vs)| json!([key, vs])).collect())
                } else {
                    Value::Array(
                        g.into_iter().flat_map(|(key, vs)| vs.into_iter().map(move |v| json!([key, v]))).collect(),
                    )
                }
            };
            json!(["ok", enc(a), enc(b)])
        }
        None => err("other"),
    }
}
fn run_bk(input: &Value) -> Value {
    let (entry, k) = (input[0].as_i64().unwrap(), k_of(&input[1]));
    let (seed, mode, route) = (seed_of(&input[2]), input[3].as_i64().unwrap(), input[4].as_i64().unwrap());
    let data = seg_rows(&input[5]);
    let mut by_key: HashMap<i64, Vec<i64>> = HashMap::new();
    for &(key, v) in &data {
        by_key.entry(key).or_default().push(v);
    }
    match run_routed(entry, k, seed, mode, route, &data) {
        Some([a, b]) => {
            let enc = |g: Vec<(i64, Vec<i64>)>| {
                Value::Array(
                    g.into_iter()
                        .map(|(key, vs)| {
                            let mut row = vec![json!(key)];
                            row.extend(digest(&vs));
                            row.push(json!(submultiset(&vs, by_key.get(&key).map_or(&[][..], |v| &v[..]))));
                            Value::Array(row)
                        })
                        .collect(),
                )
            };
            json!(["ok", enc(a), enc(b)])
        }
        None => err("other"),
    }
}
fn run_bg(input: &Value) -> Value {
    let (entry, k) = (input[0].as_i64().unwrap(), k_of(&input[1]));
    let (seed, mode) = (seed_of(&input[2]), input[3].as_i64().unwrap());
    let f = |i: usize| input[4][i].as_i64().unwrap();
    let (start, step, n) = (f(0), f(1), f(2));
    let data: Vec<i64> = (0..n).map(|i| start + step * i).collect();
    let p = Pipeline::default();
    let c = from_vec(&p, data.clone());
    let row = |shape: bool, s: &[i64]| {
        let mut r = vec![json!(shape)];
        r.extend(digest(s));
        r.push(json!(submultiset(s, &data)));
        Value::Array(r)
    };
    let rows: Option<Vec<Value>> = if entry == 0 {
        collect2(c.sample_reservoir_vec(k, seed), mode).map(|r| {
            r.iter().map(|v| row(v.len() == 1, &v.concat())).collect()
        })
    } else {
        collect2(c.sample_reservoir(k, seed), mode).map(|r| r.iter().map(|v| row(true, v)).collect())
    };
    match rows {
        Some(r) => json!(["ok", r[0], r[1]]),
        None => err("other"),
    }
}

fn eval<A, C>(c: &C, e: &Value) -> A
where
    C: CombineFn<i64, A, Vec<i64>> + LiftableCombiner<i64, A, Vec<i64>>,
{
    match e[0].as_i64().unwrap() {
        0 => c.create(),
        1 => {
            let mut a = eval(c, &e[1]);
            c.add_input(&mut a, e[2].as_i64().unwrap());
            a
        }
        2 => {
            let mut a = eval(c, &e[1]);
            let b = eval(c, &e[2]);
            c.merge(&mut a, b);
            a
        }
        _ => c.build_from_group(&ints(&e[1])),
    }
}

// ------------------------------------------------------------------ input validation
// (the shrinker of check.py mutates inputs blindly; a malformed one must be reported as
// ["invalid"], not as a panic of the code under test)
fn is_half(v: &Value) -> bool {
    v.as_u64().is_some_and(|x| x < (1u64 << 32))
}
fn is_halves(v: &Value) -> bool {
    v.as_array().is_some_and(|a| a.len() == 2 && is_half(&a[0]) && is_half(&a[1]))
}
fn is_k(v: &Value) -> bool {
    v.as_u64().is_some_and(|x| x < (1u64 << 31)) || is_halves(v)
}
fn is_small(v: &Value) -> bool {
    v.as_i64().is_some_and(|x| x.abs() < (1i64 << 40))
}
fn is_ints(v: &Value) -> bool {
    v.as_array().is_some_and(|a| a.iter().all(is_small))
}
fn is_pairs(v: &Value) -> bool {
    v.as_array().is_some_and(|a| {
        a.iter().all(|p| p.as_array().is_some_and(|q| q.len() == 2 && is_small(&q[0]) && is_small(&q[1])))
    })
}
fn is_mode(v: &Value) -> bool {
    v.as_i64().is_some_and(|m| (-1..=1_000_000).contains(&m))
}
fn is_entry(v: &Value) -> bool {
    v.as_i64().is_some_and(|e| e == 0 || e == 1)
}
fn is_expr(e: &Value) -> bool {
    let Some(a) = e.as_array() else { return false };
    match (a.first().and_then(Value::as_i64), a.len()) {
        (Some(0), 1) => true,
        (Some(1), 3) => is_expr(&a[1]) && is_small(&a[2]),
        (Some(2), 3) => is_expr(&a[1]) && is_expr(&a[2]),
        (Some(3), 2) => is_ints(&a[1]),
        _ => false,
    }
}
fn valid(kind: &str, input: &Value) -> bool {
    let Some(a) = input.as_array() else { return false };
    let head = |n: usize| a.len() == n && is_entry(&a[0]) && is_k(&a[1]) && is_halves(&a[2]) && is_mode(&a[3]);
    match kind {
        "g" => head(5) && is_ints(&a[4]),
        "k" => head(5) && is_pairs(&a[4]),
        "cmpg" => head(6) && is_mode(&a[4]) && is_ints(&a[5]),
        "cmpk" => head(6) && is_mode(&a[4]) && is_pairs(&a[5]),
        "j" => head(6) && a[4].as_i64().is_some_and(|r| (0..=3).contains(&r)) && is_pairs(&a[5]),
        "bg" => {
            head(5)
                && a[4].as_array().is_some_and(|r| {
                    r.len() == 3
                        && r.iter().all(|x| x.as_i64().is_some_and(|x| (0..(1i64 << 41)).contains(&x)))
                        && r[2].as_i64().unwrap() <= 2_000_000
                        && r[1].as_i64().unwrap() < (1i64 << 21) // start + step * n < 2^62
                })
        }
        "bk" => {
            head(6)
                && a[4].as_i64().is_some_and(|r| (0..=3).contains(&r))
                && a[5].as_array().is_some_and(|segs| {
                    segs.iter().all(|s| {
                        s.as_array().is_some_and(|r| {
                            r.len() == 5
                                && r.iter().all(|x| x.as_i64().is_some_and(|x| (0..(1i64 << 41)).contains(&x)))
                                && r[0].as_i64().unwrap() >= 1
                                && r[0].as_i64().unwrap() <= 1000
                                && r[3].as_i64().unwrap() < (1i64 << 21)
                                && r[4].as_i64().unwrap() <= 2_000_000
                        })
                    })
                })
        }
        "expr" => a.len() == 3 && is_k(&a[0]) && is_halves(&a[1]) && is_expr(&a[2]),
        _ => false,
    }
}

/// observations of the heavy generated cases, computed ahead of emission on several threads
/// (`Buf::flush`); replayed / shrunk cases are never in here
static PRECOMPUTED: OnceLock<Mutex<HashMap<String, Value>>> = OnceLock::new();
fn cache_key(kind: &str, input: &Value) -> String {
    format!("{kind}|{input}")
}

fn run(kind: &str, input: &Value) -> Value {
    if !valid(kind, input) {
        return json!(["invalid"]);
    }
    if let Some(m) = PRECOMPUTED.get()
        && let Some(v) = m.lock().unwrap().remove(&cache_key(kind, input))
    {
        return v;
    }
    run_valid(kind, input)
}

fn run_valid(kind: &str, input: &Value) -> Value {
    match kind {
        "g" | "k" => {
            let (entry, k) = (input[0].as_i64().unwrap(), k_of(&input[1]));
            let (seed, mode) = (seed_of(&input[2]), input[3].as_i64().unwrap());
            let once = || {
                if kind == "g" {
                    run_global(entry, k, seed, mode, &ints(&input[4]))
                } else {
                    run_keyed(entry, k, seed, mode, &pairs(&input[4]))
                }
            };
            match (once(), once()) {
                (Some(a), Some(b)) => json!(["ok", a, b]),
                _ => err("other"),
            }
        }
        "cmpg" | "cmpk" => {
            let (entry, k) = (input[0].as_i64().unwrap(), k_of(&input[1]));
            let seed = seed_of(&input[2]);
            let (m1, m2) = (input[3].as_i64().unwrap(), input[4].as_i64().unwrap());
            let one = |m: i64| {
                if kind == "cmpg" {
                    run_global(entry, k, seed, m, &ints(&input[5]))
                } else {
                    run_keyed(entry, k, seed, m, &pairs(&input[5]))
                }
            };
            match (one(m1), one(m2)) {
                (Some(a), Some(b)) => json!(["ok", a, b]),
                _ => err("other"),
            }
        }
        "j" => run_j(input),
        "bg" => run_bg(input),
        "bk" => run_bk(input),
        "expr" => {
            let c = PriorityReservoir::<i64>::new(k_of(&input[0]), seed_of(&input[1]));
            let acc = eval(&c, &input[2]);
            ok(json!(c.finish(acc)))
        }
        _ => json!(["bad-kind"]),
    }
}

// ------------------------------------------------------------------ generator

/// data patterns: 0 = distinct 0..n, 1 = i % 3 (heavy duplicates), 2 = all equal, 3 = descending
fn pattern(p: u64, n: usize) -> Vec<i64> {
    (0..n as i64)
        .map(|i| match p {
            0 => i,
            1 => i % 3,
            2 => 7,
            _ => n as i64 - i,
        })
        .collect()
}
fn keyed_of(data: &[i64], nkeys: i64) -> Vec<(i64, i64)> {
    data.iter().enumerate().map(|(i, &v)| ((i as i64 * 7 + v) % nkeys, v)).collect()
}
fn jpairs(d: &[(i64, i64)]) -> Value {
    Value::Array(d.iter().map(|(a, b)| json!([a, b])).collect())
}

const SEEDS: [u64; 6] = [
    0,
    1,
    42,
    u64::MAX,
    // the first / second stream value of these seeds has `next >> 11 == 0` (the `u == 0.0` branch)
    1_540_892_849_553_036_568,
    3_463_930_178_354_850_006,
];

fn nontrivial(n: usize, k: usize, mode: i64) -> bool {
    n >= 2 && k >= 1 && (k < n || mode >= 2)
}

fn gen_expr(rng: &mut SplitMix64, depth: u32, budget: &mut i64) -> Value {
    if depth == 0 || *budget <= 0 {
        return if rng.chance(1, 3) {
            json!([0])
        } else {
            let n = rng.below(6) as usize;
            *budget -= n as i64;
            json!([3, (0..n).map(|_| rng.range(0, 9)).collect::<Vec<_>>()])
        };
    }
    match rng.below(5) {
        0 | 1 => {
            let e = gen_expr(rng, depth - 1, budget);
            *budget -= 1;
            json!([1, e, rng.range(0, 9)])
        }
        2 | 3 => {
            let l = gen_expr(rng, depth - 1, budget);
            let r = gen_expr(rng, depth - 1, budget);
            json!([2, l, r])
        }
        _ => gen_expr(rng, 0, budget),
    }
}

/// Generated cases are buffered so that the expensive ones (inputs of 10^4 .. 10^5 elements, about
/// 1 .. 3 s each on the Coq side) can be spread evenly over the 16 judging shards.
#[derive(Default)]
struct Buf {
    small: Vec<(String, Value, bool, Vec<String>)>,
    big: Vec<(u64, (String, Value, bool, Vec<String>))>,
}
impl Buf {
    fn case(&mut self, kind: &str, input: Value, nontrivial: bool, tags: &[&str]) {
        self.small.push((kind.into(), input, nontrivial, tags.iter().map(|t| (*t).into()).collect()));
    }
    fn heavy(&mut self, weight: u64, kind: &str, input: Value, nontrivial: bool, tags: &[&str]) {
        let c = (kind.into(), input, nontrivial, tags.iter().map(|t| (*t).into()).collect());
        self.big.push((weight, c));
    }
    fn flush(mut self, em: &mut Emitter) {
        const SHARDS: usize = 16;
        // run the heavy cases now, a few at a time (each pipeline is independent; a panic is an
        // observation like any other)
        {
            let next = AtomicUsize::new(0);
            let out: Mutex<HashMap<String, Value>> = Mutex::new(HashMap::new());
            let jobs = &self.big;
            let workers = std::thread::available_parallelism().map_or(4, |n| n.get()).clamp(1, 12);
            std::thread::scope(|sc| {
                for _ in 0..workers {
                    sc.spawn(|| {
                        loop {
                            let i = next.fetch_add(1, Ordering::SeqCst);
                            let Some((_, (kind, input, _, _))) = jobs.get(i) else { break };
                            let v = ibv::run_caught(&run, kind, input);
                            out.lock().unwrap().insert(cache_key(kind, input), v);
                        }
                    });
                }
            });
            let _ = PRECOMPUTED.set(Mutex::new(out.into_inner().unwrap()));
        }
        // heaviest first, dealt round-robin to the shards
        self.big.sort_by(|a, b| b.0.cmp(&a.0));
        let mut per: Vec<Vec<(String, Value, bool, Vec<String>)>> = (0..SHARDS).map(|_| Vec::new()).collect();
        for (i, (_, c)) in self.big.into_iter().enumerate() {
            per[i % SHARDS].push(c);
        }
        let total = self.small.len() + per.iter().map(Vec::len).sum::<usize>();
        let chunk = total.div_ceil(SHARDS).max(1);
        let mut small = self.small.into_iter();
        for bigs in per {
            let nsmall = chunk.saturating_sub(bigs.len());
            for (kind, input, nt, tags) in bigs {
                let t: Vec<&str> = tags.iter().map(String::as_str).collect();
                em.case(&kind, input, nt, &t);
            }
            for (kind, input, nt, tags) in small.by_ref().take(nsmall) {
                let t: Vec<&str> = tags.iter().map(String::as_str).collect();
                em.case(&kind, input, nt, &t);
            }
        }
        for (kind, input, nt, tags) in small {
            let t: Vec<&str> = tags.iter().map(String::as_str).collect();
            em.case(&kind, input, nt, &t);
        }
    }
}

fn generate(seed: u64, tier: Tier, em: &mut Emitter) {
    let mut b = Buf::default();
    gen_all(seed, tier, &mut b);
    b.flush(em);
}

/// the ten ways a sample of a range is taken: global (`bg`, entry 0/1) and per key (`bk`, entry 0/1,
/// route 0 = collected directly, 1..3 = through a join)
const VARIANTS: [(bool, i64, i64); 10] = [
    (false, 0, 0),
    (false, 1, 0),
    (true, 0, 0),
    (true, 1, 0),
    (true, 0, 1),
    (true, 1, 1),
    (true, 0, 2),
    (true, 1, 2),
    (true, 0, 3),
    (true, 1, 3),
];
/// one compact case: `n` values under the sampled key (or globally), sample size `k`
fn compact(variant: usize, k: usize, s: u64, mode: i64, n: usize, shape: u64) -> (&'static str, Value, u64) {
    let (keyed, entry, route) = VARIANTS[variant % 10];
    let n = n as i64;
    if !keyed {
        let (start, step) = match shape % 4 {
            0 => (0i64, 1i64),
            1 => (5, 3),
            2 => (1000, 0), // all values equal
            _ => (1i64 << 40, 1i64 << 20),
        };
        ("bg", json!([entry, k_json(k), seed_json(s), mode, [start, step, n]]), n as u64)
    } else {
        // the sampled key 5 holds n values; smaller keys around it / interleaved with it
        let (segs, rows) = match shape % 4 {
            0 => (json!([[1, 5, 0, 1, n], [2, 8, 1_000_000, 1, 6]]), n + 6),
            1 => (json!([[2, 2, 7, 0, 4], [1, 5, 0, 2, n], [1, 9, 3, 1, 1]]), n + 5),
            2 => (json!([[2, 4, 10, 1, 2 * n]]), 2 * n), // keys 4 and 5 interleaved, n values each
            _ => (json!([[1, 5, 0, 1, n / 2], [1, 6, 0, 1, 3], [1, 5, 1 << 30, 5, n - n / 2]]), n + 3),
        };
        ("bk", json!([entry, k_json(k), seed_json(s), mode, route, segs]), rows as u64)
    }
}

fn gen_all(seed: u64, tier: Tier, em: &mut Buf) {
    let thorough = tier == Tier::Thorough;
    // 1. the documented witness and its neighbourhood (also in corpus/C14.jsonl)
    let d20: Vec<i64> = (0..20).collect();
    for entry in 0..2 {
        for mode in [-1i64, 1, 2, 3, 4, 5, 20] {
            em.case("g", json!([entry, 5, seed_json(42), mode, d20]), true, &["witness-nbhd"]);
        }
    }

    // 2. exhaustive small space, all four entry points: n <= nmax, k in 0..=n+1, every mode in
    //    -1..=n+1, boundary seeds, distinct and duplicate-heavy data
    let nmax = if thorough { 9 } else { 6 };
    for n in 0..=nmax {
        for k in 0..=n + 1 {
            for mode in -1..=(n as i64 + 1) {
                for (si, &s) in SEEDS.iter().enumerate() {
                    if !thorough && si >= 4 && n > 4 {
                        continue;
                    }
                    for pat in 0..2u64 {
                        let data = pattern(pat, n);
                        let entry = ((n + k + si) % 2) as i64 ^ (pat as i64);
                        let nt = nontrivial(n, k, mode);
                        em.case("g", json!([entry & 1, k, seed_json(s), mode, data]), nt, &["small"]);
                        if si < 4 {
                            let kd = keyed_of(&data, 2);
                            em.case(
                                "k",
                                json!([(entry + 1) & 1, k, seed_json(s), mode, jpairs(&kd)]),
                                nt,
                                &["small"],
                            );
                        }
                    }
                }
            }
        }
    }

    // 2b. "take everything" sample sizes: usize::MAX, 2^63, 2^63 +- 1, 2^62, 10^9 on all four entry
    //     points, sequential and parallel (expected: all n elements, per key)
    for &hk in &HUGE_K {
        for n in [0usize, 1, 2, 5, 12] {
            for mode in [-1i64, 0, 1, 2, 3, n as i64, n as i64 + 1] {
                for (si, &s) in [42u64, u64::MAX].iter().enumerate() {
                    let data = pattern((n + si) as u64 % 2, n);
                    let kd = keyed_of(&data, 3);
                    for entry in 0..2 {
                        em.case("g", json!([entry, k_json(hk), seed_json(s), mode, data]), n >= 2, &["huge-k"]);
                        em.case("k", json!([entry, k_json(hk), seed_json(s), mode, jpairs(&kd)]), n >= 2, &["huge-k"]);
                    }
                }
            }
        }
        let d7: Vec<i64> = (0..7).collect();
        em.case("cmpg", json!([0, k_json(hk), seed_json(42), -1, 3, d7]), true, &["huge-k", "cmp"]);
        em.case("cmpk", json!([0, k_json(hk), seed_json(42), -1, 3, jpairs(&keyed_of(&d7, 2))]), true, &["huge-k", "cmp"]);
        em.case("expr", json!([k_json(hk), seed_json(5), [2, [3, [1, 2, 3]], [1, [2, [0], [3, [4, 5]]], 6]]]), true, &["huge-k", "expr"]);
    }

    // 3. seeded random, n up to 40 (thorough: 120)
    let mut rng = SplitMix64::new(seed ^ 0xC14);
    let nrand = if thorough { 20000 } else { 2600 };
    let nlim = if thorough { 120 } else { 40 };
    for i in 0..nrand {
        let n = if rng.chance(1, 8) { rng.below(4) } else { rng.below(nlim + 1) } as usize;
        let k = match rng.below(7) {
            0 => 0,
            1 => n,
            2 => n + 1,
            3 => 1,
            4 => *rng.pick(&HUGE_K),
            _ => rng.below(n as u64 + 2) as usize,
        };
        let s = match rng.below(8) {
            0 => 0,
            1 => u64::MAX,
            2 => *rng.pick(&SEEDS),
            3 => rng.below(100),
            _ => rng.next_u64(),
        };
        let mode = match rng.below(8) {
            0 => -1,
            1 => 0,
            2 => 64,
            3 => n as i64,
            _ => rng.range(1, n as i64 + 2),
        };
        let range = *rng.pick(&[1i64, 3, 10, 1000]);
        let data: Vec<i64> = (0..n).map(|_| rng.range(0, range)).collect();
        let entry = rng.below(2) as i64;
        let nt = nontrivial(n, k, mode);
        match i % 5 {
            0 | 1 => em.case("g", json!([entry, k_json(k), seed_json(s), mode, data]), nt, &["random"]),
            2 | 3 => {
                let nkeys = *rng.pick(&[1i64, 2, 3, 5]);
                let kd: Vec<(i64, i64)> =
                    data.iter().map(|&v| (rng.range(0, nkeys - 1), v)).collect();
                em.case("k", json!([entry, k_json(k), seed_json(s), mode, jpairs(&kd)]), nt, &["random"]);
            }
            _ => {
                // direct combiner: arbitrary merge shapes incl. empty accumulators
                let mut budget = 30i64;
                let e = gen_expr(&mut rng, 5, &mut budget);
                let kk = if rng.chance(1, 5) { *rng.pick(&HUGE_K) } else { rng.below(8) as usize };
                em.case("expr", json!([k_json(kk), seed_json(s), e]), kk >= 1, &["random", "expr"]);
            }
        }
    }

    // 4. cross-partitioning comparisons (the documented "identical for sequential and parallel
    //    execution and for every partitioning").  Each is also emitted as plain "g"/"k" cases so
    //    that size / sub-multiset / model agreement are judged outside the known-finding class.
    let ncmp = if thorough { 4000 } else { 700 };
    for i in 0..ncmp {
        let n = rng.below(if i % 3 == 0 { 6 } else { 31 }) as usize;
        let k = match rng.below(6) {
            0 => 0,
            1 => n,
            2 => n + 1,
            3 => *rng.pick(&HUGE_K),
            _ => rng.below(n as u64 + 2) as usize,
        };
        let s = if rng.chance(1, 4) { *rng.pick(&SEEDS) } else { rng.next_u64() };
        let m1 = if rng.chance(1, 2) { -1 } else { rng.range(0, n as i64 + 1) };
        let m2 = rng.range(0, n as i64 + 1);
        let entry = rng.below(2) as i64;
        let range = *rng.pick(&[2i64, 10, 1000]);
        let data: Vec<i64> = (0..n).map(|_| rng.range(0, range)).collect();
        let nt = n >= 2 && k >= 1;
        if i % 2 == 0 {
            em.case("cmpg", json!([entry, k_json(k), seed_json(s), m1, m2, data]), nt, &["cmp"]);
            em.case("g", json!([entry, k_json(k), seed_json(s), m1, data]), nt, &["cmp-side"]);
            em.case("g", json!([entry, k_json(k), seed_json(s), m2, data]), nt, &["cmp-side"]);
        } else {
            let nkeys = *rng.pick(&[1i64, 2, 3]);
            let kd: Vec<(i64, i64)> = data.iter().map(|&v| (rng.range(0, nkeys - 1), v)).collect();
            em.case("cmpk", json!([entry, k_json(k), seed_json(s), m1, m2, jpairs(&kd)]), nt, &["cmp"]);
            em.case("k", json!([entry, k_json(k), seed_json(s), m1, jpairs(&kd)]), nt, &["cmp-side"]);
            em.case("k", json!([entry, k_json(k), seed_json(s), m2, jpairs(&kd)]), nt, &["cmp-side"]);
        }
    }

    // 5. per-key samples that feed a join (the un-lifted GroupByKey + group-wise combine route),
    //    explicit rows, bit-exact: exhaustive small space, then random
    for n in 0..=4usize {
        for k in 0..=n + 1 {
            for mode in -1..=(n as i64 + 1) {
                for route in 1..=3i64 {
                    for entry in 0..2i64 {
                        let si = (n + k + route as usize + entry as usize) % 4;
                        let data = pattern((n + k) as u64 % 2, n);
                        let kd = keyed_of(&data, 2);
                        em.case(
                            "j",
                            json!([entry, k, seed_json(SEEDS[si]), mode, route, jpairs(&kd)]),
                            n >= 2 && k >= 1,
                            &["join", "small"],
                        );
                    }
                }
            }
        }
    }
    let nj = if thorough { 4000 } else { 500 };
    for _ in 0..nj {
        let n = if rng.chance(1, 6) { rng.below(4) } else { rng.below(nlim + 1) } as usize;
        let k = match rng.below(7) {
            0 => 0,
            1 => n,
            2 => n + 1,
            3 => 1,
            4 => *rng.pick(&HUGE_K),
            _ => rng.below(n as u64 + 2) as usize,
        };
        let s = if rng.chance(1, 4) { *rng.pick(&SEEDS) } else { rng.next_u64() };
        let mode = match rng.below(6) {
            0 => -1,
            1 => 0,
            2 => 64,
            _ => rng.range(1, n as i64 + 2),
        };
        let nkeys = *rng.pick(&[1i64, 2, 3, 5]);
        let range = *rng.pick(&[1i64, 3, 10, 1000]);
        let kd: Vec<(i64, i64)> = (0..n).map(|_| (rng.range(0, nkeys - 1), rng.range(0, range))).collect();
        let route = if rng.chance(1, 8) { 0 } else { rng.range(1, 3) };
        em.case(
            "j",
            json!([rng.below(2), k_json(k), seed_json(s), mode, route, jpairs(&kd)]),
            n >= 2 && k >= 1,
            &["join", "random"],
        );
    }

    // 6. sizes: every power of two (and 20) from 16 up to 65536, n and k on both sides of it, then
    //    70 000 and 100 000; all ten variants (global / per key, vec / flattened, collected directly /
    //    through a join), sequential and partitioned.  Compact inputs, digested observations.
    let modes = [-1i64, 1, 2, 3, 7, 16, 64, 0];
    let mut idx = seed as usize;
    let small_t: &[usize] = &[16, 20, 32, 64, 128, 256, 512, 1024, 2048, 4096];
    for &t in small_t {
        for (n, k) in [(t + 1, t), (t + 1, t + 1), (t + 2, t + 1), (t, t - 1), (t - 1, t), (2 * t + 1, t + 1), (t + 1, usize::MAX)] {
            for v in 0..10 {
                idx += 1;
                let mode = if idx % 5 == 0 { n as i64 } else { modes[idx % modes.len()] };
                let s = if idx % 3 == 0 { SEEDS[idx % 4] } else { rng.next_u64() };
                let shape = if t > 1024 && idx % 4 == 2 { 0 } else { idx as u64 };
                let (kind, input, w) = compact(v, k, s, mode, n, shape);
                if w > 3000 {
                    em.heavy(w, kind, input, true, &["sizes"]);
                } else {
                    em.case(kind, input, true, &["sizes"]);
                }
            }
        }
    }
    let mid_t: &[usize] = if thorough { &[8192, 16384, 32768, 131_072] } else { &[8192, 16384, 32768] };
    for &t in mid_t {
        let pairs = [(t + 1, t), (t + 1, t + 1), (t + 2, t + 1), (t + 1, usize::MAX), (t, t - 1), (t + t / 2, t + 1)];
        let reps = if thorough { 20 } else if t == 8192 { 10 } else { 6 };
        for i in 0..reps {
            idx += 1;
            let (n, k) = pairs[(i + idx) % pairs.len()];
            let mode = modes[idx % 6];
            let (kind, input, w) = compact(i + seed as usize, k, rng.next_u64(), mode, n, if idx % 3 == 0 { 1 } else { 0 });
            em.heavy(w, kind, input, true, &["sizes", "large"]);
        }
    }
    // both sides above 65 536 (and the boundary itself)
    let top = [
        (65_537usize, 65_537usize),
        (65_537, usize::MAX),
        (65_538, 65_537),
        (70_000, 69_999),
        (70_000, 1 << 31),
        (100_000, 65_537),
        (100_000, 99_999),
        (70_000, 70_000),
        (65_537, 65_536),
        (65_536, 65_537),
        (100_000, 1 << 63),
        (80_000, 70_001),
    ];
    let ntop = if thorough { 120 } else { 40 };
    for i in 0..ntop {
        idx += 1;
        let (n, k) = top[(i / 10 + i + seed as usize) % top.len()];
        let mode = [-1i64, 1, 3, 16, -1, 2, 64, 5][(i * 3 + idx) % 8];
        let s = if i % 4 == 0 { 42 } else { rng.next_u64() };
        let shape = if i % 10 >= 2 && (i / 10) % 4 == 3 { 3 } else if i % 7 == 3 { 1 } else { 0 };
        let (kind, input, w) = compact(i, k, s, mode, n, shape);
        em.heavy(w, kind, input, true, &["sizes", "huge"]);
    }

    // 7. random mid-size compact cases
    let nmid = if thorough { 1500 } else { 260 };
    for _ in 0..nmid {
        let n = match rng.below(3) {
            0 => rng.range(41, 200),
            1 => rng.range(200, 1000),
            _ => rng.range(1000, 3000),
        } as usize;
        let k = match rng.below(8) {
            0 => 0,
            1 => n,
            2 => n + 1,
            3 => n - 1,
            4 => 1,
            5 => *rng.pick(&HUGE_K),
            _ => rng.below(n as u64 + 2) as usize,
        };
        let s = match rng.below(6) {
            0 => *rng.pick(&SEEDS),
            1 => rng.below(100),
            _ => rng.next_u64(),
        };
        let mode = match rng.below(8) {
            0 | 1 => -1,
            2 => 0,
            3 => 64,
            4 => n as i64,
            5 => rng.range(2, 9),
            _ => rng.range(1, n as i64 + 2),
        };
        let (kind, input, _) = compact(rng.below(10) as usize, k, s, mode, n, rng.below(8));
        em.case(kind, input, k >= 1, &["sizes", "random"]);
    }
}

fn main() {
    drive(&generate, &run);
}
