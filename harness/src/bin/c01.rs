//! C01: sequential and parallel execution return the same result.
//! Every case builds the REAL pipeline twice and collects it with `collect_seq` and with
//! `collect_par(threads, partitions)`; the judge is Corr/C01.v.
use ibv::engine::*;
use ibv::{Emitter, Tier, drive};
use serde_json::Value;

const DIR: &str = "/verif/run/C01";

fn bx<T>(x: T) -> Box<T> {
    Box::new(x)
}

fn sweep_programs() -> Vec<(Shape, Vec<Step>)> {
    let right = vec![pair(Val::Int(0), Val::Int(5)), pair(Val::Int(1), Val::Int(6)),
                     pair(Val::Int(1), Val::Int(7)), pair(Val::Int(9), Val::Int(8))];
    vec![
        (Shape::U, vec![
            Step::Map(EFun::Add(1)),
            Step::Filter(PFun::Not(bx(PFun::ModEq(3, 0)))),
            Step::FlatMap(GFun::UpTo(3)),
            Step::MapBatches(3, BFun::Each(EFun::Comp(bx(EFun::Mul(5)), bx(EFun::Mod(97))))),
        ]),
        (Shape::KV, vec![
            Step::MapValues(EFun::Add(2)),
            Step::GroupByKey,
            Step::CombineValuesLifted(Cid::Sum),
        ]),
        (Shape::KV, vec![Step::CombineValues(Cid::TopK(2)), Step::GroupsToList]),
        (Shape::U, vec![
            Step::Filter(PFun::Not(bx(PFun::ModEq(4, 1)))),
            Step::CombineGlobally(Cid::Sum, false, Some(1)),
        ]),
        (Shape::U, vec![
            Step::KeyBy(EFun::Mod(3)),
            Step::DistinctPerKey,
            Step::Unkey,
            Step::Distinct,
        ]),
        (Shape::KV, vec![
            Step::Join(JoinKind::Left,
                       vec![Step::GroupByKey, Step::CombineValuesLifted(Cid::Count)], right.clone()),
            Step::FilterValues(PFun::True),
        ]),
        (Shape::U, vec![Step::MapBatches(3, BFun::Rev)]),
        (Shape::U, vec![
            Step::CombineGlobally(Cid::Distinct, true, Some(0)),
            Step::FlatMap(GFun::Elems),
            Step::CombineGlobally(Cid::Max, true, Some(2)),
        ]),
        (Shape::KV, vec![
            Step::GroupByKey,
            Step::FlatMap(GFun::Elems),
            Step::Join(JoinKind::Full, vec![], right),
        ]),
    ]
}

fn generate(seed: u64, tier: Tier, em: &mut Emitter) {
    let progs = sweep_programs();
    let mut rng = ibv::SplitMix64::new(seed ^ 0xC01);
    sweep_grid(|n, parts, idx| {
        let Some(parts) = parts else { return };
        for (j, (shape, steps)) in progs.iter().enumerate() {
            if tier == Tier::Quick && idx % progs.len() != j {
                continue;
            }
            let src = sweep_src(*shape, n, n + j, &mut rng);
            emit_pair(em, &src, steps, parts, &["sweep"]);
        }
    });
    // empty streamed sources: no partition at all (empty file) / only empty partitions
    for src in [Src::Sharded(Shape::U, vec![], 0), Src::Sharded(Shape::U, vec![vec![], vec![]], 2),
                Src::Sharded(Shape::KV, vec![], 0)] {
        for parts in [0usize, 1, 4] {
            let progs: Vec<Vec<Step>> = if src.shape() == Shape::U {
                vec![vec![], vec![Step::CombineGlobally(Cid::Count, false, Some(1))],
                     vec![Step::CombineGlobally(Cid::TopK(1), true, None)], vec![Step::Distinct],
                     vec![Step::KeyBy(EFun::Id), Step::GroupByKey]]
            } else {
                vec![vec![Step::GroupByKey], vec![Step::CombineValues(Cid::Sum)],
                     vec![Step::Join(JoinKind::Full, vec![], vec![pair(Val::Int(1), Val::Int(2))])]]
            };
            for steps in progs {
                emit_pair(em, &src, &steps, parts, &["sweep", "empty_source"]);
            }
        }
    }
    // every barrier kind on the left and on the right side of a join (run_subplan_par's arms)
    for (src, steps, parts) in join_side_barrier_cases(&mut rng, tier != Tier::Quick) {
        emit_pair(em, &src, &steps, parts, &["sweep", "join_side_barrier"]);
    }
    // partitions emptied by an upstream filter (first / last / middle / all but one / all):
    // on a barrier-free join side (the coalesce closures), and in front of every barrier kind
    let full = tier != Tier::Quick;
    for (src, steps, parts, pat) in emptied_join_cases(full) {
        emit_pair(em, &src, &steps, parts, &["sweep", "emptied_partition", "emptied_join_side", pat]);
    }
    for (src, steps, parts, pat) in emptied_barrier_cases(full) {
        emit_pair(em, &src, &steps, parts, &["sweep", "emptied_partition", "emptied_before_barrier", pat]);
    }
    // TopK over shuffled / descending / zig-zag data (the slow merge path), debug taps on big partitions
    for (src, steps, parts) in topk_cases(&mut rng, full) {
        emit_pair(em, &src, &steps, parts, &["sweep", "topk_non_monotone"]);
    }
    for n in [25usize, 40] {
        for k in [0usize, 2, 14, 60] {
            for parts in [1usize, 2, 3] {
                let u = Src::Vec(Shape::U, ints(n, &mut rng));
                emit_pair(em, &u, &[Step::Debug(k), Step::CustomMap(EFun::Add(1)), Step::Debug(1)], parts,
                          &["sweep", "debug_tap"]);
            }
        }
    }
    // a slow first partition: later partitions finish their local phase first (4 threads)
    for (src, steps, parts) in slow_head_cases(full) {
        emit_pair(em, &src, &steps, parts, &["sweep", "slow_first_partition"]);
    }
    // more than 64 effective partitions
    for (src, steps, parts) in many_partition_cases(full) {
        emit_pair(em, &src, &steps, parts, &["sweep", "many_partitions"]);
    }
    // branching programs: three handles built first, then collected in both modes
    let mut rngb = seed_mix(seed, 0xC01_0003);
    let mut made = 0;
    while made < (if full { 1000 } else { 120 }) {
        let n = gen_len(&mut rngb);
        let src = gen_src(&mut rngb, n, true, true);
        let parts = gen_parts(&mut rngb, src.len());
        let mut o = GenOpts::all();
        o.side_inputs = true;
        o.joins = rngb.chance(1, 4);
        if rngb.chance(1, 2) {
            o.barriers = false;
            o.joins = false;
        }
        let Some((pre, a, b)) = gen_branch(&mut rngb, &src, &o, parts) else { continue };
        let all = [pre.clone(), a.clone(), b.clone()].concat();
        let mut tags = case_tags(&src, &all, Mode::Par(parts), &["random"]);
        tags.push("branch".into());
        let tr: Vec<&str> = tags.iter().map(String::as_str).collect();
        em.case("branchpair", branch_input(&src, &pre, &a, &b, Mode::Par(parts)),
                nontrivial(&src, &all, Mode::Par(parts), false), &tr);
        made += 1;
    }
    let mut rng = seed_mix(seed, 0xC01_0002);
    let count = if tier == Tier::Quick { 600 } else { 9000 };
    // big inputs (around 65 536 rows; partitions over 4096 rows; groups over 128 values)
    let mut big: Vec<BigCase> = vec![];
    for (i, (n, p)) in big_grid(full).into_iter().enumerate() {
        if full || i < 2 {
            big.push(("bigpair", range_src(Shape::U, n), big_chain(), Mode::Par(p)));
        }
        if full && i % 4 == 0 || i == 0 {
            big.push(("bigpair", range_src(Shape::KV, n), vec![Step::GroupByKey], Mode::Par(if full { p } else { 7 })));
        }
    }
    for (i, (src, steps, mode)) in big_combine_cases(full).into_iter().chain(big_group_cases(full)).enumerate() {
        if matches!(mode, Mode::Par(_)) && (full || i % 3 == 0) {
            big.push(("pair", src, steps, mode));
        }
    }
    let mut spread = Spread::new(big, count);
    for _ in 0..count {
        spread.step(em);
        let n = gen_len(&mut rng);
        let src = gen_src(&mut rng, n, true, true);
        let parts = gen_parts(&mut rng, src.len());
        let mut o = GenOpts::all();
        o.side_inputs = true;
        o.taps = true;
        o.odd_batches = rng.chance(1, 8);
        o.empty_minmax = rng.chance(1, 4);
        o.reorder_class = rng.chance(1, 6);
        if rng.chance(1, 4) {
            o.barriers = false;
            o.joins = false;
        }
        let nsteps = rng.below(13) as usize;
        let (steps, _) = gen_program(&mut rng, &src, &o, nsteps, parts);
        let parts = match maybe_auto(&mut rng, &steps, Mode::Par(parts), 8) { Mode::Par(n) => n, Mode::Seq => parts };
        emit_pair(em, &src, &steps, parts, &["random"]);
    }
    spread.finish(em);
}

fn run(kind: &str, input: &Value) -> Value {
    match kind {
        "pair" => run_pair_case(input, DIR),
        "bigpair" => run_bigpair_case(input, DIR),
        "branchpair" => run_branchpair_case(input, DIR),
        _ => serde_json::json!(["invalid"]),
    }
}

fn main() {
    drive(&generate, &run);
}
