//! Shared plumbing of the correspondence harness.
//!
//! Every property has one binary `src/bin/cXX.rs` that provides
//!   * `generate(seed, tier, emit)` – the seeded / exhaustive stream of `(kind, input)` cases,
//!   * `run(kind, input) -> observed` – runs the REAL ironbeam code on that input.
//! `drive` turns that into the two modes `check.py` uses:
//!   `cXX --seed S --tier quick|thorough`   generate + run, one JSON line per case on stdout
//!   `cXX --replay FILE`                    run the `{"kind","in"}` lines of FILE
//! A panic inside `run` is caught and becomes the observed outcome `["panic"]`.
use serde_json::{Value, json};
use std::io::{BufRead, Write};
use std::panic::{AssertUnwindSafe, catch_unwind};
use std::sync::OnceLock;

pub mod engine;

static OPTS: OnceLock<Vec<(String, String)>> = OnceLock::new();
/// value of a generic `--opt key=value` command-line option (None when absent)
pub fn opt(key: &str) -> Option<String> {
    OPTS.get()?.iter().rev().find(|(k, _)| k == key).map(|(_, v)| v.clone())
}

pub struct SplitMix64(pub u64);
impl SplitMix64 {
    pub fn new(seed: u64) -> Self {
        // scramble the seed so that neighbouring seeds give unrelated streams
        let mut z = seed.wrapping_add(0x1234_5678_9ABC_DEF1);
        z = (z ^ (z >> 30)).wrapping_mul(0xBF58_476D_1CE4_E5B9);
        z = (z ^ (z >> 27)).wrapping_mul(0x94D0_49BB_1331_11EB);
        Self(z ^ (z >> 31))
    }
    pub fn next_u64(&mut self) -> u64 {
        self.0 = self.0.wrapping_add(0x9E37_79B9_7F4A_7C15);
        let mut z = self.0;
        z = (z ^ (z >> 30)).wrapping_mul(0xBF58_476D_1CE4_E5B9);
        z = (z ^ (z >> 27)).wrapping_mul(0x94D0_49BB_1331_11EB);
        z ^ (z >> 31)
    }
    /// uniform in 0..n (n > 0)
    pub fn below(&mut self, n: u64) -> u64 {
        self.next_u64() % n
    }
    pub fn range(&mut self, lo: i64, hi: i64) -> i64 {
        lo + (self.below((hi - lo + 1) as u64) as i64)
    }
    pub fn chance(&mut self, num: u64, den: u64) -> bool {
        self.below(den) < num
    }
    pub fn pick<'a, T>(&mut self, xs: &'a [T]) -> &'a T {
        &xs[self.below(xs.len() as u64) as usize]
    }
}

#[derive(Clone, Copy, PartialEq, Eq, Debug)]
pub enum Tier {
    Quick,
    Thorough,
}

pub struct Emitter<'a> {
    next_id: u64,
    run: &'a dyn Fn(&str, &Value) -> Value,
    out: std::io::BufWriter<std::io::Stdout>,
}

impl Emitter<'_> {
    /// Run the implementation on one case and print the case line.
    pub fn case(&mut self, kind: &str, input: Value, nontrivial: bool, tags: &[&str]) {
        let observed = run_caught(self.run, kind, &input);
        let line = json!({"id": self.next_id, "kind": kind, "in": input, "out": observed,
                          "nontrivial": nontrivial, "tags": tags});
        self.next_id += 1;
        writeln!(self.out, "{line}").unwrap();
    }
}

pub fn run_caught(run: &dyn Fn(&str, &Value) -> Value, kind: &str, input: &Value) -> Value {
    match catch_unwind(AssertUnwindSafe(|| run(kind, input))) {
        Ok(v) => v,
        Err(_) => json!(["panic"]),
    }
}

pub fn drive(
    generate: &dyn Fn(u64, Tier, &mut Emitter),
    run: &dyn Fn(&str, &Value) -> Value,
) {
    // keep panic messages of the code under test out of the way
    std::panic::set_hook(Box::new(|_| {}));
    let args: Vec<String> = std::env::args().collect();
    let mut seed = 0u64;
    let mut tier = Tier::Quick;
    let mut replay: Option<String> = None;
    let mut opts: Vec<(String, String)> = Vec::new();
    let mut i = 1;
    while i < args.len() {
        match args[i].as_str() {
            "--seed" => {
                seed = args[i + 1].parse().expect("seed");
                i += 1;
            }
            "--tier" => {
                tier = if args[i + 1] == "thorough" { Tier::Thorough } else { Tier::Quick };
                i += 1;
            }
            "--replay" => {
                replay = Some(args[i + 1].clone());
                i += 1;
            }
            "--opt" => {
                let kv = args[i + 1].clone();
                let (k, v) = kv.split_once('=').unwrap_or((kv.as_str(), ""));
                opts.push((k.to_string(), v.to_string()));
                i += 1;
            }
            other => panic!("unknown argument {other}"),
        }
        i += 1;
    }
    let _ = OPTS.set(opts);
    let mut em = Emitter { next_id: 0, run, out: std::io::BufWriter::new(std::io::stdout()) };
    if let Some(path) = replay {
        let f = std::fs::File::open(&path).expect("open replay file");
        for line in std::io::BufReader::new(f).lines() {
            let line = line.unwrap();
            if line.trim().is_empty() {
                continue;
            }
            let v: Value = serde_json::from_str(&line).expect("replay line is JSON");
            let kind = v["kind"].as_str().expect("kind").to_string();
            let tags: Vec<String> = v["tags"]
                .as_array()
                .map(|a| a.iter().filter_map(|t| t.as_str().map(String::from)).collect())
                .unwrap_or_default();
            let tag_refs: Vec<&str> = tags.iter().map(String::as_str).collect();
            em.case(&kind, v["in"].clone(), v["nontrivial"].as_bool().unwrap_or(true), &tag_refs);
        }
    } else {
        generate(seed, tier, &mut em);
    }
    em.out.flush().unwrap();
}

/// outcome helpers: ["ok", v] | ["err", class] | ["panic"] | ["hang"] | ["abort"]
pub fn ok(v: Value) -> Value {
    json!(["ok", v])
}
pub fn err(class: &str) -> Value {
    json!(["err", class])
}
