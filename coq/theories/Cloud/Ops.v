(* Model of the cloud operation helpers:
     src/io/cloud/utils.rs   retry_with_backoff, with_timeout, batch_in_chunks, paginate
     src/helpers/cloud.rs    run_with_retry, run_cloud_io_with_retry, run_with_timeout_and_retry,
                             run_cloud_io_with_retry_and_timeout, run_batch_operation,
                             run_paginated_operation, run_cloud_io_paginated, run_cloud_io_batch,
                             run_parallel, OperationBuilder::execute, CloudIOExecutor::execute
     src/io/cloud/traits.rs  ErrorKind
   as the code stands after the two "fix:" commits (chunk_size.max(1); max_pages tested before
   the fetch).  helpers/cloud.rs contains no loop of its own: every wrapper is a composition of
   the four functions of utils.rs, transcribed below as such.

   Definitions only; proofs are in Proofs/CloudOps.v.

   User closures.  The helpers never hand any information to the closure except the call itself
   (and, for batch/paginate, the argument), so a deterministic `FnMut` closure is a function of
   the number of calls made so far (and the argument):  `op : nat -> res X M`.  The call counter
   `idx` is threaded explicitly, so wrappers that share one closure between several retry runs
   (run_cloud_io_batch) compose.
   Errors carry their kind and an opaque payload `M` (the message): "the caller receives the
   outcome of the last attempt" is then a statement about WHICH error comes back.
   Time.  `Instant::now()/elapsed()` is an oracle input (`elapsed`, same unit as `timeout`);
   `thread::sleep` is recorded (list of requested delays in ms), not performed. *)
From Coq Require Import List NArith Bool.
Import ListNotations.

(* traits.rs: enum ErrorKind *)
Inductive kind :=
| Authentication | Authorization | NotFound | AlreadyExists | InvalidInput
| Network | Timeout | ServiceUnavailable | RateLimited | InternalError | Other.

(* retry_with_backoff: `should_retry = matches!(err.kind, Network | Timeout |
   ServiceUnavailable | RateLimited)` *)
Definition transient (k : kind) : bool :=
  match k with
  | Network | Timeout | ServiceUnavailable | RateLimited => true
  | _ => false
  end.

(* CloudResult<X> with the error reduced to (kind, payload) *)
Inductive res (X M : Type) :=
| ROk (v : X)
| RErr (k : kind) (m : M).
Arguments ROk {X M}.
Arguments RErr {X M}.

(* what a helper does as a whole: returns, panics, or never returns (fuel exhausted) *)
Inductive outcome (X M : Type) :=
| Done (r : res X M)
| Panic
| Diverge.
Arguments Done {X M}.
Arguments Panic {X M}.
Arguments Diverge {X M}.

(* RetryConfig.  `backoff_multiplier: f64` enters the code only through the test
   `config.backoff_multiplier >= 2.0` (false for NaN), hence a Boolean here. *)
Record retry_cfg := {
  max_attempts : N;        (* u32 *)
  initial_delay_ms : N;    (* u64 *)
  max_delay_ms : N;        (* u64 *)
  mult_ge2 : bool          (* backoff_multiplier >= 2.0 *)
}.

(* impl Default for RetryConfig: max_attempts 3, initial 100 ms, max 5000 ms, multiplier 2.0 *)
Definition retry_cfg_default : retry_cfg :=
  {| max_attempts := 3; initial_delay_ms := 100; max_delay_ms := 5000; mult_ge2 := true |}.

(* PaginationConfig and its Default: page_size 100, max_pages None (no limit) *)
Record pagination_cfg := { page_size : N; max_pages : option N }.
Definition pagination_cfg_default : pagination_cfg := {| page_size := 100; max_pages := None |}.

(* BatchConfig and its Default: chunk_size 100, parallel false *)
Record batch_cfg := { chunk_size : nat; parallel : bool }.
Definition batch_cfg_default : batch_cfg := {| chunk_size := 100; parallel := false |}.

Definition u64_max : N := 18446744073709551615.
Definition u32_max : N := 4294967295.

(* `let new_delay = if mult >= 2.0 { delay_ms.saturating_mul(2) } else { delay_ms };
    delay_ms = new_delay.min(config.max_delay_ms);` *)
Definition next_delay (c : retry_cfg) (d : N) : N :=
  N.min (if mult_ge2 c then N.min (2 * d) u64_max else d) (max_delay_ms c).

(* result of running a retry-like helper: what it returned, how many times the closure was
   called, and the sleeps requested (in order, ms) *)
Record run (X M : Type) := mk_run {
  run_out : outcome X M;
  run_calls : nat;
  run_sleeps : list N
}.
Arguments mk_run {X M}.
Arguments run_out {X M}.
Arguments run_calls {X M}.
Arguments run_sleeps {X M}.

Section Helpers.
  Variables X M : Type.

  (* retry_with_backoff: the `loop`.  `attempt` and `delay` are the two mutable locals; `idx` is
     the closure's call counter; `fuel` only makes the recursion structural (it is never the
     reason to stop: see Proofs/CloudOps.v, retry_never_diverges). *)
  Fixpoint retry_loop (c : retry_cfg) (op : nat -> res X M)
           (fuel : nat) (attempt delay : N) (idx : nat) : run X M :=
    match fuel with
    | O => mk_run Diverge 0 []
    | S fuel' =>
        let attempt := (attempt + 1)%N in                     (* attempt += 1 *)
        match op idx with                                     (* match operation() *)
        | ROk v => mk_run (Done (ROk v)) 1 []                 (* Ok(result) => return Ok(result) *)
        | RErr k m =>
            if negb (transient k) || (max_attempts c <=? attempt)%N
            then mk_run (Done (RErr k m)) 1 []                (* return Err(err) *)
            else                                              (* sleep(delay); delay = next *)
              let r := retry_loop c op fuel' attempt (next_delay c delay) (S idx) in
              mk_run (run_out r) (S (run_calls r)) (delay :: run_sleeps r)
        end
    end.

  Definition retry (c : retry_cfg) (op : nat -> res X M) (idx : nat) : run X M :=
    retry_loop c op (N.to_nat (N.max 1 (max_attempts c))) 0 (initial_delay_ms c) idx.

  (* with_timeout: `let start = now(); let result = operation()?; if start.elapsed() > timeout
     { Err(Timeout, "...") } else { Ok(result) }`.  `o` is what the operation did, `elapsed` the
     clock reading afterwards, `tmsg` the payload of the error built here.  The `?` returns the
     operation's own error before the clock is looked at. *)
  Definition with_timeout (tmsg : M) (timeout elapsed : N) (o : outcome X M) : outcome X M :=
    match o with
    | Done (ROk v) => if (timeout <? elapsed)%N then Done (RErr Timeout tmsg) else Done (ROk v)
    | other => other
    end.

  (* helpers/cloud.rs *)
  Definition run_with_retry (c : retry_cfg) (op : nat -> res X M) (idx : nat) : run X M :=
    retry c op idx.
  Definition run_cloud_io_with_retry (c : retry_cfg) (op : nat -> res X M) (idx : nat) : run X M :=
    retry c op idx.

  (* with_timeout(timeout, || retry_with_backoff(retry_config, operation)) *)
  Definition run_with_timeout_and_retry (tmsg : M) (c : retry_cfg) (timeout elapsed : N)
             (op : nat -> res X M) (idx : nat) : run X M :=
    let r := retry c op idx in
    mk_run (with_timeout tmsg timeout elapsed (run_out r)) (run_calls r) (run_sleeps r).
  Definition run_cloud_io_with_retry_and_timeout (tmsg : M) (c : retry_cfg) (timeout elapsed : N)
             (op : nat -> res X M) (idx : nat) : run X M :=
    run_with_timeout_and_retry tmsg c timeout elapsed op idx.

  (* OperationBuilder::execute: match (self.retry_config, self.timeout) *)
  Definition builder_execute (tmsg : M) (rc : option retry_cfg) (timeout : option N) (elapsed : N)
             (op : nat -> res X M) (idx : nat) : run X M :=
    match rc, timeout with
    | Some c, Some t => run_with_timeout_and_retry tmsg c t elapsed op idx
    | Some c, None => retry c op idx
    | None, Some t => mk_run (with_timeout tmsg t elapsed (Done (op idx))) 1 []
    | None, None => mk_run (Done (op idx)) 1 []
    end.

  (* CloudIOExecutor::execute: a second copy of the same match in the source *)
  Definition executor_execute (tmsg : M) (rc : option retry_cfg) (timeout : option N) (elapsed : N)
             (op : nat -> res X M) (idx : nat) : run X M :=
    match rc, timeout with
    | Some c, Some t => run_with_timeout_and_retry tmsg c t elapsed op idx
    | Some c, None => retry c op idx
    | None, Some t => mk_run (with_timeout tmsg t elapsed (Done (op idx))) 1 []
    | None, None => mk_run (Done (op idx)) 1 []
    end.

  (* Builder construction.  `OperationBuilder::new()` / `CloudIOExecutor::new()` (= `default()`)
     start with both fields None; `with_retry(config)` sets `retry_config = Some(config)` and
     nothing else; `with_timeout(timeout)` sets `timeout = Some(timeout)` and nothing else.  The
     configuration `execute` sees is the fold of the setter calls, in call order. *)
  Inductive setter :=
  | SetRetry (c : retry_cfg)      (* .with_retry(c) *)
  | SetTimeout (t : N).           (* .with_timeout(t) *)

  Record builder_cfg := mk_builder {
    b_retry : option retry_cfg;
    b_timeout : option N
  }.

  Definition builder_new : builder_cfg := mk_builder None None.

  Definition apply_setter (b : builder_cfg) (s : setter) : builder_cfg :=
    match s with
    | SetRetry c => mk_builder (Some c) (b_timeout b)
    | SetTimeout t => mk_builder (b_retry b) (Some t)
    end.

  Definition build (setters : list setter) : builder_cfg :=
    fold_left apply_setter setters builder_new.

  (* OperationBuilder::new().<setters>.execute(op) and the same for CloudIOExecutor *)
  Definition builder_run (tmsg : M) (setters : list setter) (elapsed : N)
             (op : nat -> res X M) (idx : nat) : run X M :=
    let b := build setters in builder_execute tmsg (b_retry b) (b_timeout b) elapsed op idx.
  Definition executor_run (tmsg : M) (setters : list setter) (elapsed : N)
             (op : nat -> res X M) (idx : nat) : run X M :=
    let b := build setters in executor_execute tmsg (b_retry b) (b_timeout b) elapsed op idx.

  (* run_parallel: `operations.into_iter().map(|op| op()).collect::<CloudResult<Vec<T>>>()` -
     sequential, lazy, stops at the first Err.  `ops` = what each FnOnce returns if it is called.
     Result and number of closures actually called. *)
  Fixpoint run_parallel (ops : list (res X M)) : res (list X) M * nat :=
    match ops with
    | [] => (ROk [], 0)
    | ROk v :: rest =>
        let '(r, n) := run_parallel rest in
        (match r with ROk vs => ROk (v :: vs) | RErr k m => RErr k m end, S n)
    | RErr k m :: _ => (RErr k m, 1)
    end.
End Helpers.

Arguments retry_loop {X M}.
Arguments retry {X M}.
Arguments with_timeout {X M}.
Arguments run_with_retry {X M}.
Arguments run_cloud_io_with_retry {X M}.
Arguments run_with_timeout_and_retry {X M}.
Arguments run_cloud_io_with_retry_and_timeout {X M}.
Arguments builder_execute {X M}.
Arguments executor_execute {X M}.
Arguments builder_run {X M}.
Arguments executor_run {X M}.
Arguments run_parallel {X M}.

(* ---------- the clock, derived instead of given ----------
   The wrappers above take the clock reading `elapsed` as an oracle input.  What the clock must
   AT LEAST read follows from the run itself: with_timeout's `Instant::now()` is taken before the
   (whole) operation and `start.elapsed()` is read after it, so everything the operation does in
   between counts - for the retry+timeout composition `with_timeout(t, || retry_with_backoff(..))`
   that is every attempt AND every back-off sleep between the attempts.
   `tpm` = clock ticks per millisecond (the sleeps are in ms), `busy i` = ticks spent inside call
   number i of the closure, `extra` = everything else (scheduling, oversleeping: thread::sleep(d)
   sleeps at least d), any value >= 0. *)
Definition nsum (l : list N) : N := fold_right N.add 0%N l.

(* ticks spent inside calls idx, idx+1, .., idx+n-1 *)
Fixpoint busy_sum (busy : nat -> N) (idx n : nat) : N :=
  match n with
  | O => 0%N
  | S n' => (busy idx + busy_sum busy (S idx) n')%N
  end.

Section Clock.
  Variables X M : Type.

  (* the least the clock has advanced over a run: the requested sleeps and the calls made *)
  Definition run_clock (tpm : N) (busy : nat -> N) (idx : nat) (r : run X M) : N :=
    (tpm * nsum (run_sleeps r) + busy_sum busy idx (run_calls r))%N.

  (* close the oracle: `f elapsed` is a wrapper as a function of the clock reading; the calls and
     sleeps of every wrapper are independent of the reading (Proofs/CloudOpsClock.v,
     builder_shape_clock_free), so the reading can be computed from `f 0` *)
  Definition timed (tpm : N) (busy : nat -> N) (extra : N) (idx : nat) (f : N -> run X M)
    : run X M :=
    f (run_clock tpm busy idx (f 0%N) + extra)%N.

  (* utils::with_timeout(timeout, op) on one call *)
  Definition timed_with_timeout (tmsg : M) (timeout : N) (busy : nat -> N) (extra : N)
             (op : nat -> res X M) (idx : nat) : run X M :=
    mk_run (with_timeout tmsg timeout (busy idx + extra)%N (Done (op idx))) 1 [].

  Definition timed_retry (tmsg : M) (c : retry_cfg) (timeout tpm : N) (busy : nat -> N)
             (extra : N) (op : nat -> res X M) (idx : nat) : run X M :=
    timed tpm busy extra idx (fun el => run_with_timeout_and_retry tmsg c timeout el op idx).
  Definition timed_cloud_io_retry (tmsg : M) (c : retry_cfg) (timeout tpm : N) (busy : nat -> N)
             (extra : N) (op : nat -> res X M) (idx : nat) : run X M :=
    timed tpm busy extra idx
          (fun el => run_cloud_io_with_retry_and_timeout tmsg c timeout el op idx).
  Definition timed_builder_execute (tmsg : M) (rc : option retry_cfg) (timeout : option N)
             (tpm : N) (busy : nat -> N) (extra : N) (op : nat -> res X M) (idx : nat) : run X M :=
    timed tpm busy extra idx (fun el => builder_execute tmsg rc timeout el op idx).
  Definition timed_executor_execute (tmsg : M) (rc : option retry_cfg) (timeout : option N)
             (tpm : N) (busy : nat -> N) (extra : N) (op : nat -> res X M) (idx : nat) : run X M :=
    timed tpm busy extra idx (fun el => executor_execute tmsg rc timeout el op idx).
  Definition timed_builder_run (tmsg : M) (ss : list setter) (tpm : N) (busy : nat -> N)
             (extra : N) (op : nat -> res X M) (idx : nat) : run X M :=
    timed tpm busy extra idx (fun el => builder_run tmsg ss el op idx).
  Definition timed_executor_run (tmsg : M) (ss : list setter) (tpm : N) (busy : nat -> N)
             (extra : N) (op : nat -> res X M) (idx : nat) : run X M :=
    timed tpm busy extra idx (fun el => executor_run tmsg ss el op idx).
End Clock.

Arguments run_clock {X M}.
Arguments timed {X M}.
Arguments timed_with_timeout {X M}.
Arguments timed_retry {X M}.
Arguments timed_cloud_io_retry {X M}.
Arguments timed_builder_execute {X M}.
Arguments timed_executor_execute {X M}.
Arguments timed_builder_run {X M}.
Arguments timed_executor_run {X M}.

Section Batch.
  Variables A R M : Type.

  (* slice::chunks(n) for n >= 1 (library contract): consecutive blocks of n elements, the last
     one possibly shorter, none empty.  `fuel` = number of elements still to distribute. *)
  Fixpoint chunks_aux (fuel n : nat) (l : list A) : list (list A) :=
    match fuel with
    | O => []
    | S fuel' =>
        match l with
        | [] => []
        | _ :: _ => firstn n l :: chunks_aux fuel' n (skipn n l)
        end
    end.
  Definition chunks (n : nat) (l : list A) : list (list A) := chunks_aux (length l) n l.

  (* batch_in_chunks: `for chunk in items.chunks(chunk_size.max(1)) { let r =
     process_chunk(chunk.to_vec())?; results.extend(r); } Ok(results)`.
     Returns the result and the chunks handed to the closure, in call order. *)
  Fixpoint batch_loop (process : nat -> list A -> res (list R) M) (cs : list (list A))
           (idx : nat) (acc : list R) : res (list R) M * list (list A) :=
    match cs with
    | [] => (ROk acc, [])
    | ch :: rest =>
        match process idx ch with
        | RErr k m => (RErr k m, [ch])
        | ROk rs =>
            let '(r, tr) := batch_loop process rest (S idx) (acc ++ rs) in (r, ch :: tr)
        end
    end.

  Definition batch_in_chunks (items : list A) (chunk_size : nat)
             (process : nat -> list A -> res (list R) M) : res (list R) M * list (list A) :=
    batch_loop process (chunks (Nat.max chunk_size 1) items) 0 [].

  (* run_batch_operation(items, &BatchConfig{chunk_size, parallel}, processor):
     `batch_in_chunks(items, config.chunk_size, processor)`; `parallel` is not read. *)
  Definition run_batch_operation (items : list A) (chunk_size : nat) (parallel : bool)
             (process : nat -> list A -> res (list R) M) : res (list R) M * list (list A) :=
    batch_in_chunks items chunk_size process.

  (* run_cloud_io_batch: `items.iter().map(|item| retry_with_backoff(config, ||
     operation(item))).collect()` - one retry run per item on the shared closure, lazily, stops
     at the first item whose run ends in Err.  Returns the result, the item handed over at each
     call of the closure (in call order) and the sleeps. *)
  Fixpoint io_batch (c : retry_cfg) (op : nat -> A -> res R M) (items : list A) (idx : nat)
    : outcome (list R) M * list A * list N :=
    match items with
    | [] => (Done (ROk []), [], [])
    | x :: rest =>
        let r := retry c (fun i => op i x) idx in
        let tr := repeat x (run_calls r) in
        match run_out r with
        | Done (ROk v) =>
            let '(o, tr', sl') := io_batch c op rest (idx + run_calls r) in
            (match o with Done (ROk vs) => Done (ROk (v :: vs)) | other => other end,
             tr ++ tr', run_sleeps r ++ sl')
        | Done (RErr k m) => (Done (RErr k m), tr, run_sleeps r)
        | Panic => (Panic, tr, run_sleeps r)
        | Diverge => (Diverge, tr, run_sleeps r)
        end
    end.
End Batch.

Arguments chunks_aux {A}.
Arguments chunks {A}.
Arguments batch_loop {A R M}.
Arguments batch_in_chunks {A R M}.
Arguments run_batch_operation {A R M}.
Arguments io_batch {A R M}.

Section Paginate.
  Variables T M : Type.

  Definition at_limit (max_pages : option N) (page : N) : bool :=
    match max_pages with Some m => (m <=? page)%N | None => false end.

  Definition is_nil {B} (l : list B) : bool := match l with [] => true | _ => false end.

  (* paginate: the `loop`.  `page : u32` and `all_items` are the mutable locals.  The closure is
     called with (page, page_size); the call counter equals `page` (page is incremented exactly
     when another call can follow), so `fetch` takes the page number only.
     `page += 1` on u32::MAX panics in a build with overflow checks (dev/test profile, the one the
     harness uses); in a release build it wraps to 0 - not modelled.
     Returns the outcome and the (page, page_size) arguments of every call, in order.
     `fuel` bounds the number of loop iterations; running out of it is `Diverge`
     (max_pages = None and an endless supply of non-empty pages with has_more = true). *)
  Fixpoint paginate_loop (max_pages : option N) (page_size : N)
           (fetch : N -> N -> res (list T * bool) M)
           (fuel : nat) (page : N) (acc : list T) : outcome (list T) M * list (N * N) :=
    match fuel with
    | O => (Diverge, [])
    | S fuel' =>
        if at_limit max_pages page then (Done (ROk acc), [])          (* break *)
        else
          match fetch page page_size with
          | RErr k m => (Done (RErr k m), [(page, page_size)])         (* `?` *)
          | ROk (items, has_more) =>
              if is_nil items then (Done (ROk acc), [(page, page_size)])   (* break *)
              else if (page =? u32_max)%N then (Panic, [(page, page_size)]) (* page += 1 *)
              else if negb has_more then (Done (ROk (acc ++ items)), [(page, page_size)])
              else
                let '(o, tr) := paginate_loop max_pages page_size fetch fuel'
                                              (page + 1)%N (acc ++ items) in
                (o, (page, page_size) :: tr)
          end
    end.

  Definition paginate (fuel : nat) (page_size : N) (max_pages : option N)
             (fetch : N -> N -> res (list T * bool) M) : outcome (list T) M * list (N * N) :=
    paginate_loop max_pages page_size fetch fuel 0%N [].

  (* the same, taking the configuration struct as the Rust functions do: the limit is exactly
     the struct's `max_pages` field - an explicit None is "no limit", no default is substituted *)
  Definition paginate_cfg (fuel : nat) (c : pagination_cfg)
             (fetch : N -> N -> res (list T * bool) M) : outcome (list T) M * list (N * N) :=
    paginate fuel (page_size c) (max_pages c) fetch.

  (* helpers/cloud.rs: both are `paginate(config, fetch_page)` *)
  Definition run_paginated_operation := paginate.
  Definition run_cloud_io_paginated := paginate.
End Paginate.

Arguments at_limit max_pages page : simpl nomatch.
Arguments is_nil {B}.
Arguments paginate_loop {T M}.
Arguments paginate {T M}.
Arguments paginate_cfg {T M}.
Arguments run_paginated_operation {T M}.
Arguments run_cloud_io_paginated {T M}.

(* ---------- helpers/cloud.rs: OperationContext and run_with_context ----------
   `OperationContext { operation_name, start_time, retry_count: u32, metadata: HashMap }`.
   Keys, values and names are opaque (`K`, `V`); `keq` decides key equality (String ==).  The
   HashMap is an association list without duplicate keys, newest binding first - only lookups
   and the set of bindings are meaningful (the correspondence sorts by key).  `start_time` is an
   opaque token `S` (an Instant): nothing here ever changes it. *)
Section Context.
  Variables K V S : Type.
  Variable keq : K -> K -> bool.

  Record op_context := mk_ctx {
    ctx_name : K;
    ctx_start : S;
    ctx_retry : N;                 (* u32 *)
    ctx_meta : list (K * V)
  }.

  (* OperationContext::new(name): `start_time: Instant::now()`, retry_count 0, no metadata *)
  Definition ctx_new (name : K) (now : S) : op_context := mk_ctx name now 0 [].

  (* HashMap::insert *)
  Definition meta_insert (k : K) (v : V) (m : list (K * V)) : list (K * V) :=
    (k, v) :: filter (fun p => negb (keq (fst p) k)) m.
  Fixpoint meta_get (k : K) (m : list (K * V)) : option V :=
    match m with
    | [] => None
    | (k', v) :: rest => if keq k' k then Some v else meta_get k rest
    end.

  (* add_metadata(key, value): `self.metadata.insert(key.into(), value.into())` *)
  Definition ctx_add_metadata (c : op_context) (k : K) (v : V) : op_context :=
    mk_ctx (ctx_name c) (ctx_start c) (ctx_retry c) (meta_insert k v (ctx_meta c)).

  (* increment_retry(): `self.retry_count += 1` - overflow of the u32 panics in a build with
     overflow checks (the profile the harness uses); None = that panic *)
  Definition ctx_increment_retry (c : op_context) : option op_context :=
    if (ctx_retry c =? u32_max)%N then None
    else Some (mk_ctx (ctx_name c) (ctx_start c) (ctx_retry c + 1) (ctx_meta c)).

  (* what a closure does with `&mut OperationContext` besides returning *)
  Inductive ctx_action :=
  | ActIncrement
  | ActAdd (k : K) (v : V).

  (* runs the actions in order; None = panicked on the way *)
  Fixpoint ctx_apply (c : op_context) (acts : list ctx_action) : option op_context :=
    match acts with
    | [] => Some c
    | ActIncrement :: rest =>
        match ctx_increment_retry c with Some c' => ctx_apply c' rest | None => None end
    | ActAdd k v :: rest => ctx_apply (ctx_add_metadata c k v) rest
    end.

  (* run_with_context(context, operation): `let result = operation(&mut context)?;
     Ok((result, context))` - one call; on Ok the caller gets the value and the context as the
     closure left it; on Err the closure's error (the context is dropped).
     `op` = what the closure does given the context: None = it panicked. *)
  Definition run_with_context {X M} (c : op_context)
             (op : op_context -> option (res X M * op_context)) : outcome (X * op_context) M :=
    match op c with
    | None => Panic
    | Some (ROk v, c') => Done (ROk (v, c'))
    | Some (RErr k m, _) => Done (RErr k m)
    end.

  (* the closure used by the correspondence: apply the actions, then answer `r` *)
  Definition scripted_ctx_op {X M} (acts : list ctx_action) (r : res X M) (c : op_context)
    : option (res X M * op_context) :=
    match ctx_apply c acts with Some c' => Some (r, c') | None => None end.
End Context.

Arguments mk_ctx {K V S}.
Arguments ctx_name {K V S}.
Arguments ctx_start {K V S}.
Arguments ctx_retry {K V S}.
Arguments ctx_meta {K V S}.
Arguments ctx_new {K V S}.
Arguments meta_insert {K V}.
Arguments meta_get {K V}.
Arguments ctx_add_metadata {K V S}.
Arguments ctx_increment_retry {K V S}.
Arguments ActIncrement {K V}.
Arguments ActAdd {K V}.
Arguments ctx_apply {K V S}.
Arguments run_with_context {K V S X M}.
Arguments scripted_ctx_op {K V S} keq {X M}.

(* ---------- io/cloud/utils.rs: ConnectionPool<T> ----------
   `connections: Vec<T>` is a stack: the head of the list is the LAST element of the Vec. *)
Section Pool.
  Variables T M : Type.

  Record pool := mk_pool { pool_conns : list T; pool_max : N }.

  Definition isize_max : N := 9223372036854775807.

  (* ConnectionPool::new(max_size): `Vec::with_capacity(max_size)` panics with "capacity
     overflow" when max_size * size_of::<T>() exceeds isize::MAX (library contract; below that
     the allocation itself may fail, which aborts the process - not modelled, not exercised).
     `elem_size` = size_of::<T>().  None = that panic. *)
  Definition pool_new (elem_size max_size : N) : option pool :=
    if (isize_max <? elem_size * max_size)%N then None else Some (mk_pool [] max_size).

  (* acquire(create): `self.connections.pop().map_or_else(create, |conn| Ok(conn))`.
     Returns the result, the pool afterwards, and whether `create` was called. *)
  Definition pool_acquire (p : pool) (create : res T M) : res T M * pool * bool :=
    match pool_conns p with
    | x :: rest => (ROk x, mk_pool rest (pool_max p), false)
    | [] => (create, p, true)
    end.

  (* release(connection): pushed if `len < max_size`, dropped otherwise *)
  Definition pool_release (p : pool) (x : T) : pool :=
    if (N.of_nat (length (pool_conns p)) <? pool_max p)%N
    then mk_pool (x :: pool_conns p) (pool_max p) else p.

  Definition pool_size (p : pool) : nat := length (pool_conns p).

  (* a client's use of one pool *)
  Inductive pool_op :=
  | PAcquire (create : res T M)
  | PRelease (x : T)
  | PSize.

  (* what each operation showed the client *)
  Inductive pool_obs :=
  | OAcquired (r : res T M) (created : bool)
  | OReleased
  | OSize (n : nat).

  Fixpoint pool_run (p : pool) (ops : list pool_op) : list pool_obs * pool :=
    match ops with
    | [] => ([], p)
    | PAcquire create :: rest =>
        let '(r, p', created) := pool_acquire p create in
        let '(obs, pf) := pool_run p' rest in (OAcquired r created :: obs, pf)
    | PRelease x :: rest =>
        let '(obs, pf) := pool_run (pool_release p x) rest in (OReleased :: obs, pf)
    | PSize :: rest =>
        let '(obs, pf) := pool_run p rest in (OSize (pool_size p) :: obs, pf)
    end.
End Pool.

Arguments mk_pool {T}.
Arguments pool_conns {T}.
Arguments pool_max {T}.
Arguments pool_new {T}.
Arguments pool_acquire {T M}.
Arguments pool_release {T}.
Arguments pool_size {T}.
Arguments PAcquire {T M}.
Arguments PRelease {T M}.
Arguments PSize {T M}.
Arguments OAcquired {T M}.
Arguments OReleased {T M}.
Arguments OSize {T M}.
Arguments pool_run {T M}.
