(* Correspondence for C16: runs the model Metrics/Metrics.v on the cases the harness
   (harness/src/bin/c16.rs) ran on the real MetricsCollector / Pipeline / Runner and decides
   agreement and the property instance inside Coq.

     agree = the observed outcome is exactly what the MODEL computes under the same schedule
             (final snapshot as a finite map, and one critical section per call: a call that
             used more yield points than the model's `sections_of` is a disagreement);
     prop  = the observed outcome satisfies the property, judged by an independent REFERENCE that
             never runs the model: for a counter that only receives increments the final value
             is init + sum; with set_counter / register(counter) interleaved it must be a value
             some linearisation allows (last set of one thread + its later increments + a suffix
             of every other thread's increments after that thread's own last set).

   Further kinds: `busy` (a writer thread against a long critical section of to_json/snapshot),
   `attach` (set_metrics / run / take_metrics / get_metrics sequences on one pipeline: model =
   Metrics.pstate, reference = one variable "last set not yet taken"), `export` / `transparent`
   (JSON export, pipelines with and without a collector, the views of a run's duration).

   Encodings (shared with c16.rs): metric = [name, kind, val], kind 0 = counter, 1 = other;
   operation = [code, name, val], code 0 increment, 1 set_counter, 2 register counter,
   3 register other; name -1 = "execution_time_ms". *)
From Coq Require Import List ZArith NArith Bool String.
From Coq Require Uint63 PrimFloat.
From IB Require Import Util.J Metrics.Metrics Metrics.Export Metrics.Histogram.
Import ListNotations.
Open Scope Z_scope.

(* ---------- small utilities ---------- *)
Fixpoint zlist_eqb (a b : list Z) : bool :=
  match a, b with
  | [], [] => true
  | x :: a', y :: b' => (x =? y) && zlist_eqb a' b'
  | _, _ => false
  end.
Fixpoint zinsert (x : Z) (l : list Z) : list Z :=
  match l with [] => [x] | y :: r => if x <=? y then x :: l else y :: zinsert x r end.
Definition zsort (l : list Z) : list Z := fold_right zinsert [] l.
Fixpoint zdedup (l : list Z) : list Z :=   (* of a sorted list *)
  match l with
  | x :: ((y :: _) as r) => if x =? y then zdedup r else x :: zdedup r
  | _ => l
  end.
Definition zmem (x : Z) (l : list Z) : bool := existsb (Z.eqb x) l.

Fixpoint jeqb (a b : J) : bool :=
  match a, b with
  | JI x, JI y => x =? y
  | JB x, JB y => Bool.eqb x y
  | JN, JN => true
  | JS x, JS y => String.eqb x y
  | JY x, JY y => zlist_eqb x y
  | JL x, JL y =>
      (fix go (l1 l2 : list J) : bool :=
         match l1, l2 with
         | [], [] => true
         | p :: l1', q :: l2' => jeqb p q && go l1' l2'
         | _, _ => false
         end) x y
  | _, _ => false
  end.

(* ---------- decoding ---------- *)
Definition dec_metric (j : J) : option (name * metric) :=
  match j with
  | JL [JI n; JI k; JI v] =>
      (* kinds of c16.rs make_metric: 0 counter, 5 counter at a boundary (0 / u64::MAX), 1 gauge or
         custom metric, 2 gauge with an awkward float, 3 histogram, 4 custom metric with awkward
         JSON: everything but a counter is an opaque `Other` *)
      if v <? 0 then None
      else if k =? 0 then Some (n, Counter (Z.to_N v))
      else if k =? 5 then Some (n, Counter (if v =? 0 then 0%N else (U64_MOD - 1)%N))
      else if k =? 1 then Some (n, Other v)
      else if (2 <=? k) && (k <=? 4) then Some (n, Other (k * 1000 + v)) else None
  | _ => None
  end.
Definition dec_metrics (j : J) : option (list (name * metric)) :=
  match j with JL l => omap dec_metric l | _ => None end.

Definition dec_op (j : J) : option call :=
  match j with
  | JL [JI c; JI n; JI v] =>
      if v <? 0 then None
      else if c =? 0 then Some (Incr n (Z.to_N v))
      else if c =? 1 then Some (SetC n (Z.to_N v))
      else if c =? 2 then Some (Reg n (Counter (Z.to_N v)))
      else if c =? 3 then Some (Reg n (Other v)) else None
  | _ => None
  end.
Definition dec_thread (j : J) : option (list call) :=
  match j with JL l => omap dec_op l | _ => None end.
Definition dec_threads (j : J) : option (list (list call)) :=
  match j with JL l => omap dec_thread l | _ => None end.
Definition dec_nat (j : J) : option nat :=
  match j with JI z => if z <? 0 then None else Some (Z.to_nat z) | _ => None end.
Definition dec_nats (j : J) : option (list nat) :=
  match j with JL l => omap dec_nat l | _ => None end.
Definition dec_natss (j : J) : option (list (list nat)) :=
  match j with JL l => omap dec_nats l | _ => None end.

(* ---------- canonical snapshot of a model state ---------- *)
Fixpoint sinsert (p : name * metric) (l : store) : store :=
  match l with [] => [p] | q :: r => if fst p <=? fst q then p :: l else q :: sinsert p r end.
Definition ssort (l : store) : store := fold_right sinsert [] l.
Fixpoint store_eqb (a b : store) : bool :=
  match a, b with
  | [], [] => true
  | (n, m) :: a', (k, x) :: b' => (n =? k) && metric_eqb m x && store_eqb a' b'
  | _, _ => false
  end.

Definition init_state (init : list (name * metric)) : mstate := run_calls [RegAll init] empty_state.

(* ---------- reference for one counter name (independent of the model) ---------- *)
(* the operations of one thread that concern name n: (is_set, value); None = the thread
   registers a non-counter under n, which the reference does not cover *)
Fixpoint nops (n : name) (cs : list call) : option (list (bool * N)) :=
  match cs with
  | [] => Some []
  | c :: r =>
      match nops n r with
      | None => None
      | Some l =>
          match c with
          | Incr k v => Some (if k =? n then (false, v) :: l else l)
          | SetC k v => Some (if k =? n then (true, v) :: l else l)
          | Reg k (Counter v) => Some (if k =? n then (true, v) :: l else l)
          | Reg k (Other _) => if k =? n then None else Some l
          | _ => None
          end
      end
  end.
Definition nsum (l : list N) : N := fold_right N.add 0%N l.
(* value of the last set of a thread (if any) and its increments after it *)
Fixpoint tals (l : list (bool * N)) : option N * list N :=
  match l with
  | [] => (None, [])
  | (b, v) :: r =>
      let '(o, inc) := tals r in
      match o with
      | Some _ => (o, inc)
      | None => if b then (Some v, inc) else (None, v :: inc)
      end
  end.
Fixpoint suffix_sums (l : list N) : list N :=
  match l with [] => [0%N] | x :: r => nsum l :: suffix_sums r end.
Definition combos (opts : list (list N)) : list N :=
  fold_right (fun o acc => flat_map (fun a => map (N.add a) acc) o) [0%N] opts.
Fixpoint remove_nth {A} (i : nat) (l : list A) : list A :=
  match l, i with
  | [], _ => []
  | _ :: r, O => r
  | x :: r, S i' => x :: remove_nth i' r
  end.
Definition feasible (per_thread : list (list (bool * N))) : list N :=
  flat_map
    (fun t =>
       match tals (nth t per_thread []) with
       | (Some v, inc) =>
           let others := map (fun u => suffix_sums (snd (tals u))) (remove_nth t per_thread) in
           map (fun x => (v + nsum inc + x)%N) (combos others)
       | (None, _) => []
       end)
    (seq 0 (List.length per_thread)).

(* what the observed snapshot may show for name n *)
Definition ref_name (n : name) (init : list (name * metric)) (ts : list (list call))
           (snap : store) : bool :=
  match omap (nops n) ts, lookup n (ms_metrics (init_state init)) with
  | None, _ => true
  | _, Some (Other _) => true
  | Some per, ini =>
      let has_set := existsb (fun l => existsb fst l) per in
      let any := existsb (fun l => match l with [] => false | _ => true end) per in
      if has_set then
        match lookup n snap with
        | Some (Counter c) => existsb (N.eqb c) (feasible per)
        | _ => false
        end
      else
        let total := nsum (map (fun l => nsum (map snd l)) per) in
        match ini, lookup n snap with
        | Some (Counter c0), Some (Counter c) => N.eqb c (c0 + total)
        | None, Some (Counter c) => any && N.eqb c total
        | None, None => negb any
        | _, _ => false
        end
  end.

Definition names_of_case (init : list (name * metric)) (ts : list (list call)) : list name :=
  zdedup (zsort (map fst init ++
                 flat_map (fun cs => flat_map (fun c => match c with
                                                        | Incr n _ | SetC n _ | Reg n _ => [n]
                                                        | _ => [] end) cs) ts)).

(* ---------- one forced schedule ---------- *)
Definition judge_sched (init : list (name * metric)) (ts : list (list call)) (sched : list nat)
           (jsnap jyields : J) : option (bool * bool) :=
  match dec_metrics jsnap, dec_natss jyields with
  | Some snap, Some yields =>
      let final := run_drained sched (compile ts) (init_state init) in
      let want_yields := map (map (fun c => List.length (sections_of c))) ts in
      let agree :=
        store_eqb snap (ssort (ms_metrics final)) && negb (ms_poisoned final) &&
        (fix leq (a b : list (list nat)) : bool :=
           match a, b with
           | [], [] => true
           | x :: a', y :: b' => zlist_eqb (map Z.of_nat x) (map Z.of_nat y) && leq a' b'
           | _, _ => false
           end) yields want_yields in
      let prop := forallb (fun n => ref_name n init ts snap) (names_of_case init ts) in
      Some (agree, prop)
  | _, _ => None
  end.

(* all sequences in which thread t occurs counts[t] times, lexicographic (as in c16.rs) *)
Fixpoint dec_at (t : nat) (l : list nat) : list nat :=
  match l, t with
  | [], _ => []
  | x :: r, O => pred x :: r
  | x :: r, S t' => x :: dec_at t' r
  end.
Fixpoint interleavings (fuel : nat) (counts : list nat) : list (list nat) :=
  match fuel with
  | O => [[]]
  | S f =>
      flat_map
        (fun t => match nth t counts O with
                  | O => []
                  | S _ => map (cons t) (interleavings f (dec_at t counts))
                  end)
        (seq 0 (List.length counts))
  end.

Fixpoint judge_rows (init : list (name * metric)) (ts : list (list call))
         (scheds : list (list nat)) (rows : list J) : option (bool * bool) :=
  match scheds, rows with
  | [], [] => Some (true, true)
  | s :: scheds', JL [jsnap; jyields] :: rows' =>
      match judge_sched init ts s jsnap jyields, judge_rows init ts scheds' rows' with
      | Some (a, p), Some (a', p') => Some (a && a', p && p')
      | _, _ => None
      end
  | _ :: scheds', JL [JS _] :: rows' =>      (* ["hang"] / ["panic"] under this schedule *)
      match judge_rows init ts scheds' rows' with
      | Some _ => Some (false, false)
      | None => None
      end
  | _, _ => None
  end.

Definition finish (r : option (bool * bool)) : verdict :=
  match r with Some (a, p) => ok_verdict a p | None => malformed end.

(* ---------- sequential scripts ---------- *)
Fixpoint dec_calls (tick : Z) (l : list J) : option (list call) :=
  match l with
  | [] => Some []
  | j :: r =>
      let c :=
        match j with
        | JL [JI 4; ms] => match dec_metrics ms with Some l => Some (RegAll l) | None => None end
        | JL [JI 5] => Some (RecStart tick)
        | JL [JI 6] => Some (RecEnd tick)
        | JL [JI c; JI n; JI v] => dec_op j
        | _ => None
        end in
      match c, dec_calls (tick + 1) r with
      | Some c, Some cs => Some (c :: cs)
      | _, _ => None
      end
  end.

Fixpoint panics_of (cs : list call) (s : mstate) : list bool :=
  match cs with
  | [] => []
  | c :: r =>
      let s' := run_calls [c] s in
      (ms_poisoned s' && negb (match sections_of c with [] => true | _ => false end))
        :: panics_of r s'
  end.
Fixpoint blist_eqb (a : list bool) (b : list J) : bool :=
  match a, b with
  | [], [] => true
  | x :: a', JB y :: b' => Bool.eqb x y && blist_eqb a' b'
  | _, _ => false
  end.

Definition call_names (c : call) : list name :=
  match c with
  | Incr n _ | SetC n _ | Reg n _ => [n]
  | RegAll ms => map fst ms
  | _ => []
  end.
Definition call_volume (c : call) : N :=
  match c with
  | Incr _ v | SetC _ v | Reg _ (Counter v) => v
  | RegAll ms => nsum (map (fun p => match snd p with Counter v => v | _ => 0%N end) ms)
  | _ => 0%N
  end.
(* a name that only ever receives increments in the script *)
Definition only_incr (n : name) (cs : list call) : bool :=
  forallb (fun c => match c with Incr _ _ => true | _ => negb (zmem n (call_names c)) end) cs.
Definition script_sum (n : name) (cs : list call) : N :=
  nsum (map (fun c => match c with Incr k v => if k =? n then v else 0%N | _ => 0%N end) cs).

Definition judge_seq (cs : list call) (out : J) : option (bool * bool) :=
  let final := run_calls cs empty_state in
  let names := zdedup (zsort (flat_map call_names cs)) in
  let has_start := existsb (fun c => match c with RecStart _ => true | _ => false end) cs in
  let has_end := existsb (fun c => match c with RecEnd _ => true | _ => false end) cs in
  match out with
  | JL [JS tag; jsnap; jkeys; JB el; JL jpan] =>
      if negb (String.eqb tag "ok") then None else
      match dec_metrics jsnap, jints jkeys with
      | Some snap, Some keys =>
          let agree :=
            negb (ms_poisoned final) &&
            store_eqb snap (ssort (ms_metrics final)) &&
            zlist_eqb keys (zsort (json_keys final)) &&
            Bool.eqb el (match elapsed final with Some _ => true | None => false end) &&
            blist_eqb (panics_of cs empty_state) jpan in
          let prop :=
            forallb (fun n => zmem n keys) names &&
            (* promised: both stamps recorded -> an elapsed time is available (the converse is
               the model's business: `agree`) *)
            (if has_start && has_end then el else true) &&
            (if el then zmem exec_time_name keys else true) &&
            forallb (fun n => if only_incr n cs
                              then match lookup n snap with
                                   | Some (Counter c) => N.eqb c (script_sum n cs)
                                   | _ => false
                                   end
                              else true) names &&
            forallb (fun b => match b with JB false => true | _ => false end) jpan in
          Some (agree, prop)
      | _, _ => None
      end
  | JL [JS tag; JL jpan] =>
      if negb (String.eqb tag "poisoned") then None else
      Some (ms_poisoned final && blist_eqb (panics_of cs empty_state) jpan,
            (* an overflow needs a total of at least 2^64 *)
            N.leb U64_MOD (nsum (map call_volume cs)))
  | _ => None
  end.

(* ---------- the views of one run's duration ---------- *)
(* the model's to_json entry when the clock oracle says (end - start) = d ns *)
Definition model_time_ms (metrics : store) (d : Z) : option Z :=
  json_time (MS metrics (Some 0) (Some d) false).
Definition NS_PER_MS : Z := 1000000.
Definition zsum (l : list Z) : Z := fold_right Z.add 0 l.
Definition zmax (l : list Z) : Z := fold_right Z.max 0 l.
Definition clamp_ms (x : Z) : Z := Z.max 0 (Z.min 3000 x).

(* ---------- pipelines with / without a collector ---------- *)
Definition BIG : N := 4611686018427387903%N.      (* 2^62 - 1 *)
Definition poison_calls : list call := repeat (Incr 900 BIG) 5.

Definition dec_outcome (j : J) : option (outcome J) :=
  match j with
  | JL [JS t; rows] => if String.eqb t "ok" then Some (Ok rows) else None
  | JL [JS t] =>
      if String.eqb t "err" then Some (Err 0)
      else if String.eqb t "panic" then Some Panic else None
  | _ => None
  end.
Definition outcome_eqb (a b : outcome J) : bool :=
  match a, b with
  | Ok x, Ok y => jeqb x y
  | Err _, Err _ => true
  | Panic, Panic => true
  | _, _ => false
  end.
Definition is_ok (a : outcome J) : bool := match a with Ok _ => true | _ => false end.

(* run k of the case: errmode 2 = build_plan fails; otherwise the engine's result is what the
   run WITHOUT a collector returned *)
Fixpoint model_runs (k : nat) (errs : list Z) (without : list (outcome J)) (m : mstate)
  : list (outcome J) * mstate :=
  match errs, without with
  | e :: errs', w :: without' =>
      let plan : outcome unit := if e =? 2 then Err 0 else Ok tt in
      let '(r, m1) := run_collect true plan (fun _ => w) Z.of_nat (2 * k) (2 * k + 1) m in
      let '(rs, m2) := model_runs (S k) errs' without' m1 in
      (r :: rs, m2)
  | _, _ => ([], m)
  end.
Fixpoint outcomes_eqb (a b : list (outcome J)) : bool :=
  match a, b with
  | [], [] => true
  | x :: a', y :: b' => outcome_eqb x y && outcomes_eqb a' b'
  | _, _ => false
  end.

Definition judge_transparent (regs : list (name * metric)) (errs : list Z) (poisoned : bool)
           (slept_ms : Z) (jwith jwithout rest : J) : option (bool * bool) :=
  match jwith, jwithout with
  | JL lw, JL lwo =>
      match omap dec_outcome lw, omap dec_outcome lwo with
      | Some ws, Some wos =>
          if negb (Nat.eqb (List.length wos) (List.length errs)) then None else
          let m0 := run_calls (RegAll regs :: (if poisoned then poison_calls else [])) empty_state in
          let '(want, mf) := model_runs 0 errs wos m0 in
          let names := map fst regs in
          match rest with
          | JL [JS t; JB el; jkeys; JB got; JB taken; JB gone; JB elpos; JL [JI window; jel; jms; JI hi_last]] =>
              match jints jkeys with
              | Some keys =>
                  let last_ok := match rev ws with w :: _ => is_ok w | [] => false end in
                  (* a successful last run slept slept_ms between its two stamps *)
                  let lo_ms := if last_ok then slept_ms else 0 in
                  let time_agree :=
                    match jel, jms with
                    | JN, JN => negb el
                    | JI d, JI ms =>
                        (* both stamps of a run lie inside that run's own window; a stale end
                           stamp saturates to 0: whatever the runs were, the reported time does
                           not exceed the LAST run's window *)
                        el && (lo_ms * NS_PER_MS <=? d) && (d <=? window) && (d <=? hi_last) &&
                        match model_time_ms (ms_metrics mf) d with
                        | Some want => ms =? want
                        | None => false
                        end
                    | _, _ => false
                    end in
                  (* the property speaks about SUCCESSFUL runs only: after one, the elapsed time is
                     non-negative, at least what the run provably took and not larger than the
                     harness's own window around that run.  What a failed run leaves behind
                     (a fresh start stamp, stale stamps of an earlier run, nothing) and where in
                     run_collect the start stamp is taken are pinned by `agree` only *)
                  let time_prop :=
                    match jel, jms with
                    | JN, JN => true
                    | JI d, JI ms =>
                        (0 <=? d) && (ms =? d / 1000000) &&
                        (if last_ok then (lo_ms <=? ms) && (d <=? hi_last) else true)
                    | _, _ => false
                    end in
                  let agree :=
                    outcomes_eqb ws want && negb (ms_poisoned mf) &&
                    Bool.eqb el (match elapsed mf with Some _ => true | None => false end) &&
                    (* the clock ticks between the two stamps of one run: elapsed is positive
                       exactly when the end stamp is later than the start stamp *)
                    Bool.eqb elpos (match elapsed mf with Some d => 0 <? d | None => false end) &&
                    zlist_eqb keys (zsort (json_keys mf)) && got && taken && gone && time_agree in
                  let prop :=
                    outcomes_eqb ws wos &&
                    (if existsb is_ok ws then el else true) &&
                    (if last_ok then el else true) &&
                    (if el then zmem exec_time_name keys else true) &&
                    forallb (fun n => zmem n keys) names && got && taken && gone && time_prop in
                  Some (agree, prop)
              | None => None
              end
          | JL [JS t] =>     (* ["panic"]: the pipeline's and the collector's mutex are poisoned *)
              Some (outcomes_eqb ws want && ms_poisoned mf, false)
          | _ => None
          end
      | _, _ => None
      end
  | _, _ => None
  end.

(* ---------- a long critical section on one thread while another writes ---------- *)
Definition SLOW_NAME : name := 50.
Definition judge_busy (init : list (name * metric)) (ops : list call) (jsnap : J)
           (overlapped blocked : bool) : option (bool * bool) :=
  match dec_metrics jsnap with
  | Some snap =>
      let init' := init ++ [(SLOW_NAME, Other 7)] in
      (* to_json / snapshot do not write: the writer's calls take effect, after the section *)
      let final := run_calls (RegAll init' :: ops) empty_state in
      let agree := store_eqb snap (ssort (ms_metrics final)) && negb (ms_poisoned final) &&
                   overlapped && blocked in
      let prop := forallb (fun n => ref_name n init' [ops] snap) (names_of_case init' [ops]) in
      Some (agree, prop)
  | None => None
  end.

(* ---------- the pipeline's metrics slot ---------- *)
Definition MARK : Z := 100.
Definition GETS : Z := 200.
Definition oz_eqb (a b : option Z) : bool :=
  match a, b with Some x, Some y => x =? y | None, None => true | _, _ => false end.
Definition stamps_eqb (a b : mstate) : bool :=
  oz_eqb (ms_start a) (ms_start b) && oz_eqb (ms_end a) (ms_end b).
(* the observed elapsed() of a collector against its model state; the model clock ticks twice per
   run (2r, 2r+1), runs = (lower bound, window) in ns of every run so far *)
Definition el_ok (runs : list (Z * Z)) (s : mstate) (e : J) : bool :=
  match elapsed s, e with
  | None, JN => true
  | Some x, JI d =>
      if x =? 0 then d =? 0
      else match ms_start s with
           | Some a =>
               oz_eqb (ms_end s) (Some (a + 1)) &&
               match nth_error runs (Z.to_nat (a / 2)) with
               | Some (lo, hi) => (lo <=? d) && (d <=? hi)
               | None => false
               end
           | None => false
           end
  | _, _ => false
  end.
Definition els_ok (runs : list (Z * Z)) (p p' : pstate) (prev els : list J) : bool :=
  Nat.eqb (List.length els) (List.length (ps_colls p')) &&
  forallb (fun k =>
             let e := nth k els (JS "missing") in
             el_ok runs (coll k p') e &&
             (if stamps_eqb (coll k p) (coll k p') then jeqb e (nth k prev (JS "none")) else true))
          (seq 0 (List.length els)).
Definition slot_marker (o : option nat) : Z := match o with Some k => Z.of_nat k | None => -1 end.

Fixpoint attach_model (steps obs : list J) (t : nat) (p : pstate) (prev : list J)
         (runs : list (Z * Z)) (slept : Z) : option (bool * pstate * list J) :=
  match steps, obs with
  | [], [] => Some (true, p, prev)
  | st :: steps', JL [o; JL els] :: obs' =>
      let r : option (bool * pstate * nat * list (Z * Z)) :=
        match st with
        | JL [JI 0; JI k] =>
            if k <? 0 then None
            else Some (jeqb o (JI 0), p_set_metrics (Z.to_nat k) p, t, runs)
        | JL [JI 1; JI e] =>
            let plan : outcome unit := if e =? 2 then Err 0 else Ok tt in
            let exec := fun _ : unit => if e =? 0 then Ok tt else @Err unit 0 in
            let '(res, p') := run_on plan exec Z.of_nat (2 * t) (2 * t + 1) p in
            let tag := match res with Ok _ => 0 | Err _ => 1 | Panic => 2 end in
            match o with
            | JL [JI tg; JI hi] =>
                Some (tg =? tag, p', S t, runs ++ [((if e =? 0 then slept * NS_PER_MS else 0), hi)])
            | _ => None
            end
        | JL [JI 2] =>
            let '(got, p') := p_take_metrics p in Some (jeqb o (JI (slot_marker got)), p', t, runs)
        | JL [JI 3] =>
            let got := p_get_metrics p in
            let p' := match got with
                      | Some k => PS (ps_slot p) (upd k (run_calls [Incr GETS 1] (coll k p)) (ps_colls p))
                      | None => p
                      end in
            Some (jeqb o (JI (slot_marker got)), p', t, runs)
        | _ => None
        end in
      match r with
      | Some (ok, p', t', runs') =>
          match attach_model steps' obs' t' p' els runs' slept with
          | Some (ok', pf, last) => Some (ok && els_ok runs' p p' prev els && ok', pf, last)
          | None => None
          end
      | None => None
      end
  | _, _ => None
  end.

(* independent reference: one variable = the collector of the last set_metrics not yet taken *)
Fixpoint same_except (k : Z) (i : Z) (a b : list J) : bool :=
  match a, b with
  | [], [] => true
  | x :: a', y :: b' => ((i =? k) || jeqb x y) && same_except k (i + 1) a' b'
  | _, _ => false
  end.
Fixpoint attach_ref (steps obs : list J) (cur : Z) (prev : list J) (slept : Z) : bool :=
  match steps, obs with
  | [], [] => true
  | st :: steps', JL [o; JL els] :: obs' =>
      match st with
      | JL [JI 0; JI k] => same_except (-1) 0 els prev && attach_ref steps' obs' k els slept
      | JL [JI 1; JI e] =>
          same_except cur 0 els prev &&
          (if (0 <=? cur) && (e =? 0) then
             match o, nth (Z.to_nat cur) els JN with
             | JL [JI 0; JI hi], JI d => (slept * 1000000 <=? d) && (d <=? hi)
             | _, _ => false
             end
           else true) &&
          attach_ref steps' obs' cur els slept
      | JL [JI 2] => jeqb o (JI cur) && same_except (-1) 0 els prev && attach_ref steps' obs' (-1) els slept
      | JL [JI 3] => jeqb o (JI cur) && same_except (-1) 0 els prev && attach_ref steps' obs' cur els slept
      | _ => false
      end
  | _, _ => false
  end.

Definition judge_attach (steps : list J) (slept : Z) (obs finals : list J) : option (bool * bool) :=
  let n := List.length finals in
  let p0 := PS None (map (fun k => run_calls [Reg (MARK + Z.of_nat k) (Counter (N.of_nat (S k)))] empty_state)
                         (seq 0 n)) in
  let none := repeat JN n in
  match attach_model steps obs 0 p0 none [] slept with
  | Some (ok, pf, last) =>
      let fin_agree :=
        forallb (fun k =>
                   match nth k finals JN with
                   | JL [jsnap; jt; jkeys] =>
                       match dec_metrics jsnap, jints jkeys with
                       | Some snap, Some keys =>
                           store_eqb snap (ssort (ms_metrics (coll k pf))) &&
                           zlist_eqb keys (zsort (json_keys (coll k pf))) &&
                           match nth k last JN, jt with
                           | JN, JN => true
                           | JI d, JI ms => match model_time_ms (ms_metrics (coll k pf)) d with
                                            | Some want => ms =? want
                                            | None => false
                                            end
                           | _, _ => false
                           end
                       | _, _ => false
                       end
                   | _ => false
                   end) (seq 0 n) in
      let fin_prop :=
        forallb (fun k =>
                   match nth k finals JN with
                   | JL [jsnap; jt; _] =>
                       match dec_metrics jsnap with
                       | Some snap =>
                           match lookup (MARK + Z.of_nat k) snap with
                           | Some (Counter c) => N.eqb c (N.of_nat (S k))
                           | _ => false
                           end &&
                           match nth k last JN, jt with
                           | JN, JN => true
                           | JI d, JI ms => ms =? d / 1000000
                           | _, _ => false
                           end
                       | None => false
                       end
                   | _ => false
                   end) (seq 0 n) in
      Some (ok && fin_agree, attach_ref steps obs (-1) none slept && fin_prop)
  | None => None
  end.

(* ---------- export sequences on shared paths (kind `saves`) ---------- *)
(* the harness's side of Export.env: how c16.rs spells names (name_str) and what its metrics
   return from value() / description() (make_metric; tags as produced by dec_metric) *)
Definition h_name (k : name) : text :=
  if 0 <=? k then txt "c" ++ dec (Z.to_N k)
  else if k =? -1 then TIME_KEY
  else if k =? -2 then []
  else if k =? -3 then [32]
  else if k =? -4 then txt "value"
  else if k =? -5 then [109; 195; 169; 116; 114; 105; 113; 117; 101; 32; 226; 156; 147]
  else if k =? -6 then [97; 46; 98; 47; 99; 34; 100; 92; 101; 10; 102]
  else if k =? -7 then txt "description"
  else txt "c-99".
(* z / 4 as ryu prints it (multiples of 0.25 below 10^16) *)
Definition quarter (z : Z) : jv :=
  JRaw (dec (Z.to_N (z / 4)) ++
        (if z mod 4 =? 0 then txt ".0" else if z mod 4 =? 1 then txt ".25"
         else if z mod 4 =? 2 then txt ".5" else txt ".75")).
Definition h_val (tag : Z) : jv :=
  let k := tag / 1000 in
  let v := tag mod 1000 in
  if k =? 0 then
    (* kind 1: GaugeMetric::new(v as f64) for even v, TagMetric for odd v *)
    if Z.even v then quarter (4 * v) else JArr [JStr (txt "tag"); JNat (Z.to_N v)]
  else if k =? 2 then
    (* gauge: NaN, +inf, -inf (json! turns a non-finite float into null), 0.0, -0.0, f64::MAX, 1e-310 *)
    let i := v mod 7 in
    if i <? 3 then JNull
    else if i =? 3 then JRaw (txt "0.0")
    else if i =? 4 then JRaw (txt "-0.0")
    else if i =? 5 then JRaw (txt "1.7976931348623157e308")
    else JRaw (txt "1e-310")
  else if k =? 3 then
    (* HistogramMetric of the samples 0, 1.5, .., 1.5 (n - 1) (= 6 i quarters): stats() of the
       histogram model as a Map; the mean of these samples is a whole number of quarters *)
    let n := v mod 100 in
    if 100 <=? v then JStr (txt "unsupported")
    else
      match stats (map (fun i => 6 * Z.of_nat i) (seq 0 (Z.to_nat n))) with
      | Some st =>
          JObj [(txt "count", JNat (N.of_nat (hs_count st)));
                (txt "max", quarter (hs_max st));
                (txt "mean", quarter (if n =? 0 then 0 else hs_sum st / n));
                (txt "min", quarter (hs_min st));
                (txt "p50", quarter (hs_p50 st));
                (txt "p95", quarter (hs_p95 st));
                (txt "p99", quarter (hs_p99 st));
                (txt "sum", quarter (hs_sum st))]
      | None => JStr (txt "panic")
      end
  else if k =? 4 then
    (* OddMetric *)
    if v =? 0 then JNull
    else if v =? 1 then JStr []
    else if v =? 2 then JObj []
    else if v =? 3 then JArr []
    else if v =? 4 then JBool false
    else JObj [(txt "nested", JArr [JNull; JObj [(txt "x", JArr [])]]); (txt "value", JNull)]
  else JStr (txt "unsupported").
Definition h_desc (tag : Z) : option text :=
  let k := tag / 1000 in
  let v := tag mod 1000 in
  if Z.even v then
    if k =? 2 then Some (txt "a ratio")
    else if k =? 3 then Some (txt "latencies")
    else if k =? 4 then Some []
    else None
  else None.
Definition HENV : env := Env h_name h_val h_desc.

(* [length, hash] as c16.rs `digest` computes it: h <- h * 257 + byte + 1 in wrapping 63-bit
   arithmetic, the low 40 bits at the end *)
Definition dig_b : PrimInt63.int := Eval vm_compute in Uint63.of_Z 257.
Definition dig_mask : PrimInt63.int := Eval vm_compute in Uint63.of_Z (2 ^ 40 - 1).
Definition dig0 : PrimInt63.int := Eval vm_compute in Uint63.of_Z 7.
Fixpoint digest_go (t : text) (n : Z) (h : PrimInt63.int) : Z * Z :=
  match t with
  | [] => (n, Uint63.to_Z (PrimInt63.land h dig_mask))
  | b :: r => digest_go r (n + 1) (PrimInt63.add (PrimInt63.mul h dig_b) (Uint63.of_Z (b + 1)))
  end.
Definition digest (t : text) : Z * Z := digest_go t 0 dig0.
Definition dig_eqb (d : Z * Z) (j : J) : bool :=
  match j with JL [JI l; JI h] => (fst d =? l) && (snd d =? h) | _ => false end.
Definition odig_eqb (o : option text) (j : J) : bool :=
  match o, j with
  | None, JN => true
  | Some t, JL _ => dig_eqb (digest t) j
  | _, _ => false
  end.
(* the text itself, when the harness sent it: c16.rs `bytes_json` writes harmless characters as
   they are and every other byte as ~XX (upper-case hex) *)
Definition unhex (c : Z) : Z := if c <? 58 then c - 48 else c - 55.
Fixpoint unesc (l : list Z) : text :=
  match l with
  | 126 :: a :: b :: r => (16 * unhex a + unhex b) :: unesc r
  | c :: r => c :: unesc r
  | [] => []
  end.
Definition full_eqb (t : text) (j : J) : bool :=
  match j with JN => true | JS s => text_eqb t (unesc (string_bytes s)) | _ => false end.

(* one input step as model steps; the clock oracle: record_start reads `now` (every stamp so far
   is <= now), record_end after a start reads start + the elapsed time observed after the step *)
Definition dec_xsteps (now : Z) (s : mstate) (st el : J) : option (list xstep) :=
  match st with
  | JL [JI 4; ms] => match dec_metrics ms with Some l => Some [XCall (RegAll l)] | None => None end
  | JL [JI 5] => Some [XCall (RecStart now)]
  | JL [JI 6] =>
      Some [XCall (RecEnd (match ms_start s, el with Some a, JI d => a + d | _, _ => now end))]
  | JL [JI 7; JI p] => Some [XSave p]
  | JL [JI 8; JI p] => Some [XRemove p]
  | JL [JI 9; JI p; JI len; JI b] =>
      Some [XForeign p (map (fun i => (b + Z.of_nat i) mod 251) (seq 0 (Z.to_nat len)))]
  | JL [JI 10; JI k] => if k <? 0 then None else Some [XUse (Z.to_nat k)]
  | JL [JI 11; JI ms] => Some [XSleep ms]
  | JL [JI 12; JI base; JI count; JI v; JI mode] =>
      let idx := map (fun i => base + Z.of_nat i) (rev (seq 0 (Z.to_nat count))) in
      if v <? 0 then None
      else if mode =? 0 then Some (map (fun n => XCall (SetC n (Z.to_N v))) idx)
      else if mode =? 1 then Some (map (fun n => XCall (Incr n (Z.to_N v))) idx)
      else Some [XCall (RegAll (map (fun n => (n, Counter (Z.to_N v))) idx))]
  | JL [JI _; JI _; JI _] => match dec_op st with Some c => Some [XCall c] | None => None end
  | _ => None
  end.
Definition last_outcome (E : env) (xs : list xstep) (w : world) : world * outcome unit :=
  fold_left (fun wr x => xstep_run E x (fst wr)) xs (w, Ok tt).
Definition ozmax (a : Z) (o : option Z) : Z := match o with Some b => Z.max a b | None => a end.

(* which path (if any) an input step writes, removes or replaces *)
Definition step_path (st : J) : option Z :=
  match st with
  | JL [JI 7; JI p] | JL [JI 8; JI p] | JL [JI 9; JI p; _; _] => Some p
  | _ => None
  end.
Fixpoint files_same_except (p : option Z) (i : Z) (a b : list J) : bool :=
  match a, b with
  | [], [] => true
  | x :: a', y :: b' =>
      ((match p with Some q => q =? i | None => false end) || jeqb x y) &&
      files_same_except p (i + 1) a' b'
  | _, _ => false
  end.
Fixpoint files_agree (f : fs) (i : Z) (obs : list J) : bool :=
  match obs with
  | [] => true
  | o :: r => odig_eqb (fs_read i f) o && files_agree f (i + 1) r
  end.

(* names the script has written under so far, per collector (reference side) *)
Definition xstep_names (x : xstep) : list name :=
  match x with XCall c => call_names c | _ => [] end.

Fixpoint judge_saves (steps obs : list J) (w : world) (now : Z) (cur_k : Z) (written : list (Z * name))
         (prev_files : list J) : option (bool * bool * world) :=
  match steps, obs with
  | [], [] => Some (true, true, w)
  | st :: steps', JL [JI res; el; lohi; jj; js; jp; JL files; info] :: obs' =>
      match dec_xsteps now (cur w) st el with
      | None => None
      | Some xs =>
          let '(w', out) := last_outcome HENV xs w in
          let s' := cur w' in
          let now' := ozmax (ozmax now (ms_start s')) (ms_end s') in
          let cur_k' := match st with JL [JI 10; JI k] => k | _ => cur_k end in
          let written' := map (fun n => (cur_k, n)) (flat_map xstep_names xs) ++ written in
          let in_window :=
            match lohi, el with
            | JN, _ => true
            | JL [JI lo; JI hi], JI d => (lo <=? d) && (d <=? hi)
            | _, _ => false
            end in
          let agree :=
            (res =? match out with Ok _ => 0 | Err _ => 1 | Panic => 2 end) &&
            match elapsed s', el with
            | None, JN => true
            | Some d, JI d' => d =? d'
            | _, _ => false
            end && in_window &&
            dig_eqb (digest (export_text HENV s')) jj &&
            dig_eqb (digest (compact (snapshot_json HENV s'))) js &&
            (if dig_eqb (digest (print_text HENV s')) jp then true
             else dig_eqb (digest (print_text_alt HENV s')) jp) &&
            files_agree (w_fs w') 0 files in
          let mine := flat_map (fun p => if fst p =? cur_k' then [snd p] else []) written' in
          let prop :=
            in_window &&
            match el with JN => true | JI d => 0 <=? d | _ => false end &&
            files_same_except (step_path st) 0 files prev_files &&
            match st with
            | JL [JI 7; JI p] =>
                if res =? 0 then
                  (* the file just written IS the export: parses, equals to_json(), is its pretty
                     text (also by digest), and names every metric written so far *)
                  match info with
                  | JL [JB parses; JB same; JB texteq; jkeys] =>
                      match jints jkeys with
                      | Some keys =>
                          parses && same && texteq && (0 <=? p) &&
                          jeqb (nth (Z.to_nat p) files JN) jj &&
                          forallb (fun n => zmem n keys) mine &&
                          match el with JI _ => zmem exec_time_name keys | _ => true end
                      | None => false
                      end
                  | _ => false
                  end
                else (p <? 0) && files_same_except None 0 files prev_files
            | _ => res =? 0
            end in
          match judge_saves steps' obs' w' now' cur_k' written' files with
          | Some (a, p, wf) => Some (agree && a, prop && p, wf)
          | None => None
          end
      end
  | _, _ => None
  end.

Definition judge_saves_case (ncoll npaths : Z) (steps obs : list J) (finals : J) : option (bool * bool) :=
  if (ncoll <? 1) || (npaths <? 0) then None else
  match judge_saves steps obs (fresh_world (Z.to_nat ncoll)) 0 0 [] (repeat JN (Z.to_nat npaths)) with
  | Some (a, p, wf) =>
      match finals with
      | JL [fj; fs; fp; JL ffiles] =>
          let s := cur wf in
          let fin :=
            full_eqb (export_text HENV s) fj && full_eqb (compact (snapshot_json HENV s)) fs &&
            (if full_eqb (print_text HENV s) fp then true else full_eqb (print_text_alt HENV s) fp) &&
            (fix go (i : Z) (l : list J) : bool :=
               match l with
               | [] => true
               | j :: r =>
                   match fs_read i (w_fs wf), j with
                   | None, JN => true
                   | Some t, _ => full_eqb t j
                   | _, _ => false
                   end && go (i + 1) r
               end) 0 ffiles in
          Some (a && fin, p)
      | _ => None
      end
  | None => None
  end.

(* ---------- HistogramMetric::stats (kind `hist`) ---------- *)
(* samples in quarters: an explicit list, or x_i = ((a i + b) mod m) - off for i < n *)
Definition dec_samples (j : J) : option (list Z) :=
  match j with
  | JL [JI 0; l] => jints l
  | JL [JI 1; JI n; JI a; JI b; JI m; JI off] =>
      if (n <? 0) || (m <=? 0) then None
      else Some (map (fun i => (a * Z.of_nat i + b) mod m - off) (seq 0 (Z.to_nat n)))
  | _ => None
  end.
Definition float_of_Z (z : Z) : PrimFloat.float :=
  if z <? 0 then PrimFloat.opp (PrimFloat.of_uint63 (Uint63.of_Z (- z)))
  else PrimFloat.of_uint63 (Uint63.of_Z z).
(* independent reference for sorted[i]: fewer than i + 1 samples are smaller, more than i are
   not larger *)
Definition rank_ok (xs : list Z) (i : Z) (x : Z) : bool :=
  let lt := Z.of_nat (List.length (filter (fun y => y <? x) xs)) in
  let le := Z.of_nat (List.length (filter (fun y => y <=? x) xs)) in
  (lt <=? i) && (i <? le).
Definition judge_hist (xs : list Z) (out : J) : option (bool * bool) :=
  match out with
  | JL [JS _; JL [JI cnt; JI sum; JF mean; JI mn; JI mx; JI p50; JI p95; JI p99]; JB twin] =>
      let n := Z.of_nat (List.length xs) in
      let agree :=
        match stats xs with
        | Some st =>
            (cnt =? Z.of_nat (hs_count st)) && (sum =? hs_sum st) && (mn =? hs_min st) &&
            (mx =? hs_max st) && (p50 =? hs_p50 st) && (p95 =? hs_p95 st) && (p99 =? hs_p99 st) &&
            (if n =? 0 then PrimFloat.eqb mean PrimFloat.zero
             else PrimFloat.eqb mean
                    (PrimFloat.div (PrimFloat.div (float_of_Z (hs_sum st)) (float_of_Z 4))
                                   (float_of_Z n))) && twin
        | None => false
        end in
      let prop :=
        twin && (cnt =? n) && (sum =? zsum xs) &&
        (if n =? 0 then (mn =? 0) && (mx =? 0) && (p50 =? 0) && (p95 =? 0) && (p99 =? 0)
         else rank_ok xs 0 mn && rank_ok xs (n - 1) mx && rank_ok xs (n / 2) p50 &&
              rank_ok xs (n * 95 / 100) p95 && rank_ok xs (n * 99 / 100) p99 &&
              (mn <=? p50) && (p50 <=? p95) && (p95 <=? p99) && (p99 <=? mx)) in
      Some (agree, prop)
  | JL [JS _] => Some (false, false)      (* stats() panicked *)
  | _ => None
  end.

(* ---------- entry point ---------- *)
Definition check_C16 (kind : string) (input output : J) : verdict :=
  if String.eqb kind "sched" then
    match input with
    | JL [jinit; jts; jsched] =>
        match dec_metrics jinit, dec_threads jts, dec_nats jsched with
        | Some init, Some ts, Some sched =>
            match output with
            | JL [JS _; jsnap; jyields] => finish (judge_sched init ts sched jsnap jyields)
            | JL [JS _] => ok_verdict false false            (* hang / panic *)
            | _ => malformed
            end
        | _, _, _ => malformed
        end
    | _ => malformed
    end
  else if String.eqb kind "all" then
    match input with
    | JL [jinit; jts; JI slots] =>
        match dec_metrics jinit, dec_threads jts with
        | Some init, Some ts =>
            let counts := map (fun cs => (List.length cs * Z.to_nat slots)%nat) ts in
            let scheds := interleavings (fold_right Nat.add O counts) counts in
            match output with
            | JL [JS _; JL rows] => finish (judge_rows init ts scheds rows)
            | _ => malformed
            end
        | _, _ => malformed
        end
    | _ => malformed
    end
  else if String.eqb kind "seq" then
    match input with
    | JL [JL jcalls] =>
        match dec_calls 0 jcalls with
        | Some cs => finish (judge_seq cs output)
        | None => malformed
        end
    | _ => malformed
    end
  else if String.eqb kind "stress" then
    (* free-running threads: the model's answer for EVERY schedule is the closed form of
       c16_no_lost_update, so no schedule needs to be known *)
    match input, output with
    | JL [JS _; JI nt; JI per; JI v; JI init], JL [JS _; jsnap] =>
        match dec_metrics jsnap with
        | Some snap =>
            let total := ((if init <? 0 then 0 else init) + nt * per * v)%Z in
            let good := store_eqb snap [(0, Counter (Z.to_N total))] in
            ok_verdict good good
        | None => malformed
        end
    | _, _ => malformed
    end
  else if String.eqb kind "transparent" then
    match input, output with
    (* the 8th component is the Runner configuration (checkpoint_config None / disabled / enabled
       with each policy, collect_seq/collect_par helpers): the model's run_collect is abstract in
       the engine, so its prediction is the same for every configuration *)
    | JL (JI pipe :: JI mode :: JL jdata :: JI _ :: jregs :: jerrs :: JI poisoned :: cfg),
      JL [JS _; jwith; jwithout; rest] =>
        match cfg with
        | [] | [JI _] =>
            match dec_metrics jregs, jints jerrs with
            | Some regs, Some errs =>
                (* pipe 5: the closure sleeps clamp(x) ms per element - one after the other in
                   Sequential mode, at least the longest of them in Parallel mode *)
                let sleeps := match jints (JL jdata) with Some l => map clamp_ms l | None => [] end in
                let slept_ms := if pipe =? 5 then (if mode =? 0 then zsum sleeps else zmax sleeps) else 0 in
                match judge_transparent regs errs (negb (poisoned =? 0)) slept_ms jwith jwithout rest with
                | Some (a, p) => V a p (negb (poisoned =? 0)) false
                | None => malformed
                end
            | _, _ => malformed
            end
        | _ => malformed
        end
    | _, _ => malformed
    end
  else if String.eqb kind "export" then
    (* in = [metrics, stamps, via_all]; out = [ok, snapshot keys, to_json keys, every entry has a
       "value" field, keys of the file written by save_to_file, counters, time]; stamps = k >= 1:
       k-1 ms asleep between record_start and record_end; time = [lo, hi, elapsed() in ns,
       execution_time_ms of to_json, of the file], lo..hi = the harness's bracket of (end - start) *)
    match input, output with
    | JL [jms; JI stamps; JI via_all],
      JL [JS _; jsnap; jjson; JB shaped; jfile; JL jcounters; JL [JI lo; JI hi; jel; jtms; jfms]] =>
        match dec_metrics jms, jints jsnap, jints jjson, omap jints jcounters with
        | Some ms, Some ksnap, Some kjson, Some counters =>
            let regs := if via_all =? 0 then map (fun p => Reg (fst p) (snd p)) ms else [RegAll ms] in
            (* the clock oracle: the two readings are d ns apart *)
            let d := match jel with JI d => d | _ => 1 end in
            let final := run_calls (regs ++ (if stamps =? 0 then [] else [RecStart 0; RecEnd d]))
                                   empty_state in
            let slept := stamps - 1 in
            let time_agree :=
              match jel, jtms, jfms with
              | JN, JN, JN => (stamps =? 0) && match elapsed final with None => true | _ => false end
              | JI d, JI ms, JI fms =>
                  negb (stamps =? 0) && (lo <=? d) && (d <=? hi) && (slept * NS_PER_MS <=? lo) &&
                  match elapsed final, json_time final with
                  | Some e, Some want => (e =? d) && (ms =? want) && (fms =? want)
                  | _, _ => false
                  end
              | _, _, _ => false
              end in
            let time_prop :=
              match jel, jtms, jfms with
              | JN, JN, JN => stamps =? 0
              | JI d, JI ms, JI fms =>
                  (ms =? d / 1000000) && (fms =? ms) && (slept <=? ms) && (slept * 1000000 <=? d)
              | _, _, _ => false
              end in
            let want_counters :=
              flat_map (fun p => match snd p with
                                 | Counter c => [[fst p; Z.of_N c]]
                                 | Other _ => [] end) (ssort (ms_metrics final)) in
            let kfile := match jints jfile with Some l => l | None => [-98] end in
            let names := map fst ms in
            let agree :=
              zlist_eqb ksnap (zsort (map fst (ms_metrics final))) &&
              zlist_eqb kjson (zsort (json_keys final)) &&
              zlist_eqb kfile (zsort (json_keys final)) && shaped &&
              (fix leq (a b : list (list Z)) : bool :=
                 match a, b with
                 | [], [] => true
                 | x :: a', y :: b' => zlist_eqb x y && leq a' b'
                 | _, _ => false
                 end) counters want_counters && time_agree in
            let prop :=
              forallb (fun n => zmem n ksnap && zmem n kjson && zmem n kfile) names && shaped &&
              (if stamps =? 0 then true else zmem exec_time_name kjson && zmem exec_time_name kfile) &&
              time_prop in
            ok_verdict agree prop
        | _, _, _, _ => malformed
        end
    | _, _ => malformed
    end
  else if String.eqb kind "busy" then
    (* in = [driver, init, ops, ms]; out = [ok, snapshot, B saw A inside its critical section, A
       had left it when B's first call returned] *)
    match input, output with
    | JL [JI _; jinit; jops; JI _], JL [JS _; jsnap; JB overlapped; JB blocked] =>
        match dec_metrics jinit, dec_thread jops with
        | Some init, Some ops => finish (judge_busy init ops jsnap overlapped blocked)
        | _, _ => malformed
        end
    | _, _ => malformed
    end
  else if String.eqb kind "attach" then
    (* in = [steps, mode, data, parts, cfg]; out = [ok, per step [observation, elapsed ns of every
       collector], per collector [snapshot, execution_time_ms of to_json, to_json keys]] *)
    match input, output with
    | JL [JL steps; JI mode; jdata; JI _; JI _], JL [JS _; JL obs; JL finals] =>
        let sleeps := match jints jdata with Some l => map clamp_ms l | None => [] end in
        let slept := if mode =? 0 then zsum sleeps else zmax sleeps in
        finish (judge_attach steps slept obs finals)
    | _, _ => malformed
    end
  else if String.eqb kind "hist" then
    (* in = [via, samples]; out = [ok, [count, 4 sum, mean, 4 min, 4 max, 4 p50, 4 p95, 4 p99],
       value() carries the same numbers] *)
    match input with
    | JL [JI _; jxs] =>
        match dec_samples jxs with
        | Some xs => finish (judge_hist xs output)
        | None => malformed
        end
    | _ => malformed
    end
  else if String.eqb kind "saves" then
    (* in = [ncoll, npaths, steps]; out = [ok, per step [result, elapsed ns, [lo,hi], digests of
       to_json / snapshot / print, digest of every file, save info], final texts] *)
    match input, output with
    | JL [JI ncoll; JI npaths; JL steps], JL [JS _; JL obs; finals] =>
        finish (judge_saves_case ncoll npaths steps obs finals)
    | JL [JI _; JI _; JL _], JL [JS _] => ok_verdict false false     (* panic / hang *)
    | _, _ => malformed
    end
  else malformed.
