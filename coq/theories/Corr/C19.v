(* Correspondence for C19: runs the model of src/io/cloud/readers.rs (IO/CloudGlob.v, IO/Regex.v)
   on the cases the harness ran on the real code over FakeObjectIO, and decides agreement and
   the property instance inside Coq. *)
From Coq Require Import List ZArith NArith Bool String Ascii.
From IB Require Import Util.J IO.Regex IO.CloudGlob IO.CloudStore.
Import ListNotations.
Open Scope Z_scope.

(* ---------- decoding ---------- *)
Fixpoint utf8_dec (bs : list Z) : option (list N) :=
  match bs with
  | [] => Some []
  | b0 :: r0 =>
      if b0 <? 128 then ocons (Z.to_N b0) (utf8_dec r0)
      else if b0 <? 224 then
        match r0 with
        | b1 :: r1 => ocons (Z.to_N ((b0 - 192) * 64 + (b1 - 128))) (utf8_dec r1)
        | _ => None
        end
      else if b0 <? 240 then
        match r0 with
        | b1 :: b2 :: r2 =>
            ocons (Z.to_N ((b0 - 224) * 4096 + (b1 - 128) * 64 + (b2 - 128))) (utf8_dec r2)
        | _ => None
        end
      else
        match r0 with
        | b1 :: b2 :: b3 :: r3 =>
            ocons (Z.to_N ((b0 - 240) * 262144 + (b1 - 128) * 4096 + (b2 - 128) * 64 + (b3 - 128)))
                  (utf8_dec r3)
        | _ => None
        end
  end.

(* a string: JSON string (plain or as UTF-8 bytes), an array of code points, or an array of
   [string, count] pairs = the concatenation of the repeated pieces (long keys and patterns) *)
Definition jstr_simple (j : J) : option (list N) :=
  match j with
  | JS s => Some (map Z.to_N (string_bytes s))
  | JY b => utf8_dec b
  | JL l => match omap jint l with Some zs => Some (map Z.to_N zs) | None => None end
  | _ => None
  end.
Fixpoint rep_app (u : list N) (n : nat) : list N :=
  match n with O => [] | S n' => u ++ rep_app u n' end.
Definition jpiece (j : J) : option (list N) :=
  match j with
  | JL [s; JI c] => match jstr_simple s with
                    | Some u => Some (rep_app u (Z.to_nat c))
                    | None => None
                    end
  | _ => None
  end.
Definition jstr (j : J) : option (list N) :=
  match j with
  | JL ((JL _ :: _) as l) => match omap jpiece l with Some ps => Some (List.concat ps) | None => None end
  | _ => jstr_simple j
  end.
Definition jstrs (j : J) : option (list (list N)) :=
  match j with JL l => omap jstr l | _ => None end.
Definition jrawbytes (j : J) : option (list N) :=
  match jbytes j with Some b => Some (map Z.to_N b) | None => None end.

Fixpoint zl_eqb (a b : list Z) : bool :=
  match a, b with
  | [], [] => true
  | x :: a', y :: b' => (x =? y) && zl_eqb a' b'
  | _, _ => false
  end.

(* structural equality of interchange values (the renderer is deterministic, so equal JSON
   values are rendered to equal terms) *)
Fixpoint jeqb (a b : J) : bool :=
  match a, b with
  | JI x, JI y => x =? y
  | JB x, JB y => Bool.eqb x y
  | JN, JN => true
  | JS x, JS y => String.eqb x y
  | JY x, JY y => zl_eqb x y
  | JL x, JL y =>
      (fix go (x y : list J) : bool :=
         match x, y with
         | [], [] => true
         | a :: x', b :: y' => jeqb a b && go x' y'
         | _, _ => false
         end) x y
  | _, _ => false
  end.
Fixpoint jl_eqb (x y : list J) : bool :=
  match x, y with
  | [], [] => true
  | a :: x', b :: y' => jeqb a b && jl_eqb x' y'
  | _, _ => false
  end.

Fixpoint keys_eqb (a b : list (list N)) : bool :=
  match a, b with
  | [], [] => true
  | x :: a', y :: b' => list_eqb x y && keys_eqb a' b'
  | _, _ => false
  end.

Definition oeqb (a b : option (list N)) : bool :=
  match a, b with
  | None, None => true
  | Some x, Some y => list_eqb x y
  | _, _ => false
  end.

(* observed outcome ["ok", keys] / ["err", class] *)
Definition dec_err (j : J) : option errkind :=
  if jtag_is "InvalidInput" j then Some InvalidInput
  else if jtag_is "NotFound" j then Some NotFound
  else if jtag_is "InternalError" j then Some InternalError
  else None.
Definition dec_keys_outcome (j : J) : option (outcome (list (list N))) :=
  match j with
  | JL [t; v] =>
      if jtag_is "ok" t then match jstrs v with Some ks => Some (Ok ks) | None => None end
      else if jtag_is "err" t then match dec_err v with Some e => Some (Err e) | None => None end
      else None
  | _ => None
  end.
Definition errkind_eqb (a b : errkind) : bool :=
  match a, b with
  | InvalidInput, InvalidInput | NotFound, NotFound | InternalError, InternalError => true
  | _, _ => false
  end.
Definition kout_eqb (a b : outcome (list (list N))) : bool :=
  match a, b with
  | Ok x, Ok y => keys_eqb x y
  | Err x, Err y => errkind_eqb x y
  | _, _ => false
  end.

(* prefix seen by the store: ["nocall"] | ["none"] | ["some", s] *)
Inductive seen := NoCall | Seen (p : option (list N)).
Definition dec_seen (j : J) : option seen :=
  match j with
  | JL [t] => if jtag_is "nocall" t then Some NoCall
              else if jtag_is "none" t then Some (Seen None) else None
  | JL [t; s] => if jtag_is "some" t then
                   match jstr s with Some p => Some (Seen (Some p)) | None => None end
                 else None
  | _ => None
  end.
Definition seen_eqb (a b : seen) : bool :=
  match a, b with
  | NoCall, NoCall => true
  | Seen x, Seen y => oeqb x y
  | _, _ => false
  end.

(* ---------- reference checks for the property instance (independent of the regex route and
   of sort_keys) ---------- *)
Definition key_ltb (a b : list N) : bool := key_leb a b && negb (list_eqb a b).
Fixpoint strictly_sorted (l : list (list N)) : bool :=
  match l with
  | a :: ((b :: _) as r) => key_ltb a b && strictly_sorted r
  | _ => true
  end.
Definition mem_key (k : list N) (l : list (list N)) : bool := existsb (list_eqb k) l.
Fixpoint nodup_keys (l : list (list N)) : bool :=
  match l with [] => true | k :: r => negb (mem_key k r) && nodup_keys r end.

(* obs is the sorted list of exactly the keys of `keys` that match p *)
Definition is_expansion (keys : list (list N)) (p : list N) (obs : list (list N)) : bool :=
  strictly_sorted obs &&
  forallb (fun k => mem_key k keys && glob_match p k) obs &&
  forallb (fun k => implb (glob_match p k) (mem_key k obs)) keys.

Definition prop_expand (bucket : option (list (list N))) (p : list N)
           (o1 : outcome (list (list N))) : bool :=
  match bucket, o1 with
  | Some keys, Ok ks => is_expansion keys p ks
  | None, Err NotFound => true
  | _, _ => false
  end.
Definition prop_required (o1 o2 : outcome (list (list N))) : bool :=
  match o1 with
  | Ok [] => kout_eqb o2 (Err NotFound)
  | _ => kout_eqb o2 o1
  end.
(* listing by the OBSERVED prefix hides no key that matches the documented syntax *)
Definition prop_prefix (keys : list (list N)) (p : list N) (s : seen) : bool :=
  match s with
  | NoCall => false
  | Seen pre => forallb (fun k => implb (glob_match p k) (prefix_ok pre k)) keys
  end.

(* canonical enumeration shared with harness/src/bin/c19.rs: all strings over `syms` of length
   0, 1, ..., maxlen; within one length the first character varies slowest *)
Fixpoint seqs_of_len {A} (syms : list A) (n : nat) : list (list A) :=
  match n with
  | O => [[]]
  | S n' => flat_map (fun s => map (cons s) (seqs_of_len syms n')) syms
  end.
Definition all_seqs {A} (syms : list A) (maxlen : nat) : list (list A) :=
  flat_map (seqs_of_len syms) (seq 0 (S maxlen)).

(* ---------- toy instance used to RUN the JSONL model: a record is its index, serialised as
   `[` 1^n `]`; a codec prepends its signature ---------- *)
Definition toy_ser (n : nat) : list N := (91 :: repeat 49 n ++ [93])%N.
Definition toy_de (l : list N) : option nat :=
  match l with
  | c :: r => if N.eqb c 91 then Some (pred (List.length r)) else None
  | [] => None
  end.
Definition magic_of (c : codec) : list N :=
  match c with Gzip => magic_gzip | Zstd => magic_zstd | Bzip2 => magic_bzip2 | Xz => magic_xz end.
Definition toy_enc (c : codec) (b : list N) : list N := magic_of c ++ b.
Fixpoint strip (pre s : list N) : option (list N) :=
  match pre, s with
  | [], _ => Some s
  | a :: pre', b :: s' => if N.eqb a b then strip pre' s' else None
  | _ :: _, [] => None
  end.
Definition toy_dec (c : codec) (b : list N) : option (list N) := strip (magic_of c) b.

Definition codec_id (o : option codec) : Z :=
  match o with None => 0 | Some Gzip => 1 | Some Zstd => 2 | Some Bzip2 => 3 | Some Xz => 4 end.

(* the real plain payload: n lines, each LF terminated, each satisfying line_ok, no signature *)
Fixpoint join_lines (ls : list (list N)) : list N :=
  match ls with [] => []%list | l :: r => (l ++ [10%N]) ++ join_lines r end.
Definition payload_ok (n : nat) (plain : list N) : bool :=
  let ls := split_lines [] plain in
  Nat.eqb (List.length ls) n && forallb line_ok ls && list_eqb (join_lines ls) plain &&
  match magic_codec plain with None => true | Some _ => false end.

(* objects = [[key, [records]], ...] written in this order; ids number the records globally *)
Fixpoint dec_objs (l : list J) : option (list (list N * list J)) :=
  match l with
  | [] => Some []
  | JL [k; JL rs] :: r =>
      match jstr k, dec_objs r with
      | Some k', Some r' => Some ((k', rs) :: r')
      | _, _ => None
      end
  | _ => None
  end.
Fixpoint number_objs (start : nat) (objs : list (list N * list J))
  : list (list N * list nat) :=
  match objs with
  | [] => []
  | (k, rs) :: r => (k, seq start (List.length rs)) :: number_objs (start + List.length rs) r
  end.
Definition build_store (objs : list (list N * list nat)) : store :=
  fold_left (fun st o => cloud_write toy_ser toy_enc st (fst o) (snd o)) objs [].
Definition all_records (objs : list (list N * list J)) : list J := flat_map snd objs.

(* last write to key k wins *)
Fixpoint last_write (objs : list (list N * list J)) (k : list N) (acc : list J) : list J :=
  match objs with
  | [] => acc
  | (k', rs) :: r => last_write r k (if list_eqb k k' then rs else acc)
  end.
Fixpoint distinct_keys (l : list (list N)) : list (list N) :=
  match l with
  | [] => []
  | k :: r => if mem_key k r then distinct_keys r else k :: distinct_keys r
  end.

Definition check_expand (bucket : option (list (list N))) (keys : list (list N)) (p : list N)
           (o1 o2 : outcome (list (list N))) (s : option seen) : verdict :=
  let m1 := expand bucket p in
  let m2 := expand_required bucket p in
  let agree := kout_eqb o1 m1 && kout_eqb o2 m2 &&
               match s with
               | Some sn => seen_eqb sn (match parse (glob_to_regex p) with
                                         | None => NoCall
                                         | Some _ => Seen (literal_prefix p)
                                         end)
               | None => true
               end in
  let prop := prop_expand bucket p o1 && prop_required o1 o2 &&
              match s with Some sn => prop_prefix keys p sn | None => true end in
  ok_verdict agree prop.


(* ================================================================================== *)
(* call sequences on one store with several buckets (kind ops)                        *)
(* ================================================================================== *)
(* a text as its UTF-8 BYTES *)
Definition jutf8 (j : J) : option (list N) :=
  match j with
  | JS s => Some (map Z.to_N (string_bytes s))
  | JY b => Some (map Z.to_N b)
  | _ => None
  end.

Inductive ditem :=
| DIRec (pre : list N) (r : J) (post : list N) (eol : Z)
| DIWs (t : list N) (eol : Z)
| DIJunk (t : list N) (eol : Z).

Inductive dop :=
| DW (b k : list N) (recs : list J)
| DRaw (b k : list N) (c : Z) (items : list ditem)
| DDel (b k : list N)
| DCp (sb sk db dk : list N)
| DEx (b k : list N)
| DR (b k : list N)
| DX (b p : list N)
| DG (b p : list N).

Definition dec_item (j : J) : option ditem :=
  match j with
  | JL [t; pre; r; post; JI eol] =>
      if jtag_is "rec" t then
        match jutf8 pre, jutf8 post with
        | Some a, Some b => Some (DIRec a r b eol)
        | _, _ => None
        end
      else None
  | JL [t; x; JI eol] =>
      match jutf8 x with
      | Some a => if jtag_is "ws" t then Some (DIWs a eol)
                  else if jtag_is "junk" t then Some (DIJunk a eol) else None
      | None => None
      end
  | _ => None
  end.

Definition dec_op (j : J) : option dop :=
  match j with
  | JL [t; b; k; JL recs] =>
      if jtag_is "w" t || jtag_is "wo" t then
        match jstr b, jstr k with Some b', Some k' => Some (DW b' k' recs) | _, _ => None end
      else None
  | JL [t; b; k; JI c; JL items] =>
      if jtag_is "raw" t then
        match jstr b, jstr k, omap dec_item items with
        | Some b', Some k', Some its => Some (DRaw b' k' c its)
        | _, _, _ => None
        end
      else if jtag_is "cp" t then
        None
      else None
  | JL [t; b; k] =>
      match jstr b, jstr k with
      | Some b', Some k' =>
          if jtag_is "del" t then Some (DDel b' k')
          else if jtag_is "ex" t then Some (DEx b' k')
          else if jtag_is "r" t then Some (DR b' k')
          else if jtag_is "x" t then Some (DX b' k')
          else if jtag_is "g" t then Some (DG b' k')
          else None
      | _, _ => None
      end
  | JL [t; sb; sk; db; dk] =>
      if jtag_is "cp" t then
        match jstr sb, jstr sk, jstr db, jstr dk with
        | Some a, Some b, Some c, Some d => Some (DCp a b c d)
        | _, _, _, _ => None
        end
      else None
  | _ => None
  end.

(* strict toy deserialiser: JSON white space around `[` 1^n `]` *)
Definition is_jws (c : N) : bool := N.eqb c 32 || N.eqb c 9 || N.eqb c 10 || N.eqb c 13.
Fixpoint drop_jws (l : list N) : list N :=
  match l with c :: r => if is_jws c then drop_jws r else l | [] => [] end.
Definition trim_jws (l : list N) : list N := rev (drop_jws (rev (drop_jws l))).
Definition toy_de2 (l : list N) : option nat :=
  match trim_jws l with
  | c :: r =>
      if N.eqb c 91 then
        match rev r with
        | d :: m => if N.eqb d 93 && forallb (N.eqb 49) m then Some (List.length m) else None
        | [] => None
        end
      else None
  | [] => None
  end.

Definition eol_of (z : Z) : option (list N) :=
  if z =? 0 then Some [] else if z =? 1 then Some [10%N] else if z =? 2 then Some [13%N; 10%N]
  else None.

(* model text of a raw op (record i serialised by toy_ser) and the records it carries;
   None = the case is not well formed (eol 0 before the last item, junk that is blank or a toy
   record) *)
Fixpoint raw_text (items : list ditem) (next : nat) : option (list N * list J) :=
  match items with
  | [] => Some ([], [])
  | it :: rest =>
      let last_ok (eol : Z) := negb (eol =? 0) || match rest with [] => true | _ :: _ => false end in
      match it with
      | DIRec pre r post eol =>
          match eol_of eol, raw_text rest (S next) with
          | Some e, Some (t, rs) =>
              if last_ok eol then Some (pre ++ toy_ser next ++ post ++ e ++ t, r :: rs) else None
          | _, _ => None
          end
      | DIWs w eol =>
          match eol_of eol, raw_text rest next with
          | Some e, Some (t, rs) => if last_ok eol then Some (w ++ e ++ t, rs) else None
          | _, _ => None
          end
      | DIJunk w eol =>
          match eol_of eol, raw_text rest next with
          | Some e, Some (t, rs) =>
              if last_ok eol && negb (is_blank w) &&
                 match toy_de2 w with None => true | Some _ => false end &&
                 forallb (fun c => negb (N.eqb c 10)) w
              then Some (w ++ e ++ t, rs) else None
          | _, _ => None
          end
      end
  end.

Definition codec_of_id (z : Z) : option (option codec) :=
  if z =? 0 then Some None else if z =? 1 then Some (Some Gzip) else if z =? 2 then Some (Some Zstd)
  else if z =? 3 then Some (Some Bzip2) else if z =? 4 then Some (Some Xz) else None.

(* ---- the reference the property instance is judged against: a plain association list
   (bucket, key) -> (records, codec the bytes are encoded with, some line is not JSON), and the
   list of buckets something was ever put into. What a read must give follows from the
   documentation: the records, if every line is JSON and the key names the codec of the bytes or
   no codec at all (then the signature of the bytes decides); an error otherwise. ---- *)
Definition rslot := (list N * list N)%type.
Definition rcontent := (list J * Z * bool)%type.
Definition rstate := (list (rslot * rcontent) * list (list N))%type.
Definition slot_is (b k : list N) (s : rslot) : bool := list_eqb b (fst s) && list_eqb k (snd s).
Definition r_lookup (rf : rstate) (b k : list N) : option rcontent :=
  match find (fun e => slot_is b k (fst e)) (fst rf) with Some e => Some (snd e) | None => None end.
Definition r_remove (rf : rstate) (b k : list N) : rstate :=
  (filter (fun e => negb (slot_is b k (fst e))) (fst rf), snd rf).
Definition r_set (rf : rstate) (b k : list N) (c : rcontent) : rstate :=
  let rf' := r_remove rf b k in
  (fst rf' ++ [((b, k), c)], if mem_key b (snd rf) then snd rf else b :: snd rf).
Definition r_bucket (rf : rstate) (b : list N) : option (list (list N)) :=
  if mem_key b (snd rf) then
    Some (map (fun e => snd (fst e)) (filter (fun e => list_eqb b (fst (fst e))) (fst rf)))
  else None.
(* None = no such object; Some None = the read must fail; Some (Some rs) = these records *)
Definition r_read (rf : rstate) (b k : list N) : option (option (list J)) :=
  match r_lookup rf b k with
  | None => None
  | Some (rs, c, junk) =>
      let kc := codec_id (writer_codec k) in
      if negb junk && ((kc =? 0) || (kc =? c)) then Some (Some rs) else Some None
  end.
Definition item_is_junk (i : ditem) : bool := match i with DIJunk _ _ => true | _ => false end.

Definition is_ok0 (o : J) : bool := match o with JL [t] => jtag_is "ok" t | _ => false end.
Definition is_err (o : J) (e : string) : bool :=
  match o with JL [t; x] => jtag_is "err" t && jtag_is e x | _ => false end.

Definition expected_seen (p : list N) : seen :=
  match parse (glob_to_regex p) with None => NoCall | Some _ => Seen (literal_prefix p) end.

(* one step: new model store, next record id, records so far, reference, (agree, prop) *)
Definition ops_step (ms : mstore) (next : nat) (recs : list J) (rf : rstate) (o : dop) (out : J)
  : option (mstore * nat * list J * rstate * (bool * bool)) :=
  match o with
  | DW b k rs =>
      let n := List.length rs in
      let ms' := ms_write toy_ser toy_enc ms b k (seq next n) in
      let good := match out with
                  | JL [t; JI z] => jtag_is "ok" t && (z =? Z.of_nat n)
                  | _ => false
                  end in
      Some (ms', (next + n)%nat, recs ++ rs, r_set rf b k (rs, codec_id (writer_codec k), false), (good, good))
  | DRaw b k c items =>
      match raw_text items next, codec_of_id c with
      | Some (text, rs), Some oc =>
          let stored := match oc with Some cd => toy_enc cd text | None => text end in
          let good := is_ok0 out in
          Some (ms_put ms b k stored, (next + List.length rs)%nat, recs ++ rs,
                r_set rf b k (rs, c, existsb item_is_junk items), (good, good))
      | _, _ => None
      end
  | DDel b k =>
      let good := is_ok0 out in
      Some (ms_delete ms b k, next, recs, r_remove rf b k, (good, good))
  | DCp sb sk db dk =>
      let p := match r_lookup rf sb sk with
               | Some _ => is_ok0 out
               | None => is_err out "NotFound"
               end in
      let rf' := match r_lookup rf sb sk with Some c => r_set rf db dk c | None => rf end in
      match ms_copy ms sb sk db dk with
      | Ok ms' => Some (ms', next, recs, rf', (is_ok0 out, p))
      | Err _ => Some (ms, next, recs, rf', (is_err out "NotFound", p))
      end
  | DEx b k =>
      match out with
      | JL [t; JB x] =>
          if jtag_is "ok" t then
            Some (ms, next, recs, rf,
                  (Bool.eqb x (ms_exists ms b k),
                   Bool.eqb x (match r_lookup rf b k with Some _ => true | None => false end)))
          else None
      | _ => None
      end
  | DR b k =>
      let model := ms_read toy_de2 toy_dec ms b k in
      match out with
      | JL [t; JI sig; JL back] =>
          if jtag_is "ok" t then
            let a := match model, ms_get ms b k with
                     | Ok ids, Some stored =>
                         jl_eqb back (map (fun i => nth i recs JN) ids) &&
                         (sig =? codec_id (magic_codec stored))
                     | _, _ => false
                     end in
            let p := match r_read rf b k with
                     | Some (Some rs) => jl_eqb back rs
                     | _ => false
                     end in
            Some (ms, next, recs, rf, (a, p))
          else None
      | JL [t; e] =>
          if jtag_is "err" t then
            match dec_err e with
            | Some ek =>
                let a := match model with Err m => errkind_eqb m ek | Ok _ => false end in
                let p := match r_read rf b k with
                         | Some (Some _) => false
                         | Some None => errkind_eqb ek InternalError
                         | None => errkind_eqb ek NotFound
                         end in
                Some (ms, next, recs, rf, (a, p))
            | None => None
            end
          else None
      | _ => None
      end
  | DX b p =>
      match out with
      | JL [j1; j2; js] =>
          match dec_keys_outcome j1, dec_keys_outcome j2, dec_seen js with
          | Some o1, Some o2, Some sn =>
              let a := kout_eqb o1 (ms_expand ms b p) && kout_eqb o2 (ms_expand_required ms b p) &&
                       seen_eqb sn (expected_seen p) in
              let rb := r_bucket rf b in
              let pr := prop_expand rb p o1 && prop_required o1 o2 &&
                        prop_prefix (match rb with Some ks => ks | None => [] end) p sn in
              Some (ms, next, recs, rf, (a, pr))
          | _, _, _ => None
          end
      | _ => None
      end
  | DG b p =>
      let model := ms_read_glob toy_de2 toy_dec ms b p in
      let rb := r_bucket rf b in
      match out with
      | JL [t; JL back] =>
          if jtag_is "ok" t then
            let a := match model with
                     | Ok ids => jl_eqb back (map (fun i => nth i recs JN) ids)
                     | Err _ => false
                     end in
            let pr := match rb with
                      | None => false
                      | Some ks =>
                          let ms_ := expand_ref ks p in
                          forallb (fun k => match r_read rf b k with
                                            | Some (Some _) => true | _ => false end) ms_ &&
                          jl_eqb back (flat_map (fun k => match r_read rf b k with
                                                          | Some (Some rs) => rs
                                                          | _ => []
                                                          end) ms_)
                      end in
            Some (ms, next, recs, rf, (a, pr))
          else None
      | JL [t; e] =>
          if jtag_is "err" t then
            match dec_err e with
            | Some ek =>
                let a := match model with Err m => errkind_eqb m ek | Ok _ => false end in
                let pr := match rb with
                          | None => errkind_eqb ek NotFound
                          | Some ks =>
                              (* an error only when some matching object cannot be read *)
                              errkind_eqb ek InternalError &&
                              negb (forallb (fun k => match r_read rf b k with
                                                      | Some (Some _) => true | _ => false end)
                                            (expand_ref ks p))
                          end in
                Some (ms, next, recs, rf, (a, pr))
            | None => None
            end
          else None
      | _ => None
      end
  end.

Fixpoint ops_run (ops : list dop) (outs : list J) (ms : mstore) (next : nat) (recs : list J)
         (rf : rstate) (a p : bool) : verdict :=
  match ops, outs with
  | [], [] => ok_verdict a p
  | o :: ops', out :: outs' =>
      match ops_step ms next recs rf o out with
      | Some (ms', next', recs', rf', (a1, p1)) =>
          ops_run ops' outs' ms' next' recs' rf' (a && a1) (p && p1)
      | None => malformed
      end
  | _, _ => malformed
  end.

Definition check_ops (input output : J) : verdict :=
  match input, output with
  | JL [JL jops], JL outs =>
      match omap dec_op jops with
      | Some ops => ops_run ops outs [] O [] ([], []) true true
      | None => malformed
      end
  | _, _ => malformed
  end.

(* ================================================================================== *)
(* many objects in one bucket (kind many): keys by formula, compact digests            *)
(* ================================================================================== *)
Fixpoint digits_fuel (fuel : nat) (n : N) (acc : list N) : list N :=
  match fuel with
  | O => acc
  | S f => let acc' := (48 + N.modulo n 10)%N :: acc in
           if (n <? 10)%N then acc' else digits_fuel f (N.div n 10) acc'
  end.
Definition dec_digits (n : N) : list N := digits_fuel 25 n [].
Definition asc (s : string) : list N := map Z.to_N (string_bytes s).

(* decimal digits of i, i + 1, ... kept REVERSED so that the successor is a carry chain *)
Fixpoint incr_rd (rd : list N) : list N :=
  match rd with
  | [] => [49%N]
  | d :: r => if N.eqb d 57 then 48%N :: incr_rd r else (d + 1)%N :: r
  end.
Definition cyc (m k : N) : N := if N.eqb (m + 1) k then 0%N else (m + 1)%N.

(* key of object i (harness: many_key) from its decimal digits, i mod 7 and i mod 5 *)
Definition many_key_of (style : Z) (ds : list N) (m7 m5 : N) : list N :=
  if style =? 0 then asc "part-" ++ ds
  else if style =? 1 then
    asc "d" ++ [(48 + m7)%N] ++ asc "/part-" ++ repeat 48%N (5 - List.length ds) ++ ds ++ asc ".jsonl"
  else if style =? 2 then ds
  else asc "k" ++ ds ++ nth (N.to_nat m5) [[]; asc ".gz"; asc ".zst"; asc ".bz2"; asc ".xz"] [].

(* objects i, i+1, ... (fuel of them): key and the records 4i .. 4i + (i mod 3) - 1 *)
Fixpoint many_objs (fuel : nat) (style : Z) (i : N) (rd : list N) (m7 m5 m3 : N)
  : list (list N * list N) :=
  match fuel with
  | O => []
  | S f =>
      let recs := if N.eqb m3 0 then [] else if N.eqb m3 1 then [(4 * i)%N]
                  else [(4 * i)%N; (4 * i + 1)%N] in
      (many_key_of style (rev rd) m7 m5, recs) ::
      many_objs f style (N.succ i) (incr_rd rd) (cyc m7 7) (cyc m5 5) (cyc m3 3)
  end.
Definition many_table (style n : Z) : list (list N * list N) :=
  many_objs (Z.to_nat n) style 0%N [48%N] 0%N 0%N 0%N.

(* sum_j (j+1) * c_j  mod P  and  sum_idx (idx+1) * v_idx  mod P (the harness reduces after
   every step, which gives the same residue) *)
Definition digest_p : N := 1000000007.
Definition key_hash (k : list N) : N :=
  N.modulo (fst (fold_left (fun (a : N * N) c => ((fst a + snd a * c), (snd a + 1))%N) k (0, 1)%N))
           digest_p.
Definition digest (vals : list N) : N :=
  N.modulo (fst (fold_left (fun (a : N * N) v => ((fst a + snd a * v), (snd a + 1))%N) vals (0, 1)%N))
           digest_p.

(* decimal serialisation of a record that is a natural number *)
Definition dser (v : N) : list N := dec_digits v.
Definition dde (l : list N) : option N :=
  match l with
  | [] => None
  | _ :: _ =>
      fold_left (fun (a : option N) c =>
                   match a with
                   | Some x => if (48 <=? c)%N && (c <=? 57)%N then Some (x * 10 + (c - 48))%N else None
                   | None => None
                   end) l (Some 0%N)
  end.
Definition check_many (input output : J) : verdict :=
  match input with
  | JL [JI mode; JI style; JI n; jp] =>
      match jstr jp with
      | Some p =>
          let table := many_table style n in
          let keys := map fst table in
          if mode =? 0 then
            match output with
            | JL [jo; js] =>
                match dec_seen js with
                | Some sn =>
                    match jo with
                    | JL [t; JI cnt; JI dg] =>
                        if jtag_is "ok" t then
                          let ref := msort_keys (filter (glob_match p) keys) in
                          let fits (ks : list (list N)) :=
                            (cnt =? Z.of_nat (List.length ks)) &&
                            (dg =? Z.of_N (digest (map key_hash ks))) in
                          match expand_fast (Some keys) p with
                          | Ok ks =>
                              let f := fits ks in
                              ok_verdict (f && seen_eqb sn (expected_seen p))
                                         ((if keys_eqb ks ref then f else fits ref) &&
                                          (0 <? n) && prop_prefix keys p sn)
                          | Err _ => ok_verdict false (fits ref && (0 <? n) && prop_prefix keys p sn)
                          end
                        else malformed
                    | JL [t; e] =>
                        if jtag_is "err" t then
                          match dec_err e with
                          | Some ek =>
                              (* with n = 0 nothing was put: the bucket does not exist *)
                              let nf := (n =? 0) && errkind_eqb ek NotFound in
                              ok_verdict nf nf
                          | None => malformed
                          end
                        else malformed
                    | _ => malformed
                    end
                | None => malformed
                end
            | _ => malformed
            end
          else
            (* object i holds its records, written through write_cloud_jsonl_vec *)
            let st := fold_left (fun st o => cloud_write dser toy_enc st (fst o) (snd o)) table [] in
            let model := match expand_fast (bucket_of st) p with
                         | Err e => Err e
                         | Ok ks => read_all dde toy_dec st ks
                         end in
            let ref := flat_map (fun k => match find (fun e => list_eqb k (fst e)) table with
                                          | Some e => snd e
                                          | None => []
                                          end)
                                (msort_keys (filter (glob_match p) keys)) in
            match output with
            | JL [t; JI cnt; JI dg] =>
                if jtag_is "ok" t then
                  let fits (vs : list N) :=
                    (cnt =? Z.of_nat (List.length vs)) && (dg =? Z.of_N (digest vs)) in
                  ok_verdict (match model with Ok vs => fits vs | Err _ => false end)
                             ((0 <? n) && fits ref)
                else malformed
            | JL [t; e] =>
                if jtag_is "err" t then
                  match dec_err e with
                  | Some ek => let nf := (n =? 0) && errkind_eqb ek NotFound in ok_verdict nf nf
                  | None => malformed
                  end
                else malformed
            | _ => malformed
            end
      | None => malformed
      end
  | _ => malformed
  end.

(* ================================================================================== *)
(* wide payloads (kind wide): expected summary by arithmetic                           *)
(* ================================================================================== *)
Definition check_wide (input output : J) : verdict :=
  match input, output with
  | JL [jk; JI n; JI w; JI mode],
    JL [t; JI nw; JI nb; JI sum; JB consec; JI total; JB same; JI firsts; JI sig] =>
      match jstr jk with
      | Some key =>
          if jtag_is "ok" t then
            let r := n mod 26 in
            let exp_firsts := if w =? 0 then 0 else 97 * n + 325 * (n / 26) + r * (r - 1) / 2 in
            let prop := (0 <=? n) && (0 <=? w) && (nw =? n) && (nb =? n) &&
                        (sum =? n * (n - 1) / 2) && consec && (total =? n * w) && same &&
                        ((mode =? 1) || (firsts =? exp_firsts)) in
            ok_verdict (prop && (sig =? codec_id (writer_codec key))) prop
          else malformed
      | None => malformed
      end
  | JL [jk; JI n; JI w; JI mode], JL [t; _] =>
      if jtag_is "err" t then ok_verdict false false else malformed
  | _, _ => malformed
  end.

Definition check_C19 (kind : string) (input output : J) : verdict :=
  if String.eqb kind "expand" then
    (* in = [bucket_exists, keys, pattern]; out = [expand, expand_required, prefix seen] *)
    (* optional 4th / 5th component: the keys stored with a ZERO-LENGTH body (put directly /
       written through write_cloud_jsonl_vec with no record); expansion is by KEY, so the model
       and the reference ignore object sizes -- they only have to be sub-lists of `keys` *)
    let '(input, sized_ok) :=
      match input with
      | JL [a; jk; c; je; jw] =>
          (JL [a; jk; c],
           match jstrs jk, jstrs je, jstrs jw with
           | Some keys, Some e, Some w =>
               forallb (fun k => mem_key k keys) e && forallb (fun k => mem_key k keys) w
           | _, _, _ => false
           end)
      | _ => (input, true)
      end in
    if negb sized_ok then malformed else
    match input, output with
    | JL [JB ex; jk; jp], JL [j1; j2; js] =>
        match jstrs jk, jstr jp, dec_keys_outcome j1, dec_keys_outcome j2, dec_seen js with
        | Some keys, Some p, Some o1, Some o2, Some sn =>
            if nodup_keys keys then
              let bucket := match keys with [] => if ex then Some [] else None
                                       | _ :: _ => Some keys end in
              check_expand bucket keys p o1 o2 (Some sn)
            else malformed
        | _, _, _, _, _ => malformed
        end
    | _, _ => malformed
    end
  else if String.eqb kind "sweep" then
    (* in = [pattern, alphabet, maxlen]; the bucket holds every string over the alphabet of
       length <= maxlen; out = [expand outcome with keys as code point arrays] *)
    match input, output with
    | JL [jp; ja; JI maxlen], JL [j1] =>
        match jstr jp, jstr ja, dec_keys_outcome j1 with
        | Some p, Some alpha, Some o1 =>
            let keys := all_seqs alpha (Z.to_nat maxlen) in
            check_expand (Some keys) keys p o1 (expand_required (Some keys) p) None
        | _, _, _ => malformed
        end
    | _, _ => malformed
    end
  else if String.eqb kind "roundtrip" then
    (* in = [key, records]; out = ["ok", n, signature id of the stored bytes, records read
       back, plain payload of the same records] | ["err", stage] *)
    match input with
    | JL [jk; JL recs] =>
        match jstr jk with
        | Some key =>
            match output with
            | JL [t; JI n; JI sig; JL back; jplain] =>
                match jrawbytes jplain with
                | Some plain =>
                    if jtag_is "ok" t then
                      let ids := seq 0 (List.length recs) in
                      let st := cloud_write toy_ser toy_enc [] key ids in
                      let model_read :=
                        match cloud_read toy_de toy_dec st key with
                        | Ok l => Nat.eqb (List.length l) (List.length recs) &&
                                  forallb (fun p => Nat.eqb (fst p) (snd p)) (combine l ids)
                        | Err _ => false
                        end in
                      (* the model run on the REAL serialised lines (record = its line) *)
                      let ls := split_lines [] plain in
                      let st2 := cloud_write (fun l => l) toy_enc [] key ls in
                      let model_read2 :=
                        match cloud_read (fun l => Some l) toy_dec st2 key with
                        | Ok l => keys_eqb l ls
                        | Err _ => false
                        end in
                      let agree := (n =? Z.of_nat (List.length recs)) &&
                                   (sig =? codec_id (writer_codec key)) &&
                                   (codec_id (reader_ext_codec key) =? codec_id (writer_codec key)) &&
                                   model_read && model_read2 &&
                                   payload_ok (List.length recs) plain &&
                                   jl_eqb back recs in
                      let prop := (n =? Z.of_nat (List.length recs)) && jl_eqb back recs in
                      ok_verdict agree prop
                    else malformed
                | None => malformed
                end
            | JL [t; _] => if jtag_is "err" t then ok_verdict false false else malformed
            | _ => malformed
            end
        | None => malformed
        end
    | _ => malformed
    end
  else if String.eqb kind "readglob" then
    (* in = [[[key, records], ...], pattern]; out = ["ok", records] | ["err", class] *)
    match input with
    | JL [JL jobjs; jp] =>
        match dec_objs jobjs, jstr jp with
        | Some objs, Some p =>
            let nobjs := number_objs 0 objs in
            let recs := all_records objs in
            let st := build_store nobjs in
            let model := read_glob toy_de toy_dec st p in
            let keys := distinct_keys (map fst objs) in
            let ref := flat_map (fun k => last_write objs k []) (expand_ref keys p) in
            match output with
            | JL [t; JL back] =>
                if jtag_is "ok" t then
                  let agree := match model with
                               | Ok ids => jl_eqb back (map (fun i => nth i recs JN) ids)
                               | Err _ => false
                               end in
                  let prop := match objs with [] => false | _ :: _ => jl_eqb back ref end in
                  ok_verdict agree prop
                else malformed
            | JL [t; e] =>
                if jtag_is "err" t then
                  match dec_err e with
                  | Some ek =>
                      let agree := match model with Err m => errkind_eqb m ek | Ok _ => false end in
                      let prop := match objs, ek with [], NotFound => true | _, _ => false end in
                      ok_verdict agree prop
                  | None => malformed
                  end
                else malformed
            | _ => malformed
            end
        | _, _ => malformed
        end
    | _ => malformed
    end
  else if String.eqb kind "big" then
    (* in = [key, n]: records [i, "row"] for i < n written in one call and read back;
       out = ["ok", n written, n read, first id, last id, sum of ids, ids consecutive from 0,
              every payload equal, signature id] | ["err", stage].  Expected summary by
       arithmetic (the round-trip theorem covers every n). *)
    match input, output with
    | JL [jk; JI n], JL [t; JI nw; JI nb; JI fst_id; JI lst_id; JI sum; JB consec; JB pay; JI sig] =>
        match jstr jk with
        | Some key =>
            if jtag_is "ok" t then
              let prop := (0 <=? n) && (nw =? n) && (nb =? n) &&
                          (fst_id =? (if n =? 0 then -1 else 0)) && (lst_id =? n - 1) &&
                          (sum =? n * (n - 1) / 2) && consec && pay in
              ok_verdict (prop && (sig =? codec_id (writer_codec key))) prop
            else malformed
        | None => malformed
        end
    | JL [jk; JI n], JL [t; _] =>
        if jtag_is "err" t then ok_verdict false false else malformed
    | _, _ => malformed
    end
  else if String.eqb kind "seq" then
    (* in = [[[key, records], ...] writes in this order, [keys to read afterwards]];
       out = one ["ok", signature id, records] | ["err", class] per key read *)
    match input, output with
    | JL [JL jobjs; jks], JL outs =>
        match dec_objs jobjs, jstrs jks with
        | Some objs, Some rkeys =>
            let nobjs := number_objs 0 objs in
            let recs := all_records objs in
            let st := build_store nobjs in
            let written := map fst objs in
            let one (k : list N) (o : J) : option (bool * bool) :=
              let model := cloud_read toy_de toy_dec st k in
              match o with
              | JL [t; JI sig; JL back] =>
                  if jtag_is "ok" t then
                    Some (match model with
                          | Ok ids => jl_eqb back (map (fun i => nth i recs JN) ids) &&
                                      (sig =? codec_id (writer_codec k))
                          | Err _ => false
                          end,
                          mem_key k written && jl_eqb back (last_write objs k []))
                  else None
              | JL [t; e] =>
                  if jtag_is "err" t then
                    match dec_err e with
                    | Some ek =>
                        Some (match model with Err m => errkind_eqb m ek | Ok _ => false end,
                              negb (mem_key k written) && errkind_eqb ek NotFound)
                    | None => None
                    end
                  else None
              | _ => None
              end in
            (fix go (ks : list (list N)) (os : list J) (a p : bool) : verdict :=
               match ks, os with
               | [], [] => ok_verdict a p
               | k :: ks', o :: os' =>
                   match one k o with
                   | Some (a1, p1) => go ks' os' (a && a1) (p && p1)
                   | None => malformed
                   end
               | _, _ => malformed
               end) rkeys outs true true
        | _, _ => malformed
        end
    | _, _ => malformed
    end
  else if String.eqb kind "ops" then check_ops input output
  else if String.eqb kind "many" then check_many input output
  else if String.eqb kind "wide" then check_wide input output
  else malformed.
