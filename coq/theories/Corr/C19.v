(* Correspondence for C19: runs the model of src/io/cloud/readers.rs (IO/CloudGlob.v, IO/Regex.v)
   on the cases the harness ran on the real code over FakeObjectIO, and decides agreement and
   the property instance inside Coq. *)
From Coq Require Import List ZArith NArith Bool String Ascii.
From IB Require Import Util.J IO.Regex IO.CloudGlob.
Import ListNotations.
Open Scope Z_scope.

(* ---------- decoding ---------- *)
Fixpoint utf8_dec (bs : list Z) : option (list N) :=
  match bs with
  | [] => Some []
  | b0 :: r0 =>
      if b0 <? 128 then ocons (Z.to_N b0) (utf8_dec r0)
      else if b0 <? 224 then
        match r0 with
        | b1 :: r1 => ocons (Z.to_N ((b0 - 192) * 64 + (b1 - 128))) (utf8_dec r1)
        | _ => None
        end
      else if b0 <? 240 then
        match r0 with
        | b1 :: b2 :: r2 =>
            ocons (Z.to_N ((b0 - 224) * 4096 + (b1 - 128) * 64 + (b2 - 128))) (utf8_dec r2)
        | _ => None
        end
      else
        match r0 with
        | b1 :: b2 :: b3 :: r3 =>
            ocons (Z.to_N ((b0 - 240) * 262144 + (b1 - 128) * 4096 + (b2 - 128) * 64 + (b3 - 128)))
                  (utf8_dec r3)
        | _ => None
        end
  end.

(* a string: JSON string (plain or as UTF-8 bytes) or an array of code points *)
Definition jstr (j : J) : option (list N) :=
  match j with
  | JS s => Some (map Z.to_N (string_bytes s))
  | JY b => utf8_dec b
  | JL l => match omap jint l with Some zs => Some (map Z.to_N zs) | None => None end
  | _ => None
  end.
Definition jstrs (j : J) : option (list (list N)) :=
  match j with JL l => omap jstr l | _ => None end.
Definition jrawbytes (j : J) : option (list N) :=
  match jbytes j with Some b => Some (map Z.to_N b) | None => None end.

Fixpoint zl_eqb (a b : list Z) : bool :=
  match a, b with
  | [], [] => true
  | x :: a', y :: b' => (x =? y) && zl_eqb a' b'
  | _, _ => false
  end.

(* structural equality of interchange values (the renderer is deterministic, so equal JSON
   values are rendered to equal terms) *)
Fixpoint jeqb (a b : J) : bool :=
  match a, b with
  | JI x, JI y => x =? y
  | JB x, JB y => Bool.eqb x y
  | JN, JN => true
  | JS x, JS y => String.eqb x y
  | JY x, JY y => zl_eqb x y
  | JL x, JL y =>
      (fix go (x y : list J) : bool :=
         match x, y with
         | [], [] => true
         | a :: x', b :: y' => jeqb a b && go x' y'
         | _, _ => false
         end) x y
  | _, _ => false
  end.
Fixpoint jl_eqb (x y : list J) : bool :=
  match x, y with
  | [], [] => true
  | a :: x', b :: y' => jeqb a b && jl_eqb x' y'
  | _, _ => false
  end.

Fixpoint keys_eqb (a b : list (list N)) : bool :=
  match a, b with
  | [], [] => true
  | x :: a', y :: b' => list_eqb x y && keys_eqb a' b'
  | _, _ => false
  end.

Definition oeqb (a b : option (list N)) : bool :=
  match a, b with
  | None, None => true
  | Some x, Some y => list_eqb x y
  | _, _ => false
  end.

(* observed outcome ["ok", keys] / ["err", class] *)
Definition dec_err (j : J) : option errkind :=
  if jtag_is "InvalidInput" j then Some InvalidInput
  else if jtag_is "NotFound" j then Some NotFound
  else if jtag_is "InternalError" j then Some InternalError
  else None.
Definition dec_keys_outcome (j : J) : option (outcome (list (list N))) :=
  match j with
  | JL [t; v] =>
      if jtag_is "ok" t then match jstrs v with Some ks => Some (Ok ks) | None => None end
      else if jtag_is "err" t then match dec_err v with Some e => Some (Err e) | None => None end
      else None
  | _ => None
  end.
Definition errkind_eqb (a b : errkind) : bool :=
  match a, b with
  | InvalidInput, InvalidInput | NotFound, NotFound | InternalError, InternalError => true
  | _, _ => false
  end.
Definition kout_eqb (a b : outcome (list (list N))) : bool :=
  match a, b with
  | Ok x, Ok y => keys_eqb x y
  | Err x, Err y => errkind_eqb x y
  | _, _ => false
  end.

(* prefix seen by the store: ["nocall"] | ["none"] | ["some", s] *)
Inductive seen := NoCall | Seen (p : option (list N)).
Definition dec_seen (j : J) : option seen :=
  match j with
  | JL [t] => if jtag_is "nocall" t then Some NoCall
              else if jtag_is "none" t then Some (Seen None) else None
  | JL [t; s] => if jtag_is "some" t then
                   match jstr s with Some p => Some (Seen (Some p)) | None => None end
                 else None
  | _ => None
  end.
Definition seen_eqb (a b : seen) : bool :=
  match a, b with
  | NoCall, NoCall => true
  | Seen x, Seen y => oeqb x y
  | _, _ => false
  end.

(* ---------- reference checks for the property instance (independent of the regex route and
   of sort_keys) ---------- *)
Definition key_ltb (a b : list N) : bool := key_leb a b && negb (list_eqb a b).
Fixpoint strictly_sorted (l : list (list N)) : bool :=
  match l with
  | a :: ((b :: _) as r) => key_ltb a b && strictly_sorted r
  | _ => true
  end.
Definition mem_key (k : list N) (l : list (list N)) : bool := existsb (list_eqb k) l.
Fixpoint nodup_keys (l : list (list N)) : bool :=
  match l with [] => true | k :: r => negb (mem_key k r) && nodup_keys r end.

(* obs is the sorted list of exactly the keys of `keys` that match p *)
Definition is_expansion (keys : list (list N)) (p : list N) (obs : list (list N)) : bool :=
  strictly_sorted obs &&
  forallb (fun k => mem_key k keys && glob_match p k) obs &&
  forallb (fun k => implb (glob_match p k) (mem_key k obs)) keys.

Definition prop_expand (bucket : option (list (list N))) (p : list N)
           (o1 : outcome (list (list N))) : bool :=
  match bucket, o1 with
  | Some keys, Ok ks => is_expansion keys p ks
  | None, Err NotFound => true
  | _, _ => false
  end.
Definition prop_required (o1 o2 : outcome (list (list N))) : bool :=
  match o1 with
  | Ok [] => kout_eqb o2 (Err NotFound)
  | _ => kout_eqb o2 o1
  end.
(* listing by the OBSERVED prefix hides no key that matches the documented syntax *)
Definition prop_prefix (keys : list (list N)) (p : list N) (s : seen) : bool :=
  match s with
  | NoCall => false
  | Seen pre => forallb (fun k => implb (glob_match p k) (prefix_ok pre k)) keys
  end.

(* canonical enumeration shared with harness/src/bin/c19.rs: all strings over `syms` of length
   0, 1, ..., maxlen; within one length the first character varies slowest *)
Fixpoint seqs_of_len {A} (syms : list A) (n : nat) : list (list A) :=
  match n with
  | O => [[]]
  | S n' => flat_map (fun s => map (cons s) (seqs_of_len syms n')) syms
  end.
Definition all_seqs {A} (syms : list A) (maxlen : nat) : list (list A) :=
  flat_map (seqs_of_len syms) (seq 0 (S maxlen)).

(* ---------- toy instance used to RUN the JSONL model: a record is its index, serialised as
   `[` 1^n `]`; a codec prepends its signature ---------- *)
Definition toy_ser (n : nat) : list N := (91 :: repeat 49 n ++ [93])%N.
Definition toy_de (l : list N) : option nat :=
  match l with
  | c :: r => if N.eqb c 91 then Some (pred (List.length r)) else None
  | [] => None
  end.
Definition magic_of (c : codec) : list N :=
  match c with Gzip => magic_gzip | Zstd => magic_zstd | Bzip2 => magic_bzip2 | Xz => magic_xz end.
Definition toy_enc (c : codec) (b : list N) : list N := magic_of c ++ b.
Fixpoint strip (pre s : list N) : option (list N) :=
  match pre, s with
  | [], _ => Some s
  | a :: pre', b :: s' => if N.eqb a b then strip pre' s' else None
  | _ :: _, [] => None
  end.
Definition toy_dec (c : codec) (b : list N) : option (list N) := strip (magic_of c) b.

Definition codec_id (o : option codec) : Z :=
  match o with None => 0 | Some Gzip => 1 | Some Zstd => 2 | Some Bzip2 => 3 | Some Xz => 4 end.

(* the real plain payload: n lines, each LF terminated, each satisfying line_ok, no signature *)
Fixpoint join_lines (ls : list (list N)) : list N :=
  match ls with [] => []%list | l :: r => (l ++ [10%N]) ++ join_lines r end.
Definition payload_ok (n : nat) (plain : list N) : bool :=
  let ls := split_lines [] plain in
  Nat.eqb (List.length ls) n && forallb line_ok ls && list_eqb (join_lines ls) plain &&
  match magic_codec plain with None => true | Some _ => false end.

(* objects = [[key, [records]], ...] written in this order; ids number the records globally *)
Fixpoint dec_objs (l : list J) : option (list (list N * list J)) :=
  match l with
  | [] => Some []
  | JL [k; JL rs] :: r =>
      match jstr k, dec_objs r with
      | Some k', Some r' => Some ((k', rs) :: r')
      | _, _ => None
      end
  | _ => None
  end.
Fixpoint number_objs (start : nat) (objs : list (list N * list J))
  : list (list N * list nat) :=
  match objs with
  | [] => []
  | (k, rs) :: r => (k, seq start (List.length rs)) :: number_objs (start + List.length rs) r
  end.
Definition build_store (objs : list (list N * list nat)) : store :=
  fold_left (fun st o => cloud_write toy_ser toy_enc st (fst o) (snd o)) objs [].
Definition all_records (objs : list (list N * list J)) : list J := flat_map snd objs.

(* last write to key k wins *)
Fixpoint last_write (objs : list (list N * list J)) (k : list N) (acc : list J) : list J :=
  match objs with
  | [] => acc
  | (k', rs) :: r => last_write r k (if list_eqb k k' then rs else acc)
  end.
Fixpoint distinct_keys (l : list (list N)) : list (list N) :=
  match l with
  | [] => []
  | k :: r => if mem_key k r then distinct_keys r else k :: distinct_keys r
  end.

Definition check_expand (bucket : option (list (list N))) (keys : list (list N)) (p : list N)
           (o1 o2 : outcome (list (list N))) (s : option seen) : verdict :=
  let m1 := expand bucket p in
  let m2 := expand_required bucket p in
  let agree := kout_eqb o1 m1 && kout_eqb o2 m2 &&
               match s with
               | Some sn => seen_eqb sn (match parse (glob_to_regex p) with
                                         | None => NoCall
                                         | Some _ => Seen (literal_prefix p)
                                         end)
               | None => true
               end in
  let prop := prop_expand bucket p o1 && prop_required o1 o2 &&
              match s with Some sn => prop_prefix keys p sn | None => true end in
  ok_verdict agree prop.

Definition check_C19 (kind : string) (input output : J) : verdict :=
  if String.eqb kind "expand" then
    (* in = [bucket_exists, keys, pattern]; out = [expand, expand_required, prefix seen] *)
    (* optional 4th / 5th component: the keys stored with a ZERO-LENGTH body (put directly /
       written through write_cloud_jsonl_vec with no record); expansion is by KEY, so the model
       and the reference ignore object sizes -- they only have to be sub-lists of `keys` *)
    let '(input, sized_ok) :=
      match input with
      | JL [a; jk; c; je; jw] =>
          (JL [a; jk; c],
           match jstrs jk, jstrs je, jstrs jw with
           | Some keys, Some e, Some w =>
               forallb (fun k => mem_key k keys) e && forallb (fun k => mem_key k keys) w
           | _, _, _ => false
           end)
      | _ => (input, true)
      end in
    if negb sized_ok then malformed else
    match input, output with
    | JL [JB ex; jk; jp], JL [j1; j2; js] =>
        match jstrs jk, jstr jp, dec_keys_outcome j1, dec_keys_outcome j2, dec_seen js with
        | Some keys, Some p, Some o1, Some o2, Some sn =>
            if nodup_keys keys then
              let bucket := match keys with [] => if ex then Some [] else None
                                       | _ :: _ => Some keys end in
              check_expand bucket keys p o1 o2 (Some sn)
            else malformed
        | _, _, _, _, _ => malformed
        end
    | _, _ => malformed
    end
  else if String.eqb kind "sweep" then
    (* in = [pattern, alphabet, maxlen]; the bucket holds every string over the alphabet of
       length <= maxlen; out = [expand outcome with keys as code point arrays] *)
    match input, output with
    | JL [jp; ja; JI maxlen], JL [j1] =>
        match jstr jp, jstr ja, dec_keys_outcome j1 with
        | Some p, Some alpha, Some o1 =>
            let keys := all_seqs alpha (Z.to_nat maxlen) in
            check_expand (Some keys) keys p o1 (expand_required (Some keys) p) None
        | _, _, _ => malformed
        end
    | _, _ => malformed
    end
  else if String.eqb kind "roundtrip" then
    (* in = [key, records]; out = ["ok", n, signature id of the stored bytes, records read
       back, plain payload of the same records] | ["err", stage] *)
    match input with
    | JL [jk; JL recs] =>
        match jstr jk with
        | Some key =>
            match output with
            | JL [t; JI n; JI sig; JL back; jplain] =>
                match jrawbytes jplain with
                | Some plain =>
                    if jtag_is "ok" t then
                      let ids := seq 0 (List.length recs) in
                      let st := cloud_write toy_ser toy_enc [] key ids in
                      let model_read :=
                        match cloud_read toy_de toy_dec st key with
                        | Ok l => Nat.eqb (List.length l) (List.length recs) &&
                                  forallb (fun p => Nat.eqb (fst p) (snd p)) (combine l ids)
                        | Err _ => false
                        end in
                      (* the model run on the REAL serialised lines (record = its line) *)
                      let ls := split_lines [] plain in
                      let st2 := cloud_write (fun l => l) toy_enc [] key ls in
                      let model_read2 :=
                        match cloud_read (fun l => Some l) toy_dec st2 key with
                        | Ok l => keys_eqb l ls
                        | Err _ => false
                        end in
                      let agree := (n =? Z.of_nat (List.length recs)) &&
                                   (sig =? codec_id (writer_codec key)) &&
                                   (codec_id (reader_ext_codec key) =? codec_id (writer_codec key)) &&
                                   model_read && model_read2 &&
                                   payload_ok (List.length recs) plain &&
                                   jl_eqb back recs in
                      let prop := (n =? Z.of_nat (List.length recs)) && jl_eqb back recs in
                      ok_verdict agree prop
                    else malformed
                | None => malformed
                end
            | JL [t; _] => if jtag_is "err" t then ok_verdict false false else malformed
            | _ => malformed
            end
        | None => malformed
        end
    | _ => malformed
    end
  else if String.eqb kind "readglob" then
    (* in = [[[key, records], ...], pattern]; out = ["ok", records] | ["err", class] *)
    match input with
    | JL [JL jobjs; jp] =>
        match dec_objs jobjs, jstr jp with
        | Some objs, Some p =>
            let nobjs := number_objs 0 objs in
            let recs := all_records objs in
            let st := build_store nobjs in
            let model := read_glob toy_de toy_dec st p in
            let keys := distinct_keys (map fst objs) in
            let ref := flat_map (fun k => last_write objs k []) (expand_ref keys p) in
            match output with
            | JL [t; JL back] =>
                if jtag_is "ok" t then
                  let agree := match model with
                               | Ok ids => jl_eqb back (map (fun i => nth i recs JN) ids)
                               | Err _ => false
                               end in
                  let prop := match objs with [] => false | _ :: _ => jl_eqb back ref end in
                  ok_verdict agree prop
                else malformed
            | JL [t; e] =>
                if jtag_is "err" t then
                  match dec_err e with
                  | Some ek =>
                      let agree := match model with Err m => errkind_eqb m ek | Ok _ => false end in
                      let prop := match objs, ek with [], NotFound => true | _, _ => false end in
                      ok_verdict agree prop
                  | None => malformed
                  end
                else malformed
            | _ => malformed
            end
        | _, _ => malformed
        end
    | _ => malformed
    end
  else if String.eqb kind "big" then
    (* in = [key, n]: records [i, "row"] for i < n written in one call and read back;
       out = ["ok", n written, n read, first id, last id, sum of ids, ids consecutive from 0,
              every payload equal, signature id] | ["err", stage].  Expected summary by
       arithmetic (the round-trip theorem covers every n). *)
    match input, output with
    | JL [jk; JI n], JL [t; JI nw; JI nb; JI fst_id; JI lst_id; JI sum; JB consec; JB pay; JI sig] =>
        match jstr jk with
        | Some key =>
            if jtag_is "ok" t then
              let prop := (0 <=? n) && (nw =? n) && (nb =? n) &&
                          (fst_id =? (if n =? 0 then -1 else 0)) && (lst_id =? n - 1) &&
                          (sum =? n * (n - 1) / 2) && consec && pay in
              ok_verdict (prop && (sig =? codec_id (writer_codec key))) prop
            else malformed
        | None => malformed
        end
    | JL [jk; JI n], JL [t; _] =>
        if jtag_is "err" t then ok_verdict false false else malformed
    | _, _ => malformed
    end
  else if String.eqb kind "seq" then
    (* in = [[[key, records], ...] writes in this order, [keys to read afterwards]];
       out = one ["ok", signature id, records] | ["err", class] per key read *)
    match input, output with
    | JL [JL jobjs; jks], JL outs =>
        match dec_objs jobjs, jstrs jks with
        | Some objs, Some rkeys =>
            let nobjs := number_objs 0 objs in
            let recs := all_records objs in
            let st := build_store nobjs in
            let written := map fst objs in
            let one (k : list N) (o : J) : option (bool * bool) :=
              let model := cloud_read toy_de toy_dec st k in
              match o with
              | JL [t; JI sig; JL back] =>
                  if jtag_is "ok" t then
                    Some (match model with
                          | Ok ids => jl_eqb back (map (fun i => nth i recs JN) ids) &&
                                      (sig =? codec_id (writer_codec k))
                          | Err _ => false
                          end,
                          mem_key k written && jl_eqb back (last_write objs k []))
                  else None
              | JL [t; e] =>
                  if jtag_is "err" t then
                    match dec_err e with
                    | Some ek =>
                        Some (match model with Err m => errkind_eqb m ek | Ok _ => false end,
                              negb (mem_key k written) && errkind_eqb ek NotFound)
                    | None => None
                    end
                  else None
              | _ => None
              end in
            (fix go (ks : list (list N)) (os : list J) (a p : bool) : verdict :=
               match ks, os with
               | [], [] => ok_verdict a p
               | k :: ks', o :: os' =>
                   match one k o with
                   | Some (a1, p1) => go ks' os' (a && a1) (p && p1)
                   | None => malformed
                   end
               | _, _ => malformed
               end) rkeys outs true true
        | _, _ => malformed
        end
    | _, _ => malformed
    end
  else malformed.
