(* Correspondence for C07 (joins return exactly the relational join of their two inputs).
   kind "prog": in = [src, steps, partitions_or_null], out = observed outcome.
   agree : observed = engine model (Canon.cmp_of: join output order is a HashMap's, so rows are compared as a multiset);
   prop  : against the independent list semantics: a program in which a join is fed by another
           join must be rejected with the "nested CoGroup" error; a program ending in a join
           returns, as a multiset, Denote.d_join of the denotations of its two sides (computed
           here explicitly); any other program returns Denote of the whole program in the comparison mode Canon.cmp_of.
   known : reorder class (not generated on purpose for this property). *)
From Coq Require Import List ZArith Bool String.
From IB Require Import Util.J Engine.Val Engine.Nodes Engine.Lang Engine.Denote Engine.Decode
     Engine.Canon.
Import ListNotations.

Definition join_prop (s : src) (steps : list step) (o : obs) : bool :=
  meets_ref s steps o &&
  match last_step steps, o with
  | Some (SJoin kind rs rd), OOk rows =>
      match ref_outcome s (but_last steps), ref_outcome (SrcVec TKV rd) rs with
      | OOk l, OOk r => rows_cmp (bag_mode steps) rows (d_join kind l r)
      | _, _ => false
      end
  | _, _ => true
  end.

Definition check_C07 (kind : string) (input output : J) : verdict :=
  if String.eqb kind "prog" then
    match dec_prog input, dec_obs output with
    | Some (s, steps, m), Some o =>
        V (agree_model m s steps o) (join_prop s steps o) (reorder_changes s steps) false
    | _, _ => malformed
    end
  else if String.eqb kind "bigprog" then
    (* big inputs: the observed rows are replaced by Canon.summary (count, key sums, extremes,
       number of integer leaves, hashes); agree against the model's summary, prop against the
       summary of the list interpretation *)
    match dec_prog input, dec_obs output with
    | Some (s, steps, m), Some o =>
        if big_ok steps then
          V (big_agree m s steps o) (big_meets_ref s steps o) (reorder_changes s steps) false
        else malformed
    | _, _ => malformed
    end
  else malformed.
