(* Correspondence for C06: runs the combiner models on the merge trees the harness ran through
   the real CombineFn / LiftableCombiner implementations and decides, inside Coq,
     agree : the observed finish output is the model's finish output on the same tree
     prop  : the observed output is the mathematical one, computed by an independent reference
             (length, sum, minimum, maximum, correctly rounded mean, sorted set of distinct values,
             k times "take the largest remaining value").
   Outcome encoding (harness/src/bin/c06.rs): integer outputs JI z; Min/Max: JI z or JN when
   finish panicked; AverageF64: JF f (hex float, exact bits); DistinctSet: JL of ints SORTED by
   the harness (HashSet order is arbitrary); TopK: JL of ints in the order returned.

   AverageF64 and floats (documented choice): the model is exact (Q).  The observed f64 is
   converted exactly to a rational (Prim2SF) and `agree` demands that it is a double NEAREST to
   the model's rational mean (no neighbouring double is closer).  All generated values are
   num/den with den a power of two and |sum| < 2^53, so the Rust sums are exact and the only
   rounding is the final IEEE division, which is correctly rounded.  `prop` compares bit-for-bit
   with PrimFloat's own IEEE division of the exactly converted reference sum and count. *)
From Coq Require Import String.
From Coq Require Import List ZArith QArith Qabs Bool Floats Uint63.
From IB Require Import Util.J Combiners.Lawful Combiners.Basic Combiners.TopK Combiners.Distinct.
Import ListNotations.
Open Scope Z_scope.

(* ------------------------------------------------------------------ enumeration (shared with
   the harness): all ordered splits of l into exactly p parts, empty parts included; the length
   of the first part varies slowest, from 0 up *)
Fixpoint splits (p : nat) (l : list Z) : list (list (list Z)) :=
  match p with
  | O => []
  | S p' =>
      match p' with
      | O => [[l]]
      | S _ => flat_map (fun i => map (cons (firstn i l)) (splits p' (skipn i l)))
                        (seq 0 (S (length l)))
      end
  end.

(* leaf modes: 0 = every part accumulated by add_input, 1 = every part by build_from_group,
   2 = parts with even index by build_from_group, odd by add_input *)
Definition lifted_of (mode : nat) (i : nat) : bool :=
  match mode with O => false | S O => true | _ => Nat.even i end.
Definition leaves (mode : nat) (parts : list (list Z)) : list (mtree Z) :=
  map (fun ip => MLeaf (lifted_of mode (fst ip)) (snd ip)) (combine (seq 0 (length parts)) parts).
Definition nest (right : bool) (ls : list (mtree Z)) : mtree Z :=
  match ls with
  | [] => MLeaf false []
  | t :: r => if right then right_nested t r else left_nested t r
  end.
(* canonical order: parts count 1..maxparts, then split, then mode 0,1,2, then left, right *)
Definition all_trees (maxparts : nat) (l : list Z) : list (mtree Z) :=
  flat_map (fun p =>
    flat_map (fun parts =>
      flat_map (fun mode => [nest false (leaves mode parts); nest true (leaves mode parts)])
               [0; 1; 2]%nat)
      (splits p l))
    (seq 1 maxparts).

(* ------------------------------------------------------------------ floats <-> rationals *)
Definition float_of_Z (z : Z) : float :=
  if z <? 0 then PrimFloat.opp (PrimFloat.of_uint63 (Uint63.of_Z (- z)))
  else PrimFloat.of_uint63 (Uint63.of_Z z).
Definition float_to_Q (f : float) : option Q :=
  match Prim2SF f with
  | S754_zero _ => Some (0#1)%Q
  | S754_finite s m e =>
      let mz := if s then Z.neg m else Z.pos m in
      Some (if 0 <=? e then inject_Z (mz * 2 ^ e) else Qmake mz (Z.to_pos (2 ^ (- e))))
  | _ => None
  end.
Definition Qdist (a b : Q) : Q := Qabs (a - b).
(* f is a double nearest to q *)
Definition nearest_double (f : float) (q : Q) : bool :=
  match float_to_Q f with
  | None => false
  | Some fq =>
      let closer g := match float_to_Q g with
                      | Some gq => negb (Qle_bool (Qdist fq q) (Qdist gq q))
                      | None => false
                      end in
      negb (closer (next_up f)) && negb (closer (next_down f))
  end.

(* ------------------------------------------------------------------ independent references *)
Definition ref_sum (l : list Z) : Z := fold_left Z.add l 0.
Definition ref_min (l : list Z) : option Z :=
  match l with [] => None | x :: r => Some (fold_left Z.min r x) end.
Definition ref_max (l : list Z) : option Z :=
  match l with [] => None | x :: r => Some (fold_left Z.max r x) end.
Fixpoint zinsert (x : Z) (l : list Z) : list Z :=
  match l with [] => [x] | y :: r => if x <=? y then x :: l else y :: zinsert x r end.
Definition zsort (l : list Z) : list Z := fold_right zinsert [] l.
Fixpoint dedup_sorted (l : list Z) : list Z :=
  match l with
  | [] => []
  | x :: r => match r with
              | [] => [x]
              | y :: _ => if x =? y then dedup_sorted r else x :: dedup_sorted r
              end
  end.
Definition ref_distinct (l : list Z) : list Z := dedup_sorted (zsort l).
(* k largest by selection: k times, take the largest remaining value and remove one copy *)
Fixpoint remove_one (x : Z) (l : list Z) : list Z :=
  match l with [] => [] | y :: r => if x =? y then r else y :: remove_one x r end.
Fixpoint ref_topk (k : nat) (l : list Z) : list Z :=
  match k with
  | O => []
  | S k' => match ref_max l with
            | None => []
            | Some x => x :: ref_topk k' (remove_one x l)
            end
  end.
Fixpoint zlist_eqb (a b : list Z) : bool :=
  match a, b with
  | [], [] => true
  | x :: a', y :: b' => (x =? y) && zlist_eqb a' b'
  | _, _ => false
  end.
Definition ozeqb (a b : option Z) : bool :=
  match a, b with
  | Some x, Some y => x =? y
  | None, None => true
  | _, _ => false
  end.

(* ------------------------------------------------------------------ outcomes *)
Definition dec_oz (j : J) : option (option Z) :=
  match j with JI z => Some (Some z) | JN => Some None | _ => None end.

(* combiner ids: 0 Count 1 Sum 2 Min 3 Max 4 AverageF64 5 DistinctCount 6 DistinctSet 7 TopK(k)
   8 KMVApproxDistinctCount::new(k) (expr cases only) *)
Definition q_of (den : Z) (v : Z) : Q := Qmake v (Z.to_pos den).

(* agree: model output on tree t vs observed outcome o *)
Definition map_tree {X Y} (f : X -> Y) : mtree X -> mtree Y :=
  fix go t := match t with
              | MLeaf b p => MLeaf b (map f p)
              | MNode l r => MNode (go l) (go r)
              end.

Definition agree_tree (cid : Z) (k : nat) (den : Z) (t : mtree Z) (o : J) : bool :=
  if cid =? 0 then
    match o with JI z => z =? c_finish (count_combiner Z) (meval (count_combiner Z) t)
    | _ => false end
  else if cid =? 1 then
    match o with JI z => z =? c_finish sum_combiner (meval sum_combiner t) | _ => false end
  else if cid =? 2 then
    match dec_oz o with
    | Some oz => ozeqb oz (c_finish min_combiner (meval min_combiner t)) | None => false end
  else if cid =? 3 then
    match dec_oz o with
    | Some oz => ozeqb oz (c_finish max_combiner (meval max_combiner t)) | None => false end
  else if cid =? 4 then
    match o with
    | JF f => nearest_double f
                (c_finish average_combiner (meval average_combiner (map_tree (q_of den) t)))
    | _ => false end
  else if cid =? 5 then
    match o with
    | JI z => z =? c_finish (distinct_count_combiner Z.eqb)
                            (meval (distinct_count_combiner Z.eqb) t)
    | _ => false end
  else if cid =? 6 then
    match jints o with
    | Some l => zlist_eqb l (zsort (c_finish (distinct_set_combiner Z.eqb)
                                             (meval (distinct_set_combiner Z.eqb) t)))
    | None => false end
  else if cid =? 7 then
    match jints o with
    | Some l => zlist_eqb l (c_finish (topk_combiner k) (meval (topk_combiner k) t))
    | None => false end
  else false.

(* prop: observed outcome o vs the mathematical reference on the multiset vs of all values *)
Definition prop_out (cid : Z) (k : nat) (den : Z) (vs : list Z) (o : J) : bool :=
  if cid =? 0 then match o with JI z => z =? Z.of_nat (length vs) | _ => false end
  else if cid =? 1 then match o with JI z => z =? ref_sum vs | _ => false end
  else if cid =? 2 then
    match dec_oz o with Some oz => ozeqb oz (ref_min vs) | None => false end
  else if cid =? 3 then
    match dec_oz o with Some oz => ozeqb oz (ref_max vs) | None => false end
  else if cid =? 4 then
    match o with
    | JF f =>
        match vs with
        | [] => PrimFloat.eqb f PrimFloat.zero
        | _ => PrimFloat.eqb f (PrimFloat.div (float_of_Z (ref_sum vs))
                                               (float_of_Z (den * Z.of_nat (length vs))))
        end
    | _ => false end
  else if cid =? 5 then
    match o with JI z => z =? Z.of_nat (length (ref_distinct vs)) | _ => false end
  else if cid =? 6 then
    match jints o with Some l => zlist_eqb l (ref_distinct vs) | None => false end
  else if cid =? 7 then
    match jints o with Some l => zlist_eqb l (ref_topk k vs) | None => false end
  else if cid =? 8 then
    (* mergeability observed on the implementation itself: same bits as the fold; and the exact
       count when there are fewer than max(k,4) distinct values *)
    match o with
    | JL [JF t; JF f] =>
        let d := Z.of_nat (length (ref_distinct vs)) in
        (PrimFloat.eqb t f || (PrimFloat.is_nan t && PrimFloat.is_nan f))
        && (if d <? Z.of_nat (Nat.max k 4) then PrimFloat.eqb t (float_of_Z d) else true)
    | _ => false end
  else false.

(* ------------------------------------------------------------------ run-length encoded rows
   a row is JL [JL [JI count; outcome]; ...]: `count` consecutive trees gave `outcome` *)
Fixpoint all_agree (cid : Z) (k : nat) (den : Z) (o : J) (n : nat) (ts : list (mtree Z))
  : option (bool * list (mtree Z)) :=
  match n with
  | O => Some (true, ts)
  | S n' => match ts with
            | [] => None
            | t :: r => match all_agree cid k den o n' r with
                        | Some (b, rest) => Some (agree_tree cid k den t o && b, rest)
                        | None => None
                        end
            end
  end.
(* Some (agree, prop) or None when the run lengths do not add up to the number of trees *)
Fixpoint judge_row (cid : Z) (k : nat) (den : Z) (vs : list Z) (runs : list J)
                   (ts : list (mtree Z)) : option (bool * bool) :=
  match runs with
  | [] => match ts with [] => Some (true, true) | _ => None end
  | JL [JI cnt; o] :: runs' =>
      if cnt <=? 0 then None else
      match all_agree cid k den o (Z.to_nat cnt) ts with
      | Some (a, rest) =>
          match judge_row cid k den vs runs' rest with
          | Some (a', p') => Some (a && a', prop_out cid k den vs o && p')
          | None => None
          end
      | None => None
      end
  | _ => None
  end.

(* the rows of one sweep case, in this order: combiner ids 0..6, then TopK with k = 0..n+1 *)
Definition sweep_configs (n : nat) : list (Z * nat) :=
  map (fun c => (c, O)) [0; 1; 2; 3; 4; 5; 6] ++ map (fun k => (7, k)) (seq 0 (n + 2)).

Fixpoint judge_rows (den : Z) (vs : list Z) (ts : list (mtree Z)) (cfgs : list (Z * nat))
                    (rows : list J) : option (bool * bool) :=
  match cfgs, rows with
  | [], [] => Some (true, true)
  | (cid, k) :: cfgs', JL runs :: rows' =>
      match judge_row cid k den vs runs ts, judge_rows den vs ts cfgs' rows' with
      | Some (a, p), Some (a', p') => Some (a && a', p && p')
      | _, _ => None
      end
  | _, _ => None
  end.

(* ------------------------------------------------------------------ accumulator expressions
   [0] create | [1, e, v] add_input | [2, l, r] merge | [3, vs] build_from_group
   | [4, vs] create followed by add_input of each value *)
Fixpoint dec_aexpr (fuel : nat) (j : J) : option (aexpr Z) :=
  match fuel with
  | O => None
  | S fuel' =>
      match j with
      | JL [JI 0] => Some ACreate
      | JL [JI 1; e; JI v] =>
          match dec_aexpr fuel' e with Some e' => Some (AAdd e' v) | None => None end
      | JL [JI 2; l; r] =>
          match dec_aexpr fuel' l, dec_aexpr fuel' r with
          | Some l', Some r' => Some (AMerge l' r') | _, _ => None end
      | JL [JI 3; vs] => match jints vs with Some l => Some (ABuild l) | None => None end
      | JL [JI 4; vs] =>
          match jints vs with
          | Some l => Some (fold_left AAdd l ACreate) | None => None end
      | _ => None
      end
  end.
Definition map_aexpr {X Y} (f : X -> Y) : aexpr X -> aexpr Y :=
  fix go e := match e with
              | ACreate => ACreate
              | AAdd e v => AAdd (go e) (f v)
              | AMerge l r => AMerge (go l) (go r)
              | ABuild vs => ABuild (map f vs)
              end.

Definition kmv_exact_count (k : nat) (e : aexpr Z) : option Z :=
  let c := kmv_combiner (fun v : Z => v)
             (fun m (_ : option Z) => if (m <? k)%nat then Some (Z.of_nat m) else None) k in
  c_finish c (aeval c e).

Definition agree_expr (cid : Z) (k : nat) (den : Z) (e : aexpr Z) (o : J) : bool :=
  if cid =? 0 then
    match o with JI z => z =? c_finish (count_combiner Z) (aeval (count_combiner Z) e)
    | _ => false end
  else if cid =? 1 then
    match o with JI z => z =? c_finish sum_combiner (aeval sum_combiner e) | _ => false end
  else if cid =? 2 then
    match dec_oz o with
    | Some oz => ozeqb oz (c_finish min_combiner (aeval min_combiner e)) | None => false end
  else if cid =? 3 then
    match dec_oz o with
    | Some oz => ozeqb oz (c_finish max_combiner (aeval max_combiner e)) | None => false end
  else if cid =? 4 then
    match o with
    | JF f => nearest_double f
                (c_finish average_combiner (aeval average_combiner (map_aexpr (q_of den) e)))
    | _ => false end
  else if cid =? 5 then
    match o with
    | JI z => z =? c_finish (distinct_count_combiner Z.eqb)
                            (aeval (distinct_count_combiner Z.eqb) e)
    | _ => false end
  else if cid =? 6 then
    match jints o with
    | Some l => zlist_eqb l (zsort (c_finish (distinct_set_combiner Z.eqb)
                                             (aeval (distinct_set_combiner Z.eqb) e)))
    | None => false end
  else if cid =? 7 then
    match jints o with
    | Some l => zlist_eqb l (c_finish (topk_combiner k) (aeval (topk_combiner k) e))
    | None => false end
  else if cid =? 8 then
    (* KMV: out = [finish of the expression, finish of the plain fold], both f64.  The hash-based
       rank and the estimator are C15's; what the C06 model predicts is the exact branch: with
       fewer than k (>= 4) distinct values the output is their number, whatever the ranks are
       (the model is run with the identity as rank function). *)
    match o with
    | JL [JF t; JF _] =>
        match kmv_exact_count (Nat.max k 4) e with
        | Some d => PrimFloat.eqb t (float_of_Z d)
        | None => true
        end
    | _ => false end
  else false.

Definition is_pow2 (d : Z) : bool := existsb (Z.eqb d) [1; 2; 4; 8; 16].

Definition check_C06 (kind : string) (input output : J) : verdict :=
  if String.eqb kind "sweep" then
    (* in = [values, maxparts, den]; out = one RLE row per configuration of sweep_configs *)
    match input, output with
    | JL [jvs; JI maxparts; JI den], JL rows =>
        match jints jvs with
        | Some vs =>
            if negb (is_pow2 den) || (maxparts <? 1) then malformed else
            let ts := all_trees (Z.to_nat maxparts) vs in
            match judge_rows den vs ts (sweep_configs (length vs)) rows with
            | Some (a, p) => ok_verdict a p
            | None => malformed
            end
        | None => malformed
        end
    | _, _ => malformed
    end
  else if String.eqb kind "expr" then
    (* in = [cid, k, den, expression]; out = the outcome of finish *)
    match input with
    | JL [JI cid; JI k; JI den; je] =>
        if negb (is_pow2 den) || (k <? 0) || (cid <? 0) || (8 <? cid) then malformed else
        match dec_aexpr 1000 je with
        | Some e =>
            ok_verdict (agree_expr cid (Z.to_nat k) den e output)
                       (prop_out cid (Z.to_nat k) den (avalues e) output)
        | None => malformed
        end
    | _ => malformed
    end
  else malformed.
