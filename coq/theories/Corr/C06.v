(* Correspondence for C06: runs the combiner models on the merge trees the harness ran through
   the real CombineFn / LiftableCombiner implementations and decides, inside Coq,
     agree : the observed finish output is the model's finish output on the same tree
     prop  : the observed output is the mathematical one, computed by an independent reference
             (length, sum, minimum, maximum, correctly rounded mean, sorted set of distinct values,
             k times "take the largest remaining value").
   Outcome encoding (harness/src/bin/c06.rs): integer outputs JI z; Min/Max: JI z or JN when
   finish panicked; AverageF64: JF f (hex float, exact bits); DistinctSet: JL of ints SORTED by
   the harness (HashSet order is arbitrary); TopK: JL of ints in the order returned.

   AverageF64 and floats (documented choice): the model is exact (Q).  The observed f64 is
   converted exactly to a rational (Prim2SF) and `agree` demands that it is a double NEAREST to
   the model's rational mean (no neighbouring double is closer).  All generated values are
   num/den with den a power of two and |sum| < 2^53, so the Rust sums are exact and the only
   rounding is the final IEEE division, which is correctly rounded.  `prop` compares bit-for-bit
   with PrimFloat's own IEEE division of the exactly converted reference sum and count. *)
From Coq Require Import String.
From Coq Require Import List ZArith QArith Qabs Qround Bool Floats Uint63.
From IB Require Import Util.J Combiners.Lawful Combiners.Basic Combiners.TopK Combiners.Distinct
  Combiners.Shapes Combiners.ExtReal Combiners.Checked.
Import ListNotations.
Open Scope Z_scope.

(* ------------------------------------------------------------------ enumeration (shared with
   the harness): all ordered splits of l into exactly p parts, empty parts included; the length
   of the first part varies slowest, from 0 up *)
Fixpoint splits (p : nat) (l : list Z) : list (list (list Z)) :=
  match p with
  | O => []
  | S p' =>
      match p' with
      | O => [[l]]
      | S _ => flat_map (fun i => map (cons (firstn i l)) (splits p' (skipn i l)))
                        (seq 0 (S (length l)))
      end
  end.

(* leaf modes: 0 = every part accumulated by add_input, 1 = every part by build_from_group,
   2 = parts with even index by build_from_group, odd by add_input *)
Definition lifted_of (mode : nat) (i : nat) : bool :=
  match mode with O => false | S O => true | _ => Nat.even i end.
Definition leaves (mode : nat) (parts : list (list Z)) : list (mtree Z) :=
  map (fun ip => MLeaf (lifted_of mode (fst ip)) (snd ip)) (combine (seq 0 (length parts)) parts).
Definition nest (right : bool) (ls : list (mtree Z)) : mtree Z :=
  match ls with
  | [] => MLeaf false []
  | t :: r => if right then right_nested t r else left_nested t r
  end.
(* canonical order: parts count 1..maxparts, then split, then mode 0,1,2, then left, right *)
Definition all_trees (maxparts : nat) (l : list Z) : list (mtree Z) :=
  flat_map (fun p =>
    flat_map (fun parts =>
      flat_map (fun mode => [nest false (leaves mode parts); nest true (leaves mode parts)])
               [0; 1; 2]%nat)
      (splits p l))
    (seq 1 maxparts).

(* ------------------------------------------------------------------ floats <-> rationals *)
Definition float_of_Z (z : Z) : float :=
  if z <? 0 then PrimFloat.opp (PrimFloat.of_uint63 (Uint63.of_Z (- z)))
  else PrimFloat.of_uint63 (Uint63.of_Z z).
Definition float_to_Q (f : float) : option Q :=
  match Prim2SF f with
  | S754_zero _ => Some (0#1)%Q
  | S754_finite s m e =>
      let mz := if s then Z.neg m else Z.pos m in
      Some (if 0 <=? e then inject_Z (mz * 2 ^ e) else Qmake mz (Z.to_pos (2 ^ (- e))))
  | _ => None
  end.
Definition Qdist (a b : Q) : Q := Qabs (a - b).
(* f is a double nearest to q *)
Definition nearest_double (f : float) (q : Q) : bool :=
  match float_to_Q f with
  | None => false
  | Some fq =>
      let closer g := match float_to_Q g with
                      | Some gq => negb (Qle_bool (Qdist fq q) (Qdist gq q))
                      | None => false
                      end in
      negb (closer (next_up f)) && negb (closer (next_down f))
  end.

(* ------------------------------------------------------------------ independent references *)
Definition ref_sum (l : list Z) : Z := fold_left Z.add l 0.
Definition ref_min (l : list Z) : option Z :=
  match l with [] => None | x :: r => Some (fold_left Z.min r x) end.
Definition ref_max (l : list Z) : option Z :=
  match l with [] => None | x :: r => Some (fold_left Z.max r x) end.
Fixpoint zinsert (x : Z) (l : list Z) : list Z :=
  match l with [] => [x] | y :: r => if x <=? y then x :: l else y :: zinsert x r end.
Definition zsort (l : list Z) : list Z := fold_right zinsert [] l.
Fixpoint dedup_sorted (l : list Z) : list Z :=
  match l with
  | [] => []
  | x :: r => match r with
              | [] => [x]
              | y :: _ => if x =? y then dedup_sorted r else x :: dedup_sorted r
              end
  end.
Definition ref_distinct (l : list Z) : list Z := dedup_sorted (zsort l).
(* k largest by selection: k times, take the largest remaining value and remove one copy *)
Fixpoint remove_one (x : Z) (l : list Z) : list Z :=
  match l with [] => [] | y :: r => if x =? y then r else y :: remove_one x r end.
Fixpoint ref_topk (k : nat) (l : list Z) : list Z :=
  match k with
  | O => []
  | S k' => match ref_max l with
            | None => []
            | Some x => x :: ref_topk k' (remove_one x l)
            end
  end.
Fixpoint zlist_eqb (a b : list Z) : bool :=
  match a, b with
  | [], [] => true
  | x :: a', y :: b' => (x =? y) && zlist_eqb a' b'
  | _, _ => false
  end.
Definition ozeqb (a b : option Z) : bool :=
  match a, b with
  | Some x, Some y => x =? y
  | None, None => true
  | _, _ => false
  end.

(* ------------------------------------------------------------------ outcomes *)
Definition jstr_is (o : J) (t : string) : bool :=
  match o with JS s => String.eqb s t | _ => false end.
Definition dec_oz (j : J) : option (option Z) :=
  match j with JI z => Some (Some z) | JN => Some None | _ => None end.

(* combiner ids: 0 Count 1 Sum 2 Min 3 Max 4 AverageF64 5 DistinctCount 6 DistinctSet 7 TopK(k)
   8 KMVApproxDistinctCount::new(k) (expr cases only) *)
Definition q_of (den : Z) (v : Z) : Q := Qmake v (Z.to_pos den).

(* agree: model output on tree t vs observed outcome o *)
(* map_tree, map_aexpr: Combiners/Shapes.v *)

Definition agree_tree (cid : Z) (k : nat) (den : Z) (t : mtree Z) (o : J) : bool :=
  if cid =? 0 then
    match o with JI z => z =? c_finish (count_combiner Z) (meval (count_combiner Z) t)
    | _ => false end
  else if cid =? 1 then
    match o with JI z => z =? c_finish sum_combiner (meval sum_combiner t) | _ => false end
  else if cid =? 2 then
    match dec_oz o with
    | Some oz => ozeqb oz (c_finish min_combiner (meval min_combiner t)) | None => false end
  else if cid =? 3 then
    match dec_oz o with
    | Some oz => ozeqb oz (c_finish max_combiner (meval max_combiner t)) | None => false end
  else if cid =? 4 then
    match o with
    | JF f => nearest_double f
                (c_finish average_combiner (meval average_combiner (map_tree (q_of den) t)))
    | _ => false end
  else if cid =? 5 then
    match o with
    | JI z => z =? c_finish (distinct_count_combiner Z.eqb)
                            (meval (distinct_count_combiner Z.eqb) t)
    | _ => false end
  else if cid =? 6 then
    match jints o with
    | Some l => zlist_eqb l (zsort (c_finish (distinct_set_combiner Z.eqb)
                                             (meval (distinct_set_combiner Z.eqb) t)))
    | None => false end
  else if cid =? 7 then
    match jints o with
    | Some l => zlist_eqb l (c_finish (topk_combiner k) (meval (topk_combiner k) t))
    | None => false end
  else false.

(* prop: observed outcome o vs the mathematical reference on the multiset vs of all values *)
Definition prop_out (cid : Z) (k : nat) (den : Z) (vs : list Z) (o : J) : bool :=
  if cid =? 0 then match o with JI z => z =? Z.of_nat (length vs) | _ => false end
  else if cid =? 1 then match o with JI z => z =? ref_sum vs | _ => false end
  else if cid =? 2 then
    match dec_oz o with Some oz => ozeqb oz (ref_min vs) | None => false end
  else if cid =? 3 then
    match dec_oz o with Some oz => ozeqb oz (ref_max vs) | None => false end
  else if cid =? 4 then
    match o with
    | JF f =>
        match vs with
        | [] => PrimFloat.eqb f PrimFloat.zero
        | _ => PrimFloat.eqb f (PrimFloat.div (float_of_Z (ref_sum vs))
                                               (float_of_Z (den * Z.of_nat (length vs))))
        end
    | _ => false end
  else if cid =? 5 then
    match o with JI z => z =? Z.of_nat (length (ref_distinct vs)) | _ => false end
  else if cid =? 6 then
    match jints o with Some l => zlist_eqb l (ref_distinct vs) | None => false end
  else if cid =? 7 then
    match jints o with Some l => zlist_eqb l (ref_topk k vs) | None => false end
  else if cid =? 8 then
    (* mergeability observed on the implementation itself: same bits as the fold; and the exact
       count when there are fewer than max(k,4) distinct values *)
    match o with
    | JL [JF t; JF f] =>
        let d := Z.of_nat (length (ref_distinct vs)) in
        (PrimFloat.eqb t f || (PrimFloat.is_nan t && PrimFloat.is_nan f))
        && (if d <? Z.of_nat (Nat.max k 4) then PrimFloat.eqb t (float_of_Z d) else true)
    | _ => false end
  else false.

(* ------------------------------------------------------------------ run-length encoded rows
   a row is JL [JL [JI count; outcome]; ...]: `count` consecutive trees gave `outcome` *)
Fixpoint all_agree (cid : Z) (k : nat) (den : Z) (o : J) (n : nat) (ts : list (mtree Z))
  : option (bool * list (mtree Z)) :=
  match n with
  | O => Some (true, ts)
  | S n' => match ts with
            | [] => None
            | t :: r => match all_agree cid k den o n' r with
                        | Some (b, rest) => Some (agree_tree cid k den t o && b, rest)
                        | None => None
                        end
            end
  end.
(* Some (agree, prop) or None when the run lengths do not add up to the number of trees *)
Fixpoint judge_row (cid : Z) (k : nat) (den : Z) (vs : list Z) (runs : list J)
                   (ts : list (mtree Z)) : option (bool * bool) :=
  match runs with
  | [] => match ts with [] => Some (true, true) | _ => None end
  | JL [JI cnt; o] :: runs' =>
      if cnt <=? 0 then None else
      match all_agree cid k den o (Z.to_nat cnt) ts with
      | Some (a, rest) =>
          match judge_row cid k den vs runs' rest with
          | Some (a', p') => Some (a && a', prop_out cid k den vs o && p')
          | None => None
          end
      | None => None
      end
  | _ => None
  end.

(* the rows of one sweep case, in this order: combiner ids 0..6, then TopK with k = 0..n+1 *)
Definition sweep_configs (n : nat) : list (Z * nat) :=
  map (fun c => (c, O)) [0; 1; 2; 3; 4; 5; 6] ++ map (fun k => (7, k)) (seq 0 (n + 2)).

Fixpoint judge_rows (den : Z) (vs : list Z) (ts : list (mtree Z)) (cfgs : list (Z * nat))
                    (rows : list J) : option (bool * bool) :=
  match cfgs, rows with
  | [], [] => Some (true, true)
  | (cid, k) :: cfgs', JL runs :: rows' =>
      match judge_row cid k den vs runs ts, judge_rows den vs ts cfgs' rows' with
      | Some (a, p), Some (a', p') => Some (a && a', p && p')
      | _, _ => None
      end
  | _, _ => None
  end.

(* ------------------------------------------------------------------ accumulator expressions
   [0] create | [1, e, v] add_input | [2, l, r] merge | [3, vs] build_from_group
   | [4, vs] create followed by add_input of each value
   | [5, g] build_from_group over generated values | [6, g] create + add_input of each generated
   value | [7, g, psize, mode, nest] the generated values in chunks of psize, merged along a
   left-nested / right-nested / balanced tree (Combiners/Shapes.v);
   g = [start, n, a, b, m, off] = gen_values start n a b m off *)
Definition gen_bound : Z := 2 ^ 40.
Definition dec_gen (j : J) : option (list Z) :=
  match j with
  | JL [JI start; JI n; JI a; JI b; JI m; JI off] =>
      if (n <? 0) || (200000 <? n) || (m <? 1) || (gen_bound <? m) || (start <? 0)
         || (gen_bound <? start) || (gen_bound <? Z.abs a) || (gen_bound <? Z.abs b)
         || (gen_bound <? Z.abs off)
      then None else Some (gen_values start (Z.to_nat n) a b m off)
  | _ => None
  end.
Fixpoint dec_aexpr (fuel : nat) (j : J) : option (aexpr Z) :=
  match fuel with
  | O => None
  | S fuel' =>
      match j with
      | JL [JI 0] => Some ACreate
      | JL [JI 1; e; JI v] =>
          match dec_aexpr fuel' e with Some e' => Some (AAdd e' v) | None => None end
      | JL [JI 2; l; r] =>
          match dec_aexpr fuel' l, dec_aexpr fuel' r with
          | Some l', Some r' => Some (AMerge l' r') | _, _ => None end
      | JL [JI 3; vs] => match jints vs with Some l => Some (ABuild l) | None => None end
      | JL [JI 4; vs] =>
          match jints vs with
          | Some l => Some (fold_left AAdd l ACreate) | None => None end
      | JL [JI 5; g] => match dec_gen g with Some l => Some (ABuild l) | None => None end
      | JL [JI 6; g] => match dec_gen g with Some l => Some (fold_expr l) | None => None end
      | JL [JI 7; g; JI psize; JI mode; JI nest] =>
          if (psize <? 1) || (mode <? 0) || (2 <? mode) || (nest <? 0) || (2 <? nest) then None
          else match dec_gen g with
               | Some l => Some (chunked (Z.to_nat mode) (Z.to_nat nest) (Z.to_nat psize) l)
               | None => None
               end
      | _ => None
      end
  end.

Definition kmv_exact_count (k : nat) (e : aexpr Z) : option Z :=
  let c := kmv_combiner (fun v : Z => v)
             (fun m (_ : option Z) => if (m <? k)%nat then Some (Z.of_nat m) else None) k in
  c_finish c (aeval c e).

Definition agree_expr (cid : Z) (k : nat) (den : Z) (e : aexpr Z) (o : J) : bool :=
  if cid =? 0 then
    match o with JI z => z =? c_finish (count_combiner Z) (aeval (count_combiner Z) e)
    | _ => false end
  else if cid =? 1 then
    match o with JI z => z =? c_finish sum_combiner (aeval sum_combiner e) | _ => false end
  else if cid =? 2 then
    match dec_oz o with
    | Some oz => ozeqb oz (c_finish min_combiner (aeval min_combiner e)) | None => false end
  else if cid =? 3 then
    match dec_oz o with
    | Some oz => ozeqb oz (c_finish max_combiner (aeval max_combiner e)) | None => false end
  else if cid =? 4 then
    match o with
    | JF f => nearest_double f
                (c_finish average_combiner (aeval average_combiner (map_aexpr (q_of den) e)))
    | _ => false end
  else if cid =? 5 then
    match o with
    | JI z => z =? c_finish (distinct_count_combiner Z.eqb)
                            (aeval (distinct_count_combiner Z.eqb) e)
    | _ => false end
  else if cid =? 6 then
    match jints o with
    | Some l => zlist_eqb l (zsort (c_finish (distinct_set_combiner Z.eqb)
                                             (aeval (distinct_set_combiner Z.eqb) e)))
    | None => false end
  else if cid =? 7 then
    match jints o with
    | Some l => zlist_eqb l (c_finish (topk_combiner k) (aeval (topk_combiner k) e))
    | None => false end
  else if cid =? 8 then
    (* KMV: out = [finish of the expression, finish of the plain fold], both f64.  The hash-based
       rank and the estimator are C15's; what the C06 model predicts is the exact branch: with
       fewer than k (>= 4) distinct values the output is their number, whatever the ranks are
       (the model is run with the identity as rank function). *)
    match o with
    | JL [JF t; JF _] =>
        match kmv_exact_count (Nat.max k 4) e with
        | Some d => PrimFloat.eqb t (float_of_Z d)
        | None => true
        end
    | _ => false end
  else false.


(* ------------------------------------------------------------------ big groups ("big")
   in = [cid, k, den, ty, expression]; out = [first, second]: the outcomes of evaluating the
   expression twice on the same combiner instance.  DistinctSet / TopK outputs arrive as a digest
   [length, polynomial hash]; the sorting needed by the judge is a merge sort (the insertion sorts
   above are quadratic), which also makes the reference independent of the TopK model's own
   insertion sort. *)
Fixpoint zmerge (a : list Z) : list Z -> list Z :=
  match a with
  | [] => fun b => b
  | x :: a' =>
      fix inner (b : list Z) : list Z :=
        match b with
        | [] => a
        | y :: b' => if x <=? y then x :: zmerge a' b else y :: inner b'
        end
  end.
Fixpoint msort_fuel (fuel : nat) (l : list Z) : list Z :=
  match fuel with
  | O => l
  | S f =>
      match l with
      | [] | [_] => l
      | _ => let h := Nat.div2 (length l) in
             zmerge (msort_fuel f (firstn h l)) (msort_fuel f (skipn h l))
      end
  end.
Definition msort (l : list Z) : list Z := msort_fuel 64 l.

Definition hash_p : Z := 2 ^ 61 - 1.
Definition zhash (l : list Z) : Z :=
  fold_left (fun h x => (h * 1000003 + x mod hash_p) mod hash_p) l 0.
Definition digest_is (o : J) (l : list Z) : bool :=
  match o with
  | JL [JI len; JI h] => (len =? Z.of_nat (length l)) && (h =? zhash l)
  | _ => false
  end.

Definition agree_big (cid : Z) (k : nat) (den : Z) (e : aexpr Z) (o : J) : bool :=
  if cid =? 6 then
    digest_is o (msort (c_finish (distinct_set_combiner Z.eqb)
                                 (aeval (distinct_set_combiner Z.eqb) e)))
  else if cid =? 7 then
    digest_is o (c_finish (topk_combiner k) (aeval (topk_combiner k) e))
  else agree_expr cid k den e o.

Definition prop_big (cid : Z) (k : nat) (den : Z) (vs : list Z) (o : J) : bool :=
  if cid =? 5 then
    match o with JI z => z =? Z.of_nat (length (dedup_sorted (msort vs))) | _ => false end
  else if cid =? 6 then digest_is o (dedup_sorted (msort vs))
  else if cid =? 7 then digest_is o (firstn k (rev_append (msort vs) []))
  else if cid =? 8 then
    match o with
    | JL [JF t; JF f] =>
        let d := Z.of_nat (length (dedup_sorted (msort vs))) in
        (PrimFloat.eqb t f || (PrimFloat.is_nan t && PrimFloat.is_nan f))
        && (if d <? Z.of_nat (Nat.max k 4) then PrimFloat.eqb t (float_of_Z d) else true)
    | _ => false end
  else prop_out cid k den vs o.

(* element types: 0 i64 / f64, 1 u64 (u32 for the mean), 2 i32: the values must be representable,
   sums must not overflow, and the f64 sums of the mean must be exact *)
(* conservative structural equality of outcomes (true => identical): lets the judge evaluate the
   model once when both runs returned the same thing *)
Fixpoint jeqb (a b : J) : bool :=
  match a, b with
  | JI x, JI y => x =? y
  | JN, JN => true
  | JS x, JS y => String.eqb x y
  | JF x, JF y => PrimFloat.eqb x y && negb (PrimFloat.eqb x PrimFloat.zero)
  | JL x, JL y =>
      (fix go (x y : list J) : bool :=
         match x, y with
         | [], [] => true
         | p :: x', q :: y' => jeqb p q && go x' y'
         | _, _ => false
         end) x y
  | _, _ => false
  end.

Definition sum_abs (vs : list Z) : Z := fold_left (fun s v => s + Z.abs v) vs 0.
Definition big_valid (cid den ty : Z) (vs : list Z) : bool :=
  let s := sum_abs vs in
  (s <? 2 ^ 62)
  && (if cid =? 4 then (s <? 2 ^ 53) && ((ty =? 0) || (den =? 1)) else true)
  && (if ty =? 0 then true
      else if ty =? 1 then forallb (fun v => (0 <=? v) && (if cid =? 4 then v <? 2 ^ 32 else true)) vs
      else if ty =? 2 then s <? 2 ^ 31
      else false)
  && (if cid =? 8 then ty =? 0 else true).

(* ------------------------------------------------------------------ bounded integer sums ("ovf")
   in = [ty, expression]; ty 0 i8, 1 u8, 2 i32, 3 u32: Sum<T> with the overflow-checked `+`
   (model: Combiners/Checked.v sum_checked_combiner, None = panic); ty 10..13: the same types inside
   std::num::Wrapping (sum_wrapping_combiner).  out = JI sum | JS "panic". *)
Definition ovf_range (ty : Z) : option (Z * Z) :=
  let t := if ty <? 10 then ty else ty - 10 in
  if t =? 0 then Some (-128, 127) else if t =? 1 then Some (0, 255)
  else if t =? 2 then Some (- 2 ^ 31, 2 ^ 31 - 1) else if t =? 3 then Some (0, 2 ^ 32 - 1)
  else None.
Definition check_ovf (ty : Z) (e : aexpr Z) (o : J) : verdict :=
  match ovf_range ty with
  | None => malformed
  | Some (lo, hi) =>
      let vs := avalues e in
      if negb (forallb (fun v => (lo <=? v) && (v <=? hi)) vs) || (ty <? 0) || (13 <? ty) then malformed
      else
        let s := ref_sum vs in
        if ty <? 10 then
          let agree := match c_finish (sum_checked_combiner lo hi) (aeval (sum_checked_combiner lo hi) e) with
                       | Some z => match o with JI z' => z' =? z | _ => false end
                       | None => jstr_is o "panic"
                       end in
          (* never a wrong number; and no panic at all when the totals fit (c06_sum_no_overflow) *)
          let exact := match o with JI z' => z' =? s | _ => false end in
          let fits := (lo <=? - fold_left (fun a v => a + Z.max (- v) 0) vs 0)
                      && (fold_left (fun a v => a + Z.max v 0) vs 0 <=? hi) in
          ok_verdict agree (if fits then exact else exact || jstr_is o "panic")
        else
          let md := hi - lo + 1 in
          let c := sum_wrapping_combiner lo md in
          let agree := match o with JI z' => z' =? c_finish c (aeval c e) | _ => false end in
          (* the representative of the exact sum modulo 2^bits in lo..hi *)
          let prop := match o with
                      | JI z' => (z' =? s - md * ((s - lo) / md)) && (lo <=? z') && (z' <=? hi)
                      | _ => false end in
          ok_verdict agree prop
  end.

(* ------------------------------------------------------------------ non-finite floats ("fsweep")
   The sum model is extended to the extended reals the way IEEE addition behaves on the generated
   inputs (finite values are small multiples of 1/2, so finite sums are exact and never overflow):
   NaN is absorbing, (+inf) + (-inf) = NaN, otherwise an infinity absorbs finite values; the count
   counts every sample.  The sign of a zero result is not modelled (Rust's `Iterator::sum::<f64>`
   starts from -0.0, `0.0 + x` from +0.0, so AverageF64's lifted and unlifted accumulators of a
   group of -0.0 values differ in the sign of zero only); zeros are compared by value.
   Min/Max over OrdF64 (f64::total_cmp) reuse the Z models through an order-preserving key.
   value codes: 100 NaN, 101 +inf, 102 -inf, 103 -0.0, otherwise c stands for the double c/2. *)
(* the extended-real models of Sum<f64> and AverageF64 are Combiners/ExtReal.v (xsum_combiner,
   xavg_combiner, theorems c06_nonfinite_sum and c06_nonfinite_average); finite values are counted in units of 1/2 *)
Definition code_xr (c : Z) : xr :=
  if c =? 100 then XNaN else if c =? 101 then XPInf else if c =? 102 then XNInf
  else if c =? 103 then XFin 0 else XFin c.
(* total_cmp order: -inf < negative < -0.0 < +0.0 < positive < +inf < NaN; strictly monotone *)
Definition code_key (c : Z) : Z :=
  if c =? 100 then 1001 else if c =? 101 then 1000 else if c =? 102 then -1000
  else if c =? 103 then -1 else 2 * c.

(* observed Sum<f64> outcome against an extended real: finite sums are exact *)
Definition xr_matches (x : xr) (o : J) : bool :=
  match x with
  | XNaN => jstr_is o "nan"
  | XPInf => jstr_is o "pinf"
  | XNInf => jstr_is o "ninf"
  | XFin z =>
      match o with
      | JF f => match float_to_Q f with Some fq => Qeq_bool fq (Qmake z 2) | None => false end
      | _ => false
      end
  end.
(* observed AverageF64 outcome: a finite mean is a double nearest to num/den (units of 1/2) *)
Definition xmean_matches (x : xmean) (o : J) : bool :=
  match x with
  | MNaN => jstr_is o "nan"
  | MPInf => jstr_is o "pinf"
  | MNInf => jstr_is o "ninf"
  | MFin num den =>
      match o with
      | JF f => (0 <? den) && nearest_double f (Qmake num (Z.to_pos (2 * den)))
      | _ => false
      end
  end.
(* observed Min/Max outcome as a key: Some None = finish panicked *)
Definition obs_key (o : J) : option (option Z) :=
  match o with
  | JN => Some None
  | JS s => if String.eqb s "nan" then Some (Some 1001)
            else if String.eqb s "pinf" then Some (Some 1000)
            else if String.eqb s "ninf" then Some (Some (-1000)) else None
  | JF f =>
      match Prim2SF f with
      | S754_zero true => Some (Some (-1))
      | S754_zero false => Some (Some 0)
      | _ => match float_to_Q f with
             | Some q => let z := Qfloor (q * 4) in
                         if Qeq_bool (inject_Z z) (q * 4) then Some (Some z) else None
             | None => None
             end
      end
  | _ => None
  end.

(* rows of an fsweep case: 0 AverageF64, 1 Sum<f64>, 2 Min<OrdF64>, 3 Max<OrdF64> *)
Definition f_agree (row : nat) (t : mtree Z) (o : J) : bool :=
  match row with
  | 0%nat => xmean_matches (c_finish xavg_combiner (meval xavg_combiner (map_tree code_xr t))) o
  | 1%nat => xr_matches (c_finish xsum_combiner (meval xsum_combiner (map_tree code_xr t))) o
  | 2%nat => match obs_key o with
             | Some ok => ozeqb ok (c_finish min_combiner (meval min_combiner (map_tree code_key t)))
             | None => false end
  | _ => match obs_key o with
         | Some ok => ozeqb ok (c_finish max_combiner (meval max_combiner (map_tree code_key t)))
         | None => false end
  end.

(* independent reference on the whole multiset of codes *)
Definition f_prop (row : nat) (codes : list Z) (o : J) : bool :=
  let has c := existsb (Z.eqb c) codes in
  let fin := ref_sum (map (fun c => if c =? 103 then 0 else c)
                          (filter (fun c => negb ((100 <=? c) && (c <=? 102))) codes)) in
  let n := Z.of_nat (length codes) in
  match row with
  | 0%nat | 1%nat =>
      if has 100 || (has 101 && has 102) then jstr_is o "nan"
      else if has 101 then (match codes with [] => false | _ => jstr_is o "pinf" end)
      else if has 102 then jstr_is o "ninf"
      else match o with
           | JF f =>
               match row, codes with
               | 0%nat, [] => PrimFloat.eqb f PrimFloat.zero
               | 0%nat, _ => PrimFloat.eqb f (PrimFloat.div (float_of_Z fin) (float_of_Z (2 * n)))
               | _, _ => PrimFloat.eqb f (PrimFloat.div (float_of_Z fin) (float_of_Z 2))
               end
           | _ => false
           end
  | 2%nat => match obs_key o with
             | Some ok => ozeqb ok (ref_min (map code_key codes)) | None => false end
  | _ => match obs_key o with
         | Some ok => ozeqb ok (ref_max (map code_key codes)) | None => false end
  end.

(* (a) lifted == unlifted on every split and (b) every tree == the fold, on the observed outputs
   themselves: all outcomes of a row are the same (class equal; finite values equal, for Min/Max
   including the sign of zero) *)
Definition f_same (row : nat) (o1 o2 : J) : bool :=
  match row with
  | 0%nat | 1%nat =>
      match o1, o2 with
      | JS a, JS b => String.eqb a b
      | JF a, JF b => PrimFloat.eqb a b
      | _, _ => false
      end
  | _ => match obs_key o1, obs_key o2 with
         | Some a, Some b => ozeqb a b
         | _, _ => false
         end
  end.
Definition run_out (r : J) : J := match r with JL [_; o] => o | _ => JN end.
Definition f_all_same (row : nat) (runs : list J) : bool :=
  match runs with
  | [] => true
  | r :: rest => forallb (fun r' => f_same row (run_out r) (run_out r')) rest
  end.

Fixpoint f_all_agree (row : nat) (o : J) (n : nat) (ts : list (mtree Z))
  : option (bool * list (mtree Z)) :=
  match n with
  | O => Some (true, ts)
  | S n' => match ts with
            | [] => None
            | t :: r => match f_all_agree row o n' r with
                        | Some (b, rest) => Some (f_agree row t o && b, rest)
                        | None => None
                        end
            end
  end.
Fixpoint f_judge_row (row : nat) (codes : list Z) (runs : list J) (ts : list (mtree Z))
  : option (bool * bool) :=
  match runs with
  | [] => match ts with [] => Some (true, true) | _ => None end
  | JL [JI cnt; o] :: runs' =>
      if cnt <=? 0 then None else
      match f_all_agree row o (Z.to_nat cnt) ts with
      | Some (a, rest) =>
          match f_judge_row row codes runs' rest with
          | Some (a', p') => Some (a && a', f_prop row codes o && p')
          | None => None
          end
      | None => None
      end
  | _ => None
  end.
Fixpoint f_judge_rows (row : nat) (codes : list Z) (ts : list (mtree Z)) (rows : list J)
  : option (bool * bool) :=
  match rows with
  | [] => if (row =? 4)%nat then Some (true, true) else None
  | JL runs :: rows' =>
      match f_judge_row row codes runs ts, f_judge_rows (S row) codes ts rows' with
      | Some (a, p), Some (a', p') => Some (a && a', p && f_all_same row runs && p')
      | _, _ => None
      end
  | _ => None
  end.
Definition code_ok (c : Z) : bool := ((100 <=? c) && (c <=? 103)) || ((-1000 <? c) && (c <? 100)).


(* ------------------------------------------------------------------ big non-finite groups ("fbig")
   in = [g, specials, psize, mode, nest]; the value codes are gen_values g with code c written at
   index i for each [i, c] of specials; the group is cut into chunks and merged as `chunked` says.
   out = [AverageF64; Sum<f64>; Min<OrdF64>; Max<OrdF64>] outcomes as in "fsweep". *)
Fixpoint set_nth (i : nat) (c : Z) (l : list Z) : option (list Z) :=
  match l, i with
  | [], _ => None
  | _ :: r, O => Some (c :: r)
  | x :: r, S i' => match set_nth i' c r with Some r' => Some (x :: r') | None => None end
  end.
Fixpoint apply_specials (sp : list J) (l : list Z) : option (list Z) :=
  match sp with
  | [] => Some l
  | JL [JI i; JI c] :: sp' =>
      if (i <? 0) || (c <? 100) || (103 <? c) then None
      else match set_nth (Z.to_nat i) c l with
           | Some l' => apply_specials sp' l'
           | None => None
           end
  | _ => None
  end.
Definition fbig_agree (row : nat) (e : aexpr Z) (o : J) : bool :=
  match row with
  | 0%nat => xmean_matches (c_finish xavg_combiner (aeval xavg_combiner (map_aexpr code_xr e))) o
  | 1%nat => xr_matches (c_finish xsum_combiner (aeval xsum_combiner (map_aexpr code_xr e))) o
  | 2%nat => match obs_key o with
             | Some ok => ozeqb ok (c_finish min_combiner (aeval min_combiner (map_aexpr code_key e)))
             | None => false end
  | _ => match obs_key o with
         | Some ok => ozeqb ok (c_finish max_combiner (aeval max_combiner (map_aexpr code_key e)))
         | None => false end
  end.
Definition check_fbig (input output : J) : verdict :=
  match input, output with
  | JL [g; JL sp; JI psize; JI mode; JI nest], JL [o0; o1; o2; o3] =>
      if (psize <? 1) || (mode <? 0) || (2 <? mode) || (nest <? 0) || (2 <? nest) then malformed else
      match dec_gen g with
      | Some base =>
          match apply_specials sp base with
          | Some codes =>
              if negb (forallb code_ok codes) then malformed else
              let e := chunked (Z.to_nat mode) (Z.to_nat nest) (Z.to_nat psize) codes in
              ok_verdict (fbig_agree 0 e o0 && fbig_agree 1 e o1 && fbig_agree 2 e o2 && fbig_agree 3 e o3)
                         (f_prop 0 codes o0 && f_prop 1 codes o1 && f_prop 2 codes o2 && f_prop 3 codes o3)
          | None => malformed
          end
      | None => malformed
      end
  | _, _ => malformed
  end.

Definition is_pow2 (d : Z) : bool := existsb (Z.eqb d) [1; 2; 4; 8; 16].

Definition check_C06 (kind : string) (input output : J) : verdict :=
  if String.eqb kind "sweep" then
    (* in = [values, maxparts, den]; out = one RLE row per configuration of sweep_configs *)
    match input, output with
    | JL [jvs; JI maxparts; JI den], JL rows =>
        match jints jvs with
        | Some vs =>
            if negb (is_pow2 den) || (maxparts <? 1) then malformed else
            let ts := all_trees (Z.to_nat maxparts) vs in
            match judge_rows den vs ts (sweep_configs (length vs)) rows with
            | Some (a, p) => ok_verdict a p
            | None => malformed
            end
        | None => malformed
        end
    | _, _ => malformed
    end
  else if String.eqb kind "fsweep" then
    (* in = [codes, maxparts]; out = 4 RLE rows: AverageF64, Sum<f64>, Min<OrdF64>, Max<OrdF64> *)
    match input, output with
    | JL [jvs; JI maxparts], JL rows =>
        match jints jvs with
        | Some codes =>
            if negb (forallb code_ok codes) || (maxparts <? 1) then malformed else
            match f_judge_rows 0 codes (all_trees (Z.to_nat maxparts) codes) rows with
            | Some (a, p) => ok_verdict a p
            | None => malformed
            end
        | None => malformed
        end
    | _, _ => malformed
    end
  else if String.eqb kind "expr" then
    (* in = [cid, k, den, expression]; out = the outcome of finish *)
    match input with
    | JL [JI cid; JI k; JI den; je] =>
        if negb (is_pow2 den) || (k <? 0) || (cid <? 0) || (8 <? cid) then malformed else
        match dec_aexpr 1000 je with
        | Some e =>
            ok_verdict (agree_expr cid (Z.to_nat k) den e output)
                       (prop_out cid (Z.to_nat k) den (avalues e) output)
        | None => malformed
        end
    | _ => malformed
    end
  else if String.eqb kind "fbig" then check_fbig input output
  else if String.eqb kind "ovf" then
    match input with
    | JL [JI ty; je] =>
        match dec_aexpr 1000 je with
        | Some e => check_ovf ty e output
        | None => malformed
        end
    | _ => malformed
    end
  else if String.eqb kind "big" then
    match input, output with
    | JL [JI cid; JI k; JI den; JI ty; je], JL [o1; o2] =>
        if negb (is_pow2 den) || (k <? 0) || (cid <? 0) || (8 <? cid) then malformed else
        match dec_aexpr 1000 je with
        | Some e =>
            let vs := avalues e in
            if negb (big_valid cid den ty vs) then malformed else
            let k' := Z.to_nat k in
            let same := jeqb o1 o2 in
            ok_verdict (agree_big cid k' den e o1 && (same || agree_big cid k' den e o2))
                       (prop_big cid k' den vs o1 && (same || prop_big cid k' den vs o2))
        | None => malformed
        end
    | _, _ => malformed
    end
  else malformed.
