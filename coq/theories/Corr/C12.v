(* Correspondence for C12: runs the model of src/checkpoint.rs (Ckpt/Bincode.v, Ckpt/Store.v) on
   the cases harness/src/bin/c12.rs ran on the real CheckpointManager, and decides agreement and
   the property instance inside Coq. The property instances are evaluated on the OBSERVED outcome
   with reference functions written independently of the model (ref_* below). The model's H is
   `sha256` (Ckpt/Sha256.v: the streaming hasher compute_checksum drives); the reference is the
   FIPS one-shot `sha256_spec` rendered by `ref_hex`. Nothing on the expected side comes from Rust:
   the table of real compute_checksum values in rt / load cases is itself CHECKED against the
   model. *)
From Coq Require Import List ZArith Bool String Ascii.
From Coq Require DecimalString.
From Coq Require Import Uint63.
From IB Require Import Util.J Ckpt.Bincode Ckpt.Store Ckpt.Sha256.
Import ListNotations.
Open Scope Z_scope.

(* what the allocator can serve in correspondence runs: isize::MAX (beyond: capacity overflow) *)
Definition corr_avail : Z := 9223372036854775807.

(* ------------------------------------------------------------------ generic helpers *)
Fixpoint blist_leb (a b : bytes) : bool :=
  match a, b with
  | [], _ => true
  | _ :: _, [] => false
  | x :: a', y :: b' => if x <? y then true else if y <? x then false else blist_leb a' b'
  end.
Fixpoint binsert (x : bytes) (l : list bytes) : list bytes :=
  match l with [] => [x] | y :: r => if blist_leb x y then x :: l else y :: binsert x r end.
Definition bsort (l : list bytes) : list bytes := fold_right binsert [] l.
Fixpoint blists_eqb (a b : list bytes) : bool :=
  match a, b with
  | [], [] => true
  | x :: a', y :: b' => bytes_eqb x y && blists_eqb a' b'
  | _, _ => false
  end.
Definition bmem (x : bytes) (l : list bytes) : bool := existsb (bytes_eqb x) l.

Fixpoint insert_all {A} (x : A) (l : list A) : list (list A) :=
  match l with [] => [[x]] | y :: r => (x :: l) :: map (cons y) (insert_all x r) end.
Fixpoint perms {A} (l : list A) : list (list A) :=
  match l with [] => [[]] | x :: r => flat_map (insert_all x) (perms r) end.

(* ------------------------------------------------------------------ decoding of cases *)
Definition dec_fields (j : J) : option cstate :=
  match j with
  | JL [jp; JI cni; JI ts; JI pc; jc; je; JI tn; jl; JI pp] =>
      match jbytes jp, jbytes jc, jbytes je, jbytes jl with
      | Some p, Some c, Some e, Some l => Some (mk_cstate p cni ts pc c e (mk_cmeta tn l pp))
      | _, _, _, _ => None
      end
  | _ => None
  end.
Definition dec_entry (j : J) : option (bytes * bytes) :=
  match j with
  | JL [a; b] => match jbytes a, jbytes b with Some x, Some y => Some (x, y) | _, _ => None end
  | _ => None
  end.
Definition dec_table (j : J) : option (list (bytes * bytes)) :=
  match j with JL l => omap dec_entry l | _ => None end.
Definition dec_names (j : J) : option (list bytes) :=
  match j with JL l => omap jbytes l | _ => None end.

Definition tab_find (tab : list (bytes * bytes)) (x : bytes) : option bytes :=
  match find (fun e => bytes_eqb (fst e) x) tab with Some e => Some (snd e) | None => None end.
Definition state_eqb (a b : cstate) : bool :=
  bytes_eqb (pipeline_id a) (pipeline_id b) && (completed_node_index a =? completed_node_index b)
  && (timestamp a =? timestamp b) && (partition_count a =? partition_count b)
  && bytes_eqb (checksum a) (checksum b) && bytes_eqb (exec_mode a) (exec_mode b)
  && (total_nodes (metadata a) =? total_nodes (metadata b))
  && bytes_eqb (last_node_type (metadata a)) (last_node_type (metadata b))
  && (progress_percent (metadata a) =? progress_percent (metadata b)).

(* observed outcome of a load *)
Inductive obs : Type := OOk (s : cstate) | OErr (c : string) | OCrash.
Definition dec_obs (j : J) : option obs :=
  match j with
  | JL [t; v] =>
      if jtag_is "ok" t then match dec_fields v with Some s => Some (OOk s) | None => None end
      else if jtag_is "err" t then match v with JS c => Some (OErr c) | _ => None end
      else None
  | JL [t] => if jtag_is "panic" t || jtag_is "abort" t || jtag_is "hang" t then Some OCrash else None
  | _ => None
  end.

Definition derr_class (e : derr) : string :=
  match e with EEnd => "end" | EDiscriminant => "discriminant" | ELimit => "limit" | EUtf8 => "utf8" end.
Definition lerr_class (e : lerr) : string :=
  match e with
  | LMissing => "missing" | LDecode e => derr_class e | LChecksum => "checksum" | LCreate => "create"
  end.

(* agreement of an observed load outcome with the model's; an error whose class the harness could
   not name ("other") agrees with any model error *)
Definition agree_load (o : obs) (m : outcome cstate) : bool :=
  match o, m with
  | OOk s, Ok s' => state_eqb s s'
  | OErr c, Err e => String.eqb c (lerr_class e) || String.eqb c "other"
  | _, _ => false
  end.

(* ------------------------------------------------------------------ independent references *)
(* decimal rendering through the standard library's Decimal printer *)
Definition ref_dec (n : Z) : bytes :=
  string_bytes (DecimalString.NilZero.string_of_uint (N.to_uint (Z.to_N n))).
Definition ref_hex_digit (n : Z) : Z :=
  nth (Z.to_nat n) [48;49;50;51;52;53;54;55;56;57;97;98;99;100;101;102] 0.
Fixpoint ref_hex (l : bytes) : bytes :=
  match l with [] => [] | b :: r => ref_hex_digit (Z.shiftr b 4) :: ref_hex_digit (Z.land b 15) :: ref_hex r end.
Definition ref_meta (s : cstate) : bytes :=
  pipeline_id s ++ 58 :: ref_dec (completed_node_index s) ++ 58 :: ref_dec (timestamp s)
  ++ 58 :: ref_dec (partition_count s).

(* split "checkpoint_<id>_<t>.bin" at the LAST '_' : Some (id, t) *)
Definition ref_split (n : bytes) : option (bytes * bytes) :=
  let pre := string_bytes "checkpoint_" in
  let suf := string_bytes ".bin" in
  let ln := List.length n in
  if (Nat.leb (List.length pre + 1 + List.length suf) ln)
     && bytes_eqb (firstn (List.length pre) n) pre && bytes_eqb (skipn (ln - List.length suf) n) suf then
    let mid := firstn (ln - List.length pre - List.length suf) (skipn (List.length pre) n) in
    (* t = the longest suffix of mid without '_' *)
    let fix back (l : bytes) (acc : bytes) : option (bytes * bytes) :=
      match l with
      | [] => None
      | c :: r => if c =? 95 then Some (rev r, acc) else back r (c :: acc)
      end in
    back (rev mid) []
  else None.
(* value of "+"? digit+ , None when not of that shape or above u64::MAX *)
Definition ref_u64 (t : bytes) : option Z :=
  let ds := match t with 43 :: r => r | _ => t end in
  match ds with
  | [] => None
  | _ =>
      if forallb (fun c => (48 <=? c) && (c <=? 57)) ds then
        let v := fold_right (fun c acc => (fst acc + (c - 48) * snd acc, snd acc * 10)) (0, 1) ds in
        if fst v <=? 18446744073709551615 then Some (fst v) else None
      else None
  end.
(* Some ts when the file belongs to pipeline pid *)
Definition ref_ts (pid n : bytes) : option Z :=
  match ref_split n with
  | Some (id, t) => if bytes_eqb id pid then ref_u64 t else None
  | None => None
  end.
Definition ref_of (pid : bytes) (l : list bytes) : list bytes :=
  filter (fun n => match ref_ts pid n with Some _ => true | None => false end) l.
Definition ref_not_of (pid : bytes) (l : list bytes) : list bytes :=
  filter (fun n => match ref_ts pid n with Some _ => false | None => true end) l.
Definition ref_key (pid n : bytes) : Z := match ref_ts pid n with Some t => t | None => 0 end.
Definition ref_name (pid : bytes) (ts : Z) : bytes :=
  string_bytes "checkpoint_" ++ pid ++ 95 :: ref_dec ts ++ string_bytes ".bin".
Definition ref_creatable (n : bytes) : bool :=
  Nat.leb (List.length n) 255 && negb (existsb (fun c => (c =? 47) || (c =? 0)) n).
Definition subset (a b : list bytes) : bool := forallb (fun x => bmem x b) a.

(* retention instance: cur's files of pid are min(m, |A|) files of A = before's files of pid,
   none of the dropped ones is newer than a kept one; every other file is exactly as before *)
Definition ref_retention_ok (max : option Z) (pid : bytes) (before cur : list bytes) : bool :=
  let A := ref_of pid before in
  let K := ref_of pid cur in
  let dropped := filter (fun x => negb (bmem x K)) A in
  subset K A
  && (Z.of_nat (List.length K) =? match max with None => Z.of_nat (List.length A)
                                       | Some m => Z.min m (Z.of_nat (List.length A)) end)
  && forallb (fun k => forallb (fun x => ref_key pid x <=? ref_key pid k) dropped) K
  && blists_eqb (bsort (ref_not_of pid before)) (bsort (ref_not_of pid cur)).

Definition ref_latest_ok (enabled : bool) (pid : bytes) (cur : list bytes) (o : option bytes) : bool :=
  match o with
  | None => negb enabled || match ref_of pid cur with [] => true | _ => false end
  | Some n => enabled && bmem n (ref_of pid cur)
              && forallb (fun x => ref_key pid x <=? ref_key pid n) (ref_of pid cur)
  end.

(* ------------------------------------------------------------------ kinds rt / load *)
Definition sorted_readdir (d : dir) : list name := bsort (dir_names d).

(* every table entry (string, digest) was produced by the REAL compute_checksum: it must be the
   model's SHA-256 of that string *)
Definition table_ok (tab : list (bytes * bytes)) : bool :=
  forallb (fun e => bytes_eqb (sha256 (fst e)) (snd e)) tab.
(* reference checksum of a state's protected fields: FIPS one-shot SHA-256 of the reference
   metadata string, reference hex *)
Definition ref_seal (s : cstate) : bytes := ref_hex (sha256_spec (ref_meta s)).

Definition check_rt (jf jt out : J) : verdict :=
  match out with
  | JL [jo; jimg] =>
  match dec_fields jf, dec_table jt, dec_obs jo with
  | Some s, Some tab, Some o =>
      match tab_find tab (meta_str s), tab_find tab (ref_meta s) with
      | Some _, Some _ =>
          let '(r, d) := save sorted_readdir None [] s in
          let m := match r with
                   | Ok n => load sha256 corr_avail d n
                   | Err e => Err e
                   | Abort => Abort
                   end in
          (* the file the real save wrote is, byte for byte, the model's encoding *)
          let image_ok := match r, jimg with
                          | Ok n, JY img => match dir_lookup d n with
                                            | Some b => bytes_eqb b img
                                            | None => false
                                            end
                          | Ok _, _ => false
                          | _, JN => true
                          | _, _ => false
                          end in
          let sealed := bytes_eqb (checksum s) (ref_seal s) in
          let creatable := ref_creatable (ref_name (pipeline_id s) (timestamp s)) in
          let prop := match o with
                      | OOk s' => creatable && sealed && state_eqb s s'
                      (* the property promises "an error", not its wording: any rejection is right
                         exactly when the state must NOT load back (the file cannot be created, or
                         the checksum does not seal the protected fields); the error CLASS is part
                         of `agree` only *)
                      | OErr _ => negb (creatable && sealed)
                      | OCrash => false
                      end in
          ok_verdict (agree_load o m && image_ok && table_ok tab) prop
      | _, _ => malformed
      end
  | _, _, _ => malformed
  end
  | _ => malformed
  end.

Definition check_load (jb jt out : J) : verdict :=
  match jbytes jb, dec_table jt, dec_obs out with
  | Some b, Some tab, Some o =>
      let m := load_bytes sha256 corr_avail b in
      let prop := match o with
                  | OOk s' =>
                      (* what was accepted carries the checksum of its own protected fields *)
                      bytes_eqb (checksum s') (ref_seal s')
                  | OErr _ => true
                  | OCrash => false
                  end in
      ok_verdict (agree_load o m && table_ok tab) prop
  | _, _, _ => malformed
  end.

(* ------------------------------------------------------------------ compact data *)
(* byte strings too long to be written out are described by a generator both sides run:
     ["gen", seed, len]     len bytes of a 63-bit LCG (bits 32..39 of every state)
     ["rep", unit, count]   `unit` repeated `count` times
     ["ids", seed, len]     len characters of the 32-letter alphabet below, chosen by the same LCG
     a JSON string / {"bytes": ..}   the bytes themselves *)
Definition lcg (x : Uint63.int) : Uint63.int :=
  Uint63.add (Uint63.mul x 6364136223846793005%uint63) 1442695040888963407%uint63.
Fixpoint gen_bytes (n : nat) (x : Uint63.int) : bytes :=
  match n with
  | O => []
  | S k => let x' := lcg x in
           Uint63.to_Z (Uint63.land (Uint63.lsr x' 32%uint63) 255%uint63) :: gen_bytes k x'
  end.
Definition id_alphabet : bytes := string_bytes "abcdefghijklmnopqrstuvwxyz012:_9".
Definition dec_data (j : J) : option bytes :=
  match j with
  | JL [t; JI seed; JI len] =>
      if jtag_is "gen" t then Some (gen_bytes (Z.to_nat len) (Uint63.of_Z seed))
      else if jtag_is "ids" t then
        Some (map (fun b => nth (Z.to_nat (Z.land b 31)) id_alphabet 0)
                  (gen_bytes (Z.to_nat len) (Uint63.of_Z seed)))
      else None
  | JL [t; ju; JI count] =>
      if jtag_is "rep" t then
        match jbytes ju with
        | Some u => Some (List.concat (repeat u (Z.to_nat count)))
        | None => None
        end
      else None
  | _ => jbytes j
  end.

(* ------------------------------------------------------------------ kind sum *)
(* in = data, out = [compute_checksum(data), compute_checksum(data) again] *)
Definition check_sum (input out : J) : verdict :=
  match dec_data input, out with
  | Some d, JL [j1; j2] =>
      match jbytes j1, jbytes j2 with
      | Some h1, Some h2 =>
          let m := compute_checksum sha256 d in
          (* short inputs: the reference is the Z-word instance of the FIPS model (the one the
             concrete theorems of Props/C12.v speak about), so the two word instances are compared
             with each other and with the real code on every such case; long inputs: the
             machine-integer instance in its one-shot formulation *)
          let r := if Nat.leb (List.length d) 130 then ref_hex (sha256_spec_z d)
                   else ref_hex (sha256_spec d) in
          ok_verdict (bytes_eqb h1 m && bytes_eqb h2 m) (bytes_eqb h1 r && bytes_eqb h2 r)
      | _, _ => malformed
      end
  | _, _ => malformed
  end.

(* ------------------------------------------------------------------ kind tamper *)
(* in = [[pid, cni, ts, pc, checksum, exec_mode, total_nodes, last_node_type, progress], ops]
   (pid as compact data); the file is the encoding of that state; every op is applied to the
   pristine file on its own and the result loaded:
     ["x", off, mask]        byte at off xor mask
     ["s", off, del, ins]    del bytes at off replaced by the bytes ins
     ["t", k]                the first k bytes only
   out = one load outcome per op; in an "ok" outcome the pipeline id / checksum are null when
   they equal the input's. *)
Inductive top : Type := TX (off mask : Z) | TS (off del : Z) (ins : bytes) | TT (k : Z).
Definition dec_top (j : J) : option top :=
  match j with
  | JL [t; JI a; JI b] => if jtag_is "x" t then Some (TX a b) else None
  | JL [t; JI a; JI b; ji] =>
      if jtag_is "s" t then match dec_data ji with Some i => Some (TS a b i) | None => None end
      else None
  | JL [t; JI k] => if jtag_is "t" t then Some (TT k) else None
  | _ => None
  end.
Definition apply_top (img : bytes) (op : top) : option bytes :=
  let n := Z.of_nat (List.length img) in
  match op with
  | TX off mask =>
      if (0 <=? off) && (off <? n) then
        Some (firstn (Z.to_nat off) img ++ Z.lxor (nth (Z.to_nat off) img 0) mask
                     :: skipn (Z.to_nat (off + 1)) img)
      else None
  | TS off del ins =>
      if (0 <=? off) && (0 <=? del) && (off + del <=? n) then
        Some (firstn (Z.to_nat off) img ++ ins ++ skipn (Z.to_nat (off + del)) img)
      else None
  | TT k => if (0 <=? k) && (k <=? n) then Some (firstn (Z.to_nat k) img) else None
  end.

Definition dec_fields_data (j : J) : option cstate :=
  match j with
  | JL [jp; JI cni; JI ts; JI pc; jc; je; JI tn; jl; JI pp] =>
      match dec_data jp, jbytes jc, jbytes je, jbytes jl with
      | Some p, Some c, Some e, Some l => Some (mk_cstate p cni ts pc c e (mk_cmeta tn l pp))
      | _, _, _, _ => None
      end
  | _ => None
  end.
(* an observed outcome whose id / checksum may be abbreviated by null = "as in the input" *)
Definition dec_obs_abbrev (s0 : cstate) (j : J) : option obs :=
  match j with
  | JL [t; JL [jp; JI cni; JI ts; JI pc; jc; je; JI tn; jl; JI pp]] =>
      if jtag_is "ok" t then
        let p := match jp with JN => Some (pipeline_id s0) | _ => jbytes jp end in
        let c := match jc with JN => Some (checksum s0) | _ => jbytes jc end in
        match p, c, jbytes je, jbytes jl with
        | Some p, Some c, Some e, Some l => Some (OOk (mk_cstate p cni ts pc c e (mk_cmeta tn l pp)))
        | _, _, _, _ => None
        end
      else None
  | _ => dec_obs j
  end.

Definition protected_eqb (a b : cstate) : bool :=
  bytes_eqb (pipeline_id a) (pipeline_id b) && (completed_node_index a =? completed_node_index b)
  && (timestamp a =? timestamp b) && (partition_count a =? partition_count b).

Fixpoint run_tamper (s0 : cstate) (img : bytes) (ops : list top) (outs : list J) : option (bool * bool) :=
  match ops, outs with
  | [], [] => Some (true, true)
  | op :: ops', jo :: outs' =>
      match apply_top img op, dec_obs_abbrev s0 jo, run_tamper s0 img ops' outs' with
      | Some b, Some o, Some (a, p) =>
          let m := load_bytes sha256 corr_avail b in
          let pr := match o with
                    | OOk s' =>
                        (* accepted => sealed with the true SHA-256 of its own protected fields,
                           and a file that still carries the original checksum has the original
                           protected fields *)
                        bytes_eqb (checksum s') (ref_seal s')
                        && (negb (bytes_eqb (checksum s') (checksum s0)) || protected_eqb s' s0)
                    | OErr _ => true
                    | OCrash => false
                    end in
          Some (agree_load o m && a, pr && p)
      | _, _, _ => None
      end
  | _, _ => None
  end.

Definition check_tamper (input out : J) : verdict :=
  match input, out with
  | JL [jf; JL jops], JL outs =>
      match dec_fields_data jf, omap dec_top jops with
      | Some s0, Some ops =>
          match run_tamper s0 (encode s0) ops outs with
          | Some (a, p) => ok_verdict a p
          | None => malformed
          end
      | _, _ => malformed
      end
  | _, _ => malformed
  end.

(* ------------------------------------------------------------------ kind hist *)
Inductive hop : Type := HSave (pid : bytes) (ts : Z) | HClear (pid : bytes).
Definition dec_op (j : J) : option hop :=
  match j with
  | JL [t; jp; JI ts] => if jtag_is "save" t then option_map (fun p => HSave p ts) (jbytes jp) else None
  | JL [t; jp] => if jtag_is "clear" t then option_map HClear (jbytes jp) else None
  | _ => None
  end.
Definition dec_latest (j : J) : option (option bytes) :=
  match j with JN => Some None | _ => option_map Some (jbytes j) end.
Definition dec_step (j : J) : option (bool * list bytes * list (option bytes)) :=
  match j with
  | JL [JB st; jl; JL lat] =>
      match dec_names jl, omap dec_latest lat with
      | Some l, Some la => Some (st, l, la)
      | _, _ => None
      end
  | _ => None
  end.

Definition dir_of (l : list bytes) : dir := map (fun n => (n, [])) l.
(* a directory listing that returns the names of `order` first, in that order *)
Definition readdir_by (order : list name) (d : dir) : list name :=
  filter (fun n => bmem n (dir_names d)) order ++ filter (fun n => negb (bmem n order)) (dir_names d).
(* the listing orders worth trying for pipeline pid in directory d. The sort is stable, so the
   outcome depends on the listing only through the relative order of files with EQUAL timestamps
   (e.g. `_7.bin`, `_+7.bin`, `_007.bin`): every order of every group of equal keys is tried. *)
Fixpoint dedup_z (l : list Z) : list Z :=
  match l with [] => [] | x :: r => x :: filter (fun y => negb (y =? x)) (dedup_z r) end.
Definition orders (pid : bytes) (d : dir) : list (list name) :=
  let cks := filter (is_ckpt pid) (dir_names d) in
  fold_right (fun k acc =>
                let g := filter (fun n => ts_key pid n =? k) cks in
                (* larger groups of equal timestamps do not occur in generated cases; they are
                   tried in listing order and reversed only (keeps the evaluation bounded) *)
                let ps := if Nat.leb (List.length g) 5 then perms g else [g; rev g] in
                flat_map (fun p => map (app p) acc) ps)
             [[]] (dedup_z (map (ts_key pid) cks)).

Definition opt_bytes_eqb (a b : option bytes) : bool :=
  match a, b with Some x, Some y => bytes_eqb x y | None, None => true | _, _ => false end.

Definition step_agree (max : option Z) (enabled : bool) (prev : list bytes) (op : hop)
           (queries : list bytes) (o : bool * list bytes * list (option bytes)) : bool :=
  let '(st, cur, lat) := o in
  let d0 := dir_of prev in
  let listing_ok :=
    match op with
    | HSave pid ts =>
        let s := mk_cstate pid 1 ts 1 [] [] (mk_cmeta 2 [] 50) in
        let d1 := dir_write d0 (ckpt_name pid ts) [] in
        existsb (fun ord =>
                   let '(r, d) := save (readdir_by ord) max d0 s in
                   Bool.eqb st (match r with Ok _ => true | _ => false end)
                   && blists_eqb (bsort (dir_names d)) cur)
                (orders pid d1)
    | HClear pid => st && blists_eqb (bsort (dir_names (clear sorted_readdir pid d0))) cur
    end in
  let dc := dir_of cur in
  let latest_ok :=
    Nat.eqb (List.length queries) (List.length lat)
    && forallb (fun ql =>
                  existsb (fun ord => opt_bytes_eqb (latest (readdir_by ord) enabled (fst ql) dc) (snd ql))
                          (orders (fst ql) dc))
               (combine queries lat) in
  listing_ok && latest_ok.

Definition step_prop (max : option Z) (enabled : bool) (prev : list bytes) (op : hop)
           (queries : list bytes) (o : bool * list bytes * list (option bytes)) : bool :=
  let '(st, cur, lat) := o in
  (match op with
   | HSave pid ts =>
       if st then ref_retention_ok max pid (ref_name pid ts :: filter (fun n => negb (bytes_eqb n (ref_name pid ts))) prev) cur
       else blists_eqb (bsort prev) cur
   | HClear pid =>
       st && match ref_of pid cur with [] => true | _ => false end
       && blists_eqb (bsort (ref_not_of pid prev)) (bsort (ref_not_of pid cur))
   end)
  && Nat.eqb (List.length queries) (List.length lat)
  && forallb (fun ql => ref_latest_ok enabled (fst ql) cur (snd ql)) (combine queries lat).

Fixpoint run_hist (max : option Z) (enabled : bool) (prev : list bytes) (ops : list hop)
         (queries : list bytes) (obs : list J) : option (bool * bool) :=
  match ops, obs with
  | [], [] => Some (true, true)
  | op :: ops', jo :: obs' =>
      match dec_step jo with
      | Some o =>
          match run_hist max enabled (snd (fst o)) ops' queries obs' with
          | Some (a, p) =>
              Some (step_agree max enabled prev op queries o && a,
                    step_prop max enabled prev op queries o && p)
          | None => None
          end
      | None => None
      end
  | _, _ => None
  end.

Definition check_hist (input out : J) : verdict :=
  match input, out with
  | JL [jm; JB enabled; ji; JL jops; jq], JL obs =>
      let max := match jm with JI m => Some (Some m) | JN => Some None | _ => None end in
      match max, dec_names ji, omap dec_op jops, dec_names jq with
      | Some max, Some init, Some ops, Some qs =>
          match run_hist max enabled (bsort init) ops qs obs with
          | Some (a, p) => ok_verdict a p
          | None => malformed
          end
      | _, _, _, _ => malformed
      end
  | _, _ => malformed
  end.

(* ------------------------------------------------------------------ kind should *)
Definition dec_policy (j : J) : option policy :=
  match j with
  | JL [t] => if jtag_is "barrier" t then Some AfterEveryBarrier else None
  | JL [t; JI n] => if jtag_is "every" t then Some (EveryNNodes n)
                    else if jtag_is "time" t then Some (TimeInterval n) else None
  | JL [t; JB b; JI n] => if jtag_is "hybrid" t then Some (Hybrid b n) else None
  | _ => None
  end.

Definition check_should (input out : J) : verdict :=
  match input, out with
  | JL [JB enabled; jp; JB after; JI idx; JB barrier], JB o =>
      match dec_policy jp with
      | Some pol =>
          (* clock: the previous save (if any) happened at 0, now = 1 microsecond later *)
          let m := should_checkpoint enabled pol (if after then Some 0 else None) 1000 idx barrier in
          ok_verdict (Bool.eqb o m) (Bool.eqb o m)
      | None => malformed
      end
  | _, _ => malformed
  end.

Definition check_C12 (kind : string) (input output : J) : verdict :=
  if String.eqb kind "rt" then
    match input with JL [jf; jt] => check_rt jf jt output | _ => malformed end
  else if String.eqb kind "load" then
    match input with JL [jb; jt] => check_load jb jt output | _ => malformed end
  else if String.eqb kind "hist" then check_hist input output
  else if String.eqb kind "should" then check_should input output
  else if String.eqb kind "sum" then check_sum input output
  else if String.eqb kind "tamper" then check_tamper input output
  else malformed.
