(* Correspondence for C14: runs the model of src/combiners/sampling.rs + the engine's way of driving
   it (Combiners/Reservoir.v) on the cases harness/src/bin/c14.rs ran through the real public API,
   and decides inside Coq (1) agreement: the observed sample is EXACTLY the one the model predicts
   (bit-exact random stream, order included; across keys the harness sorts by key), and (2) the
   property instance on the OBSERVED outcome against an independent reference: size = min k n,
   sub-multiset of the input (per key for the keyed entry points), the two runs of the same
   pipeline are identical (reproducibility), and for the "cmp" kinds the samples of two
   partitionings are the same multiset (the documented mode stability; known finding
   C14-mode-instability, class decided by [cmp_known]). *)
From Coq Require Import List ZArith NArith Arith Bool String.
From IB Require Import Util.J Combiners.Reservoir.
Import ListNotations.
Open Scope Z_scope.

(* ---------------------------------------------------------------- generic helpers *)
Fixpoint jeqb (a b : J) : bool :=
  match a, b with
  | JI x, JI y => Z.eqb x y
  | JB x, JB y => Bool.eqb x y
  | JN, JN => true
  | JS s, JS t => String.eqb s t
  | JL l, JL m =>
      (fix go (l m : list J) : bool :=
         match l, m with
         | [], [] => true
         | x :: l', y :: m' => jeqb x y && go l' m'
         | _, _ => false
         end) l m
  | _, _ => false
  end.

Definition enc_ints (l : list Z) : J := JL (map JI l).
Definition enc_pair (p : Z * Z) : J := JL [JI (fst p); JI (snd p)].
Definition enc_group (g : Z * list Z) : J := JL [JI (fst g); enc_ints (snd g)].

Definition dec_seed (j : J) : option N :=
  match j with
  | JL [JI hi; JI lo] => Some (Z.to_N hi * 4294967296 + Z.to_N lo)%N
  | _ => None
  end.
(* k: a plain integer, or [hi, lo] 32-bit halves for values that do not fit the interchange
   format (usize::MAX, 2^63, ...).  The model is run with min(k, n+1) as a (unary) nat, n = number
   of input elements: for every k > n the model's result is the same (order included) -
   Props/C14.v: c14_large_k_irrelevant / c14_large_k_irrelevant_keyed, Proofs/ReservoirBigK.v:
   expr_big_k for the expression kind. *)
Definition dec_k (j : J) : option Z :=
  match j with
  | JI z => Some z
  | JL [JI hi; JI lo] => Some (hi * 4294967296 + lo)
  | _ => None
  end.
Definition clamp_k (kz : Z) (n : nat) : nat := Z.to_nat (Z.min kz (Z.of_nat (S n))).

Definition dec_pair (j : J) : option (Z * Z) :=
  match j with JL [JI k; JI v] => Some (k, v) | _ => None end.
Definition dec_pairs (j : J) : option (list (Z * Z)) :=
  match j with JL l => omap dec_pair l | _ => None end.
Definition dec_group (j : J) : option (Z * list Z) :=
  match j with
  | JL [JI k; vs] => match jints vs with Some l => Some (k, l) | None => None end
  | _ => None
  end.
Definition dec_groups (j : J) : option (list (Z * list Z)) :=
  match j with JL l => omap dec_group l | _ => None end.
Definition dec_samples (j : J) : option (list (list Z)) :=
  match j with JL l => omap jints l | _ => None end.

(* stable insertion sort by key (the harness's `sort_by_key`, stable) *)
Fixpoint kinsert {X} (x : Z * X) (l : list (Z * X)) : list (Z * X) :=
  match l with
  | [] => [x]
  | y :: r => if fst x <=? fst y then x :: l else y :: kinsert x r
  end.
Definition ksort {X} (l : list (Z * X)) : list (Z * X) := fold_right kinsert [] l.

(* ---------------------------------------------------------------- independent reference *)
Fixpoint remove_one (x : Z) (l : list Z) : option (list Z) :=
  match l with
  | [] => None
  | y :: r => if x =? y then Some r
              else match remove_one x r with Some r' => Some (y :: r') | None => None end
  end.
(* every element of s occurs in l at least as often as in s *)
Fixpoint submultiset_b (s l : list Z) : bool :=
  match s with
  | [] => true
  | x :: s' => match remove_one x l with Some l' => submultiset_b s' l' | None => false end
  end.
Fixpoint zinsert (x : Z) (l : list Z) : list Z :=
  match l with [] => [x] | y :: r => if x <=? y then x :: l else y :: zinsert x r end.
Definition zsort (l : list Z) : list Z := fold_right zinsert [] l.
Fixpoint zlist_eqb (a b : list Z) : bool :=
  match a, b with
  | [], [] => true
  | x :: a', y :: b' => (x =? y) && zlist_eqb a' b'
  | _, _ => false
  end.
Definition multiset_eqb (a b : list Z) : bool := zlist_eqb (zsort a) (zsort b).

(* "right size, real elements only" for one sample *)
Definition good_sample (k : nat) (input sample : list Z) : bool :=
  Nat.eqb (List.length sample) (Nat.min k (List.length input)) && submultiset_b sample input.

Definition values_of (key : Z) (d : list (Z * Z)) : list Z :=
  map snd (filter (fun kv => fst kv =? key) d).
Fixpoint dedup (l : list Z) : list Z :=
  match l with
  | [] => []
  | x :: r => if existsb (Z.eqb x) r then dedup r else x :: dedup r
  end.
Definition keys_of (d : list (Z * Z)) : list Z := zsort (dedup (map fst d)).

(* per-key sample check for the output of sample_values_reservoir_vec (sorted by key): every key
   of the input exactly once, no other key, each sample good for that key's values *)
Definition good_groups (k : nat) (input : list (Z * Z)) (out : list (Z * list Z)) : bool :=
  zlist_eqb (map fst out) (keys_of input) &&
  forallb (fun g => good_sample k (values_of (fst g) input) (snd g)) out.
(* the flattened variant: group the observed pairs by key *)
Definition good_flat (k : nat) (input out : list (Z * Z)) : bool :=
  forallb (fun key => good_sample k (values_of key input) (values_of key out))
          (keys_of (input ++ out)).

(* ---------------------------------------------------------------- running the model *)
(* mode = -1: collect_seq; mode = p >= 0: collect_par(None, Some(p)) *)
Definition m_global_vec (k : nat) (seed : N) (mode : Z) (data : list Z) : list (list Z) :=
  if mode <? 0 then global_seq_vec k seed data else global_par_vec k seed (Z.to_nat mode) data.
Definition m_keyed_vec (k : nat) (seed : N) (mode : Z) (data : list (Z * Z))
  : list (Z * list Z) :=
  ksort (if mode <? 0 then keyed_seq_vec Z.eqb k seed data
         else keyed_par_vec Z.eqb k seed (Z.to_nat mode) data).

(* entry 0 = *_vec, 1 = flattened.  Result: (model output, property instance on an observed
   output, a canonical multiset form of an observed output for cross-partitioning comparison) *)
Definition model_g (entry : Z) (k : nat) (seed : N) (mode : Z) (data : list Z) : J :=
  let v := m_global_vec k seed mode data in
  if entry =? 0 then JL (map enc_ints v) else enc_ints (List.concat v).
Definition model_k (entry : Z) (k : nat) (seed : N) (mode : Z) (data : list (Z * Z)) : J :=
  let v := m_keyed_vec k seed mode data in
  if entry =? 0 then JL (map enc_group v) else JL (map enc_pair (flatten_keyed v)).

Definition prop_g (entry : Z) (k : nat) (data : list Z) (obs : J) : bool :=
  if entry =? 0 then
    match dec_samples obs with
    | Some [s] => good_sample k data s          (* exactly one element: the sample *)
    | _ => false
    end
  else match jints obs with Some s => good_sample k data s | None => false end.
Definition prop_k (entry : Z) (k : nat) (data : list (Z * Z)) (obs : J) : bool :=
  if entry =? 0 then
    match dec_groups obs with Some g => good_groups k data g | None => false end
  else match dec_pairs obs with Some f => good_flat k data f | None => false end.

(* canonical "which elements were sampled" (multiset; per key for the keyed entry points) *)
Definition canon_g (entry : Z) (obs : J) : option (list (Z * list Z)) :=
  if entry =? 0 then
    match dec_samples obs with Some [s] => Some [(0, zsort s)] | _ => None end
  else match jints obs with Some s => Some [(0, zsort s)] | None => None end.
Definition canon_k (entry : Z) (obs : J) : option (list (Z * list Z)) :=
  if entry =? 0 then
    match dec_groups obs with
    | Some g => Some (map (fun kv => (fst kv, zsort (snd kv))) g)
    | None => None
    end
  else
    match dec_pairs obs with
    | Some f => Some (map (fun key => (key, zsort (values_of key f))) (keys_of f))
    | None => None
    end.
Fixpoint canon_eqb (a b : list (Z * list Z)) : bool :=
  match a, b with
  | [], [] => true
  | (k1, v1) :: a', (k2, v2) :: b' => (k1 =? k2) && zlist_eqb v1 v2 && canon_eqb a' b'
  | _, _ => false
  end.

(* ---------------------------------------------------------------- the known-finding class
   C14-mode-instability: the samples of two DIFFERENT partitionings are compared, 0 < k, and some
   key (the whole input for the global entry points) has more than k values and is cut
   differently by the two partitionings.  [shape] = sizes of the non-empty per-partition value
   runs of one key; equal shapes give equal accumulators (same stream positions). *)
Definition parts_of {X} (mode : Z) (data : list X) : list (list X) :=
  if mode <? 0 then [data] else runner_split (Z.to_nat mode) data.
Definition shape (key : Z) (parts : list (list (Z * Z))) : list nat :=
  filter (fun n => negb (Nat.eqb n 0)) (map (fun p => List.length (values_of key p)) parts).
Fixpoint nat_list_eqb (a b : list nat) : bool :=
  match a, b with
  | [], [] => true
  | x :: a', y :: b' => Nat.eqb x y && nat_list_eqb a' b'
  | _, _ => false
  end.
Definition cmp_known (k : nat) (m1 m2 : Z) (data : list (Z * Z)) : bool :=
  Nat.ltb 0 k &&
  existsb (fun key =>
             Nat.ltb k (List.length (values_of key data)) &&
             negb (nat_list_eqb (shape key (parts_of m1 data)) (shape key (parts_of m2 data))))
          (keys_of data).

(* ---------------------------------------------------------------- direct combiner expressions *)
Fixpoint eval_expr (k : nat) (seed : N) (e : J) : option (pracc Z * list Z) :=
  match e with
  | JL [JI 0] => Some (create k seed, [])
  | JL [JI 1; e1; JI v] =>
      match eval_expr k seed e1 with
      | Some (a, m) => Some (add a v, m ++ [v])
      | None => None
      end
  | JL [JI 2; l; r] =>
      match eval_expr k seed l, eval_expr k seed r with
      | Some (a, m), Some (b, m') => Some (merge a b, m ++ m')
      | _, _ => None
      end
  | JL [JI 3; vs] =>
      match jints vs with Some l => Some (local k seed l, l) | None => None end
  | _ => None
  end.

(* ---------------------------------------------------------------- the check *)
Definition check_C14 (kind : string) (input output : J) : verdict :=
  if String.eqb kind "g" then
    match input, output with
    | JL [JI entry; jk; js; JI mode; jd], JL [JS "ok"; r1; r2] =>
        match dec_k jk, dec_seed js, jints jd with
        | Some kz, Some seed, Some data =>
            let k := clamp_k kz (List.length data) in
            let m := model_g entry k seed mode data in
            ok_verdict (jeqb r1 m && jeqb r2 m)
                       (prop_g entry k data r1 && prop_g entry k data r2 && jeqb r1 r2)
        | _, _, _ => malformed
        end
    | JL [JI _; _; _; JI _; _], _ => ok_verdict false false      (* err / panic *)
    | _, _ => malformed
    end
  else if String.eqb kind "k" then
    match input, output with
    | JL [JI entry; jk; js; JI mode; jd], JL [JS "ok"; r1; r2] =>
        match dec_k jk, dec_seed js, dec_pairs jd with
        | Some kz, Some seed, Some data =>
            let k := clamp_k kz (List.length data) in
            let m := model_k entry k seed mode data in
            ok_verdict (jeqb r1 m && jeqb r2 m)
                       (prop_k entry k data r1 && prop_k entry k data r2 && jeqb r1 r2)
        | _, _, _ => malformed
        end
    | JL [JI _; _; _; JI _; _], _ => ok_verdict false false
    | _, _ => malformed
    end
  else if String.eqb kind "cmpg" then
    match input, output with
    | JL [JI entry; jk; js; JI m1; JI m2; jd], JL [JS "ok"; o1; o2] =>
        match dec_k jk, dec_seed js, jints jd with
        | Some kz, Some seed, Some data =>
            let k := clamp_k kz (List.length data) in
            let agree := jeqb o1 (model_g entry k seed m1 data) &&
                         jeqb o2 (model_g entry k seed m2 data) in
            let same := match canon_g entry o1, canon_g entry o2 with
                        | Some a, Some b => canon_eqb a b
                        | _, _ => false
                        end in
            V agree same (cmp_known k m1 m2 (map (fun v => (0, v)) data)) false
        | _, _, _ => malformed
        end
    | JL [JI _; _; _; JI _; JI _; _], _ => ok_verdict false false
    | _, _ => malformed
    end
  else if String.eqb kind "cmpk" then
    match input, output with
    | JL [JI entry; jk; js; JI m1; JI m2; jd], JL [JS "ok"; o1; o2] =>
        match dec_k jk, dec_seed js, dec_pairs jd with
        | Some kz, Some seed, Some data =>
            let k := clamp_k kz (List.length data) in
            let agree := jeqb o1 (model_k entry k seed m1 data) &&
                         jeqb o2 (model_k entry k seed m2 data) in
            let same := match canon_k entry o1, canon_k entry o2 with
                        | Some a, Some b => canon_eqb a b
                        | _, _ => false
                        end in
            V agree same (cmp_known k m1 m2 data) false
        | _, _, _ => malformed
        end
    | JL [JI _; _; _; JI _; JI _; _], _ => ok_verdict false false
    | _, _ => malformed
    end
  else if String.eqb kind "expr" then
    match input, output with
    | JL [jk; js; e], JL [JS "ok"; o] =>
        match dec_k jk, dec_seed js with
        | Some kz, Some seed =>
            (* the consumed values do not depend on k: evaluate once with k = 0 to count them *)
            match eval_expr 0 seed e with
            | Some (_, m0) =>
                let k := clamp_k kz (List.length m0) in
                match eval_expr k seed e, jints o with
                | Some (a, m), Some s => ok_verdict (zlist_eqb s (finish a)) (good_sample k m s)
                | _, _ => malformed
                end
            | None => malformed
            end
        | _, _ => malformed
        end
    | JL [_; _; _], _ => ok_verdict false false
    | _, _ => malformed
    end
  else malformed.
