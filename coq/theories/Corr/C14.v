(* Correspondence for C14: runs the model of src/combiners/sampling.rs + the engine's way of driving
   it (Combiners/Reservoir.v) on the cases harness/src/bin/c14.rs ran through the real public API,
   and decides inside Coq (1) agreement: the observed sample is EXACTLY the one the model predicts
   (bit-exact random stream, order included; across keys the harness sorts by key), and (2) the
   property instance on the OBSERVED outcome against an independent reference: size = min k n,
   sub-multiset of the input (per key for the keyed entry points), the two runs of the same
   pipeline are identical (reproducibility), and for the "cmp" kinds the samples of two
   partitionings are the same multiset (the documented mode stability; known finding
   C14-mode-instability, class decided by [cmp_known]). *)
From Coq Require Import List ZArith NArith Arith Bool String.
From Coq Require Uint63.
From IB Require Import Util.J Combiners.Reservoir Combiners.ReservoirTopK.
Import ListNotations.
Open Scope Z_scope.

(* ---------------------------------------------------------------- generic helpers *)
Fixpoint jeqb (a b : J) : bool :=
  match a, b with
  | JI x, JI y => Z.eqb x y
  | JB x, JB y => Bool.eqb x y
  | JN, JN => true
  | JS s, JS t => String.eqb s t
  | JL l, JL m =>
      (fix go (l m : list J) : bool :=
         match l, m with
         | [], [] => true
         | x :: l', y :: m' => jeqb x y && go l' m'
         | _, _ => false
         end) l m
  | _, _ => false
  end.

Definition enc_ints (l : list Z) : J := JL (map JI l).
Definition enc_pair (p : Z * Z) : J := JL [JI (fst p); JI (snd p)].
Definition enc_group (g : Z * list Z) : J := JL [JI (fst g); enc_ints (snd g)].

Definition dec_seed (j : J) : option N :=
  match j with
  | JL [JI hi; JI lo] => Some (Z.to_N hi * 4294967296 + Z.to_N lo)%N
  | _ => None
  end.
(* k: a plain integer, or [hi, lo] 32-bit halves for values that do not fit the interchange
   format (usize::MAX, 2^63, ...).  The model is run with min(k, n+1) as a (unary) nat, n = number
   of input elements: for every k > n the model's result is the same (order included) -
   Props/C14.v: c14_large_k_irrelevant / c14_large_k_irrelevant_keyed, Proofs/ReservoirBigK.v:
   expr_big_k for the expression kind. *)
Definition dec_k (j : J) : option Z :=
  match j with
  | JI z => Some z
  | JL [JI hi; JI lo] => Some (hi * 4294967296 + lo)
  | _ => None
  end.
Definition clamp_k (kz : Z) (n : nat) : nat := Z.to_nat (Z.min kz (Z.of_nat (S n))).

Definition dec_pair (j : J) : option (Z * Z) :=
  match j with JL [JI k; JI v] => Some (k, v) | _ => None end.
Definition dec_pairs (j : J) : option (list (Z * Z)) :=
  match j with JL l => omap dec_pair l | _ => None end.
Definition dec_group (j : J) : option (Z * list Z) :=
  match j with
  | JL [JI k; vs] => match jints vs with Some l => Some (k, l) | None => None end
  | _ => None
  end.
Definition dec_groups (j : J) : option (list (Z * list Z)) :=
  match j with JL l => omap dec_group l | _ => None end.
Definition dec_samples (j : J) : option (list (list Z)) :=
  match j with JL l => omap jints l | _ => None end.

(* stable insertion sort by key (the harness's `sort_by_key`, stable) *)
Fixpoint kinsert {X} (x : Z * X) (l : list (Z * X)) : list (Z * X) :=
  match l with
  | [] => [x]
  | y :: r => if fst x <=? fst y then x :: l else y :: kinsert x r
  end.
Definition ksort {X} (l : list (Z * X)) : list (Z * X) := fold_right kinsert [] l.

(* ---------------------------------------------------------------- independent reference *)
Fixpoint remove_one (x : Z) (l : list Z) : option (list Z) :=
  match l with
  | [] => None
  | y :: r => if x =? y then Some r
              else match remove_one x r with Some r' => Some (y :: r') | None => None end
  end.
(* every element of s occurs in l at least as often as in s *)
Fixpoint submultiset_b (s l : list Z) : bool :=
  match s with
  | [] => true
  | x :: s' => match remove_one x l with Some l' => submultiset_b s' l' | None => false end
  end.
Fixpoint zinsert (x : Z) (l : list Z) : list Z :=
  match l with [] => [x] | y :: r => if x <=? y then x :: l else y :: zinsert x r end.
Definition zsort (l : list Z) : list Z := fold_right zinsert [] l.
Fixpoint zlist_eqb (a b : list Z) : bool :=
  match a, b with
  | [], [] => true
  | x :: a', y :: b' => (x =? y) && zlist_eqb a' b'
  | _, _ => false
  end.
Definition multiset_eqb (a b : list Z) : bool := zlist_eqb (zsort a) (zsort b).

(* "right size, real elements only" for one sample *)
Definition good_sample (k : nat) (input sample : list Z) : bool :=
  Nat.eqb (List.length sample) (Nat.min k (List.length input)) && submultiset_b sample input.

Definition values_of (key : Z) (d : list (Z * Z)) : list Z :=
  map snd (filter (fun kv => fst kv =? key) d).
Fixpoint dedup (l : list Z) : list Z :=
  match l with
  | [] => []
  | x :: r => if existsb (Z.eqb x) r then dedup r else x :: dedup r
  end.
Definition keys_of (d : list (Z * Z)) : list Z := zsort (dedup (map fst d)).

(* per-key sample check for the output of sample_values_reservoir_vec (sorted by key): every key
   of the input exactly once, no other key, each sample good for that key's values *)
Definition good_groups (k : nat) (input : list (Z * Z)) (out : list (Z * list Z)) : bool :=
  zlist_eqb (map fst out) (keys_of input) &&
  forallb (fun g => good_sample k (values_of (fst g) input) (snd g)) out.
(* the flattened variant: group the observed pairs by key *)
Definition good_flat (k : nat) (input out : list (Z * Z)) : bool :=
  forallb (fun key => good_sample k (values_of key input) (values_of key out))
          (keys_of (input ++ out)).

(* ---------------------------------------------------------------- running the model *)
(* mode = -1: collect_seq; mode = p >= 0: collect_par(None, Some(p)) *)
Definition m_global_vec (k : nat) (seed : N) (mode : Z) (data : list Z) : list (list Z) :=
  if mode <? 0 then global_seq_vec k seed data else global_par_vec k seed (Z.to_nat mode) data.
Definition m_keyed_vec (k : nat) (seed : N) (mode : Z) (data : list (Z * Z))
  : list (Z * list Z) :=
  ksort (if mode <? 0 then keyed_seq_vec Z.eqb k seed data
         else keyed_par_vec Z.eqb k seed (Z.to_nat mode) data).

(* entry 0 = *_vec, 1 = flattened.  Result: (model output, property instance on an observed
   output, a canonical multiset form of an observed output for cross-partitioning comparison) *)
Definition model_g (entry : Z) (k : nat) (seed : N) (mode : Z) (data : list Z) : J :=
  let v := m_global_vec k seed mode data in
  if entry =? 0 then JL (map enc_ints v) else enc_ints (List.concat v).
Definition model_k (entry : Z) (k : nat) (seed : N) (mode : Z) (data : list (Z * Z)) : J :=
  let v := m_keyed_vec k seed mode data in
  if entry =? 0 then JL (map enc_group v) else JL (map enc_pair (flatten_keyed v)).

Definition prop_g (entry : Z) (k : nat) (data : list Z) (obs : J) : bool :=
  if entry =? 0 then
    match dec_samples obs with
    | Some [s] => good_sample k data s          (* exactly one element: the sample *)
    | _ => false
    end
  else match jints obs with Some s => good_sample k data s | None => false end.
Definition prop_k (entry : Z) (k : nat) (data : list (Z * Z)) (obs : J) : bool :=
  if entry =? 0 then
    match dec_groups obs with Some g => good_groups k data g | None => false end
  else match dec_pairs obs with Some f => good_flat k data f | None => false end.

(* canonical "which elements were sampled" (multiset; per key for the keyed entry points) *)
Definition canon_g (entry : Z) (obs : J) : option (list (Z * list Z)) :=
  if entry =? 0 then
    match dec_samples obs with Some [s] => Some [(0, zsort s)] | _ => None end
  else match jints obs with Some s => Some [(0, zsort s)] | None => None end.
Definition canon_k (entry : Z) (obs : J) : option (list (Z * list Z)) :=
  if entry =? 0 then
    match dec_groups obs with
    | Some g => Some (map (fun kv => (fst kv, zsort (snd kv))) g)
    | None => None
    end
  else
    match dec_pairs obs with
    | Some f => Some (map (fun key => (key, zsort (values_of key f))) (keys_of f))
    | None => None
    end.
Fixpoint canon_eqb (a b : list (Z * list Z)) : bool :=
  match a, b with
  | [], [] => true
  | (k1, v1) :: a', (k2, v2) :: b' => (k1 =? k2) && zlist_eqb v1 v2 && canon_eqb a' b'
  | _, _ => false
  end.

(* ---------------------------------------------------------------- the known-finding class
   C14-mode-instability: the samples of two DIFFERENT partitionings are compared, 0 < k, and some
   key (the whole input for the global entry points) has more than k values and is cut
   differently by the two partitionings.  [shape] = sizes of the non-empty per-partition value
   runs of one key; equal shapes give equal accumulators (same stream positions). *)
Definition parts_of {X} (mode : Z) (data : list X) : list (list X) :=
  if mode <? 0 then [data] else runner_split (Z.to_nat mode) data.
Definition shape (key : Z) (parts : list (list (Z * Z))) : list nat :=
  filter (fun n => negb (Nat.eqb n 0)) (map (fun p => List.length (values_of key p)) parts).
Fixpoint nat_list_eqb (a b : list nat) : bool :=
  match a, b with
  | [], [] => true
  | x :: a', y :: b' => Nat.eqb x y && nat_list_eqb a' b'
  | _, _ => false
  end.
Definition cmp_known (k : nat) (m1 m2 : Z) (data : list (Z * Z)) : bool :=
  Nat.ltb 0 k &&
  existsb (fun key =>
             Nat.ltb k (List.length (values_of key data)) &&
             negb (nat_list_eqb (shape key (parts_of m1 data)) (shape key (parts_of m2 data))))
          (keys_of data).

(* ---------------------------------------------------------------- direct combiner expressions *)
Fixpoint eval_expr (k : nat) (seed : N) (e : J) : option (pracc Z * list Z) :=
  match e with
  | JL [JI 0] => Some (create k seed, [])
  | JL [JI 1; e1; JI v] =>
      match eval_expr k seed e1 with
      | Some (a, m) => Some (add a v, m ++ [v])
      | None => None
      end
  | JL [JI 2; l; r] =>
      match eval_expr k seed l, eval_expr k seed r with
      | Some (a, m), Some (b, m') => Some (merge a b, m ++ m')
      | _, _ => None
      end
  | JL [JI 3; vs] =>
      match jints vs with Some l => Some (local k seed l, l) | None => None end
  | _ => None
  end.


(* ---------------------------------------------------------------- big cases: compact inputs
   (ranges) and compact observations (size + digests).  The expected sample comes from the closed
   form of Combiners/ReservoirTopK.v ([topk_fast]; Proofs/ReservoirTopK.v relates it to the
   operational model), the digests are recomputed here from that sample.

   digest of a list of values (all 0 <= v < 2^62), on primitive integers:
     d1 = fold (h * 1000003 + v mod P1 + 1) mod P1 from 7,  P1 = 2^31 - 1     (order-sensitive)
     d2 = fold (h * 2000003 + v mod P2 + 1) mod P2 from 7,  P2 = 2^31 - 19    (order-sensitive)
     ms = sum (v mod P1) mod P1,  mq = sum ((v mod P1)^2 mod P1) mod P1        (multiset) *)
Definition dP1 : Uint63.int := Uint63.of_Z 2147483647.
Definition dP2 : Uint63.int := Uint63.of_Z 2147483629.
Definition dB1 : Uint63.int := Uint63.of_Z 1000003.
Definition dB2 : Uint63.int := Uint63.of_Z 2000003.
Definition dig_step (acc : Uint63.int * Uint63.int * Uint63.int * Uint63.int) (v : Z)
  : Uint63.int * Uint63.int * Uint63.int * Uint63.int :=
  let '(d1, d2, ms, mq) := acc in
  let x := Uint63.of_Z v in
  let x1 := Uint63.mod x dP1 in
  let x2 := Uint63.mod x dP2 in
  (Uint63.mod (Uint63.add (Uint63.add (Uint63.mul d1 dB1) x1) (Uint63.of_Z 1)) dP1,
   Uint63.mod (Uint63.add (Uint63.add (Uint63.mul d2 dB2) x2) (Uint63.of_Z 1)) dP2,
   Uint63.mod (Uint63.add ms x1) dP1,
   Uint63.mod (Uint63.add mq (Uint63.mod (Uint63.mul x1 x1) dP1)) dP1).
(* (length, d1, d2, ms, mq) *)
Definition digest (l : list Z) : list Z :=
  let '(d1, d2, ms, mq) :=
    fold_left dig_step l (Uint63.of_Z 7, Uint63.of_Z 7, Uint63.of_Z 0, Uint63.of_Z 0) in
  [Z.of_N (fold_left (fun n _ => N.succ n) l 0%N);
   Uint63.to_Z d1; Uint63.to_Z d2; Uint63.to_Z ms; Uint63.to_Z mq].
Definition zlen {A} (l : list A) : Z := Z.of_N (fold_left (fun n _ => N.succ n) l 0%N).

(* start, start + step, ..: n values *)
Fixpoint zrange (n : nat) (start step : Z) : list Z :=
  match n with O => [] | S n' => start :: zrange n' (start + step) step end.
(* one segment [kmod, kbase, start, step, count]: row i = (kbase + i mod kmod, start + step * i) *)
Fixpoint seg_rows (n : nat) (i kmod kbase start step : Z) : list (Z * Z) :=
  match n with
  | O => []
  | S n' => (kbase + i mod kmod, start + step * i) :: seg_rows n' (i + 1) kmod kbase start step
  end.
Definition dec_seg (j : J) : option (list (Z * Z)) :=
  match j with
  | JL [JI kmod; JI kbase; JI start; JI step; JI count] =>
      if (1 <=? kmod) && (0 <=? count) then Some (seg_rows (Z.to_nat count) 0 kmod kbase start step)
      else None
  | _ => None
  end.
Definition dec_segs (j : J) : option (list (Z * Z)) :=
  match j with
  | JL l => match omap dec_seg l with Some rs => Some (List.concat rs) | None => None end
  | _ => None
  end.

(* one observed run of a big global case: [shape_ok, len, d1, d2, ms, mq, sub] *)
Definition dec_brow (j : J) : option (bool * list Z * bool) :=
  match j with
  | JL [JB shape; JI len; JI d1; JI d2; JI ms; JI mq; JB sub] => Some (shape, [len; d1; d2; ms; mq], sub)
  | _ => None
  end.
(* one observed key of a big keyed case: [key, len, d1, d2, ms, mq, sub] *)
Definition dec_krow (j : J) : option (Z * list Z * bool) :=
  match j with
  | JL [JI key; JI len; JI d1; JI d2; JI ms; JI mq; JB sub] => Some (key, [len; d1; d2; ms; mq], sub)
  | _ => None
  end.
Definition dec_krows (j : J) : option (list (Z * list Z * bool)) :=
  match j with JL l => omap dec_krow l | _ => None end.

(* property instance on one observed (len, digests, sub) against the input values [vs] of the
   global input / of one key: exactly min(k, n) elements; nothing invented (sub-multiset flag
   computed by the harness on the full sample); and when k >= n the sample is the whole input as a
   multiset (multiset digests recomputed from the INPUT here) *)
Definition good_digest (kz : Z) (vs : list Z) (obs : list Z) (sub : bool) : bool :=
  let n := zlen vs in
  match obs, digest vs with
  | [len; _; _; ms; mq], [_; _; _; ms0; mq0] =>
      (len =? Z.min kz n) && sub &&
      (if n <=? kz then (ms =? ms0) && (mq =? mq0) else true)
  | _, _ => false
  end.

(* the closed form must coincide with the operational model wherever both are run (small
   inputs); a difference is an inconsistency of the development, not a verdict on the code *)
Definition lists_eqb (a b : list (list Z)) : bool :=
  (fix go (a b : list (list Z)) : bool :=
     match a, b with
     | [], [] => true
     | x :: a', y :: b' => zlist_eqb x y && go a' b'
     | _, _ => false
     end) a b.
Fixpoint groups_eqb (a b : list (Z * list Z)) : bool :=
  match a, b with
  | [], [] => true
  | (k1, v1) :: a', (k2, v2) :: b' => (k1 =? k2) && zlist_eqb v1 v2 && groups_eqb a' b'
  | _, _ => false
  end.
Definition closed_ok_g (k : nat) (seed : N) (mode : Z) (data : list Z) (m : list (list Z)) : bool :=
  let parts := parts_of mode data in
  if lists_eqb m [topk_fast k seed parts] then
    (* the N-valued stream costs as much as the operational model: short inputs only *)
    if Nat.leb (List.length data) 8 then lists_eqb m [topk_spec k seed parts] else true
  else false.

(* route 0: the per-key sample is collected directly (planner lifts GroupByKey + CombineValues);
   route >= 1: it feeds a join (1 = left input of join_inner, 2 = left input of join_left,
   3 = right input of join_inner; the other side holds one row per key) *)
Definition m_keyed_route (route : Z) (k : nat) (seed : N) (mode : Z) (data : list (Z * Z))
  : list (Z * list Z) :=
  if route =? 0 then m_keyed_vec k seed mode data
  else ksort (keyed_unfused_parts Z.eqb k seed (parts_of mode data)).
Definition fast_keyed_route (route : Z) (k : nat) (seed : N) (mode : Z) (data : list (Z * Z))
  : list (Z * list Z) :=
  let parts := parts_of mode data in
  ksort (if route =? 0 then keyed_topk Z.eqb topk_fast k seed parts
         else keyed_topk_unfused Z.eqb topk_fast k seed parts).

Definition closed_ok_k (route : Z) (k : nat) (seed : N) (mode : Z) (data : list (Z * Z))
           (m : list (Z * list Z)) : bool :=
  if groups_eqb m (fast_keyed_route route k seed mode data) then
    if Nat.leb (List.length data) 8 then
      groups_eqb m (ksort (let parts := parts_of mode data in
                           if route =? 0 then keyed_topk Z.eqb topk_spec k seed parts
                           else keyed_topk_unfused Z.eqb topk_spec k seed parts))
    else true
  else false.

Fixpoint krows_agree (entry : Z) (exp : list (Z * list Z)) (obs : list (Z * list Z * bool)) : bool :=
  match exp with
  | [] => match obs with [] => true | _ => false end
  | (key, s) :: exp' =>
      (* the flattened form has no row for a key whose sample is empty *)
      match s, entry =? 0 with
      | [], false => krows_agree entry exp' obs
      | _, _ =>
          match obs with
          | (key', d, _) :: obs' => (key =? key') && zlist_eqb d (digest s) && krows_agree entry exp' obs'
          | [] => false
          end
      end
  end.
Fixpoint krows_good (entry kz : Z) (data : list (Z * Z)) (keys : list Z)
         (obs : list (Z * list Z * bool)) : bool :=
  match keys with
  | [] => match obs with [] => true | _ => false end
  | key :: keys' =>
      let vs := values_of key data in
      match obs with
      | (key', d, sub) :: obs' =>
          if key =? key' then good_digest kz vs d sub && krows_good entry kz data keys' obs'
          else negb (entry =? 0) && (Z.min kz (zlen vs) =? 0) && krows_good entry kz data keys' obs
      | [] => negb (entry =? 0) && (Z.min kz (zlen vs) =? 0) && krows_good entry kz data keys' obs
      end
  end.
Fixpoint krows_eqb (a b : list (Z * list Z * bool)) : bool :=
  match a, b with
  | [], [] => true
  | (k1, d1, s1) :: a', (k2, d2, s2) :: b' =>
      (k1 =? k2) && zlist_eqb d1 d2 && Bool.eqb s1 s2 && krows_eqb a' b'
  | _, _ => false
  end.

(* distinct keys, ascending (vm_compute is call-by-value: [existsb] does not stop early, so the
   scan is written with an explicit conditional) *)
Fixpoint zmem (x : Z) (l : list Z) : bool :=
  match l with [] => false | y :: r => if x =? y then true else zmem x r end.
Definition keys_big (d : list (Z * Z)) : list Z :=
  zsort (fold_left (fun acc kv => if zmem (fst kv) acc then acc else fst kv :: acc) d []).

(* the primitive-integer stream of [topk_fast] against the N-valued stream of the model, at a few
   positions spread over the whole length (jump-ahead: Props/C14.v c14_stream_jump_ahead) *)
Definition stream_spot_ok (seed : N) (n : nat) : bool :=
  let st := stream_state0 seed in
  let ws := w_stream n (w_of_N st) in
  forallb (fun j => match nth_error ws j with
                    | Some p => N.eqb (Z.to_N (Uint63.to_Z p)) (prio_at st (N.of_nat j))
                    | None => Nat.leb n j
                    end)
          [0; 1; 2; n / 7; n / 3; n / 2; (2 * n) / 3; n - 2; n - 1]%nat.

(* inputs up to this size are also run through the operational model *)
Definition small_limit : nat := 40.

(* ---------------------------------------------------------------- the check *)
Definition check_C14 (kind : string) (input output : J) : verdict :=
  if String.eqb kind "g" then
    match input, output with
    | JL [JI entry; jk; js; JI mode; jd], JL [JS "ok"; r1; r2] =>
        match dec_k jk, dec_seed js, jints jd with
        | Some kz, Some seed, Some data =>
            let k := clamp_k kz (List.length data) in
            let mv := m_global_vec k seed mode data in
            let m := if entry =? 0 then JL (map enc_ints mv) else enc_ints (List.concat mv) in
            if negb (closed_ok_g k seed mode data mv) then malformed else
            ok_verdict (jeqb r1 m && jeqb r2 m)
                       (prop_g entry k data r1 && prop_g entry k data r2 && jeqb r1 r2)
        | _, _, _ => malformed
        end
    | JL [JI _; _; _; JI _; _], _ => ok_verdict false false      (* err / panic *)
    | _, _ => malformed
    end
  else if String.eqb kind "k" then
    match input, output with
    | JL [JI entry; jk; js; JI mode; jd], JL [JS "ok"; r1; r2] =>
        match dec_k jk, dec_seed js, dec_pairs jd with
        | Some kz, Some seed, Some data =>
            let k := clamp_k kz (List.length data) in
            let mv := m_keyed_vec k seed mode data in
            let m := if entry =? 0 then JL (map enc_group mv)
                     else JL (map enc_pair (flatten_keyed mv)) in
            if negb (closed_ok_k 0 k seed mode data mv) then malformed else
            ok_verdict (jeqb r1 m && jeqb r2 m)
                       (prop_k entry k data r1 && prop_k entry k data r2 && jeqb r1 r2)
        | _, _, _ => malformed
        end
    | JL [JI _; _; _; JI _; _], _ => ok_verdict false false
    | _, _ => malformed
    end
  else if String.eqb kind "cmpg" then
    match input, output with
    | JL [JI entry; jk; js; JI m1; JI m2; jd], JL [JS "ok"; o1; o2] =>
        match dec_k jk, dec_seed js, jints jd with
        | Some kz, Some seed, Some data =>
            let k := clamp_k kz (List.length data) in
            let agree := jeqb o1 (model_g entry k seed m1 data) &&
                         jeqb o2 (model_g entry k seed m2 data) in
            let same := match canon_g entry o1, canon_g entry o2 with
                        | Some a, Some b => canon_eqb a b
                        | _, _ => false
                        end in
            V agree same (cmp_known k m1 m2 (map (fun v => (0, v)) data)) false
        | _, _, _ => malformed
        end
    | JL [JI _; _; _; JI _; JI _; _], _ => ok_verdict false false
    | _, _ => malformed
    end
  else if String.eqb kind "cmpk" then
    match input, output with
    | JL [JI entry; jk; js; JI m1; JI m2; jd], JL [JS "ok"; o1; o2] =>
        match dec_k jk, dec_seed js, dec_pairs jd with
        | Some kz, Some seed, Some data =>
            let k := clamp_k kz (List.length data) in
            let agree := jeqb o1 (model_k entry k seed m1 data) &&
                         jeqb o2 (model_k entry k seed m2 data) in
            let same := match canon_k entry o1, canon_k entry o2 with
                        | Some a, Some b => canon_eqb a b
                        | _, _ => false
                        end in
            V agree same (cmp_known k m1 m2 data) false
        | _, _, _ => malformed
        end
    | JL [JI _; _; _; JI _; JI _; _], _ => ok_verdict false false
    | _, _ => malformed
    end
  else if String.eqb kind "j" then
    (* per-key sample through a join (or route 0: directly), explicit rows, bit-exact *)
    match input, output with
    | JL [JI entry; jk; js; JI mode; JI route; jd], JL [JS "ok"; r1; r2] =>
        match dec_k jk, dec_seed js, dec_pairs jd with
        | Some kz, Some seed, Some data =>
            let k := clamp_k kz (List.length data) in
            let mv := m_keyed_route route k seed mode data in
            let m := if entry =? 0 then JL (map enc_group mv)
                     else JL (map enc_pair (flatten_keyed mv)) in
            if negb (closed_ok_k route k seed mode data mv) then malformed else
            ok_verdict (jeqb r1 m && jeqb r2 m)
                       (prop_k entry k data r1 && prop_k entry k data r2 && jeqb r1 r2)
        | _, _, _ => malformed
        end
    | JL [JI _; _; _; JI _; JI _; _], _ => ok_verdict false false
    | _, _ => malformed
    end
  else if String.eqb kind "bg" then
    match input, output with
    | JL [JI entry; jk; js; JI mode; JL [JI start; JI step; JI n]], JL [JS "ok"; o1; o2] =>
        match dec_k jk, dec_seed js, dec_brow o1, dec_brow o2 with
        | Some kz, Some seed, Some (sh1, d1, sub1), Some (sh2, d2, sub2) =>
            if (n <? 0) || (start <? 0) || (step <? 0) then malformed else
            let data := zrange (Z.to_nat n) start step in
            let k := clamp_k kz (Z.to_nat n) in
            let parts := parts_of mode data in
            let s := topk_fast k seed parts in
            if (if Nat.leb (Z.to_nat n) small_limit
                then negb (closed_ok_g k seed mode data (m_global_vec k seed mode data)) else false)
            then malformed else
            if negb (stream_spot_ok seed (Z.to_nat n)) then malformed else
            let e := digest s in
            ok_verdict (sh1 && sh2 && zlist_eqb d1 e && zlist_eqb d2 e)
                       (sh1 && sh2 && good_digest kz data d1 sub1 && good_digest kz data d2 sub2 &&
                        zlist_eqb d1 d2)
        | _, _, _, _ => malformed
        end
    | JL [JI _; _; _; JI _; JL [JI _; JI _; JI _]], _ => ok_verdict false false
    | _, _ => malformed
    end
  else if String.eqb kind "bk" then
    match input, output with
    | JL [JI entry; jk; js; JI mode; JI route; jsegs], JL [JS "ok"; o1; o2] =>
        match dec_k jk, dec_seed js, dec_segs jsegs, dec_krows o1, dec_krows o2 with
        | Some kz, Some seed, Some data, Some rows1, Some rows2 =>
            let n := fold_left (fun n _ => S n) data O in
            let k := clamp_k kz n in
            if (if Nat.leb n small_limit
                then negb (closed_ok_k route k seed mode data (m_keyed_route route k seed mode data))
                else false)
            then malformed else
            if negb (stream_spot_ok seed n) then malformed else
            let e := fast_keyed_route route k seed mode data in
            let keys := keys_big data in
            ok_verdict (krows_agree entry e rows1 && krows_agree entry e rows2)
                       (krows_good entry kz data keys rows1 && krows_good entry kz data keys rows2 &&
                        krows_eqb rows1 rows2)
        | _, _, _, _, _ => malformed
        end
    | JL [JI _; _; _; JI _; JI _; _], _ => ok_verdict false false
    | _, _ => malformed
    end
  else if String.eqb kind "expr" then
    match input, output with
    | JL [jk; js; e], JL [JS "ok"; o] =>
        match dec_k jk, dec_seed js with
        | Some kz, Some seed =>
            (* the consumed values do not depend on k: evaluate once with k = 0 to count them *)
            match eval_expr 0 seed e with
            | Some (_, m0) =>
                let k := clamp_k kz (List.length m0) in
                match eval_expr k seed e, jints o with
                | Some (a, m), Some s => ok_verdict (zlist_eqb s (finish a)) (good_sample k m s)
                | _, _ => malformed
                end
            | None => malformed
            end
        | _, _ => malformed
        end
    | JL [_; _; _], _ => ok_verdict false false
    | _, _ => malformed
    end
  else malformed.
