(* Correspondence for C15: runs the FLOAT instance of the t-digest model and the KMV model on the
   cases the harness ran on the real code (harness/src/bin/c15.rs) and decides, inside Coq,
   agreement (bit for bit) and the property instance (against references that do not use the
   model). Imports the Flocq bridge (for f64::mul_add), hence classical-reals axioms are in scope
   here; nothing in this file is a theorem. *)
From Coq Require Import List ZArith Bool String Floats Uint63.
From IB Require Import Util.J Combiners.TDigest Combiners.TDigestFloat Combiners.KMV.
Import ListNotations.
Open Scope Z_scope.

(* ------------------------------------------------------------------ float helpers *)
Definition fnan (x : float) : bool := PrimFloat.is_nan x.
(* same bit pattern (any NaN equals any NaN: the payload is not specified by IEEE arithmetic) *)
Definition fsame (a b : float) : bool :=
  if fnan a then fnan b
  else PrimFloat.eqb a b && Bool.eqb (PrimFloat.get_sign a) (PrimFloat.get_sign b).
Definition feq (a b : float) : bool := PrimFloat.eqb a b.
Definition fle (a b : float) : bool := PrimFloat.leb a b.
Definition flt (a b : float) : bool := PrimFloat.ltb a b.
Definition fofZ (z : Z) : float := PrimFloat.of_uint63 (Uint63.of_Z z).
Definition fofnat (n : nat) : float := fofZ (Z.of_nat n).

Fixpoint all2 {A B} (f : A -> B -> bool) (l : list A) (m : list B) : bool :=
  match l, m with
  | [], [] => true
  | x :: l', y :: m' => f x y && all2 f l' m'
  | _, _ => false
  end.
Definition fsames := all2 fsame.

(* ------------------------------------------------------------------ decoding *)
Definition jf (j : J) : option float := match j with JF f => Some f | _ => None end.
Definition jfs (j : J) : option (list float) :=
  match j with JL l => omap jf l | _ => None end.
Definition jfpair (j : J) : option (float * float) :=
  match j with JL [JF a; JF b] => Some (a, b) | _ => None end.
Definition jfpairs (j : J) : option (list (float * float)) :=
  match j with JL l => omap jfpair l | _ => None end.

Definition padds (p : prog float) (vs : list float) : prog float := fold_left PAdd vs p.
Definition paddws (p : prog float) (vws : list (float * float)) : prog float :=
  fold_left (fun p vw => PAddW p (fst vw) (snd vw)) vws p.

Fixpoint dec_prog (fuel : nat) (j : J) : option (prog float) :=
  match fuel with
  | O => None
  | S fuel' =>
      match j with
      | JL [JS tag; JF c] => if String.eqb tag "new" then Some (PNew c) else None
      | JL [JS tag; a; b] =>
          if String.eqb tag "add" then
            match dec_prog fuel' a, jfs b with Some p, Some vs => Some (padds p vs) | _, _ => None end
          else if String.eqb tag "addw" then
            match dec_prog fuel' a, jfpairs b with
            | Some p, Some vws => Some (paddws p vws) | _, _ => None end
          else if String.eqb tag "merge" then
            match dec_prog fuel' a, dec_prog fuel' b with
            | Some p, Some q => Some (PMerge p q) | _, _ => None end
          else if String.eqb tag "group" || String.eqb tag "groupm" then
            match jf a, jfs b with
            | Some c, Some vs => Some (PCompress (padds (PNew c) vs)) | _, _ => None end
          else None
      | _ => None
      end
  end.

(* every (value, weight) a program adds, in some order *)
Fixpoint prog_adds (p : prog float) : list (float * float) :=
  match p with
  | PNew _ => []
  | PAdd p v => (v, 1%float) :: prog_adds p
  | PAddW p v w => (v, w) :: prog_adds p
  | PMerge a b => prog_adds a ++ prog_adds b
  | PCompress p => prog_adds p
  end.

(* ------------------------------------------------------------------ reference facts
   (computed from the raw inputs only; none of the model's functions is used) *)
Definition finite_adds (l : list (float * float)) : list (float * float) :=
  filter (fun vw => fis_finite (fst vw)) l.
Definition ref_lo (l : list (float * float)) : float :=
  fold_left (fun m vw => if flt (fst vw) m then fst vw else m) l infinity.
Definition ref_hi (l : list (float * float)) : float :=
  fold_left (fun m vw => if flt m (fst vw) then fst vw else m) l neg_infinity.
Definition ref_wsum (l : list (float * float)) : float :=
  fold_left (fun s vw => PrimFloat.add s (snd vw)) l 0%float.

(* one estimate e for the requested q, data range [lo, hi] *)
Definition est_ok (lo hi q e : float) : bool :=
  negb (fnan e) && fle lo e && fle e hi
  && (if fle q 0%float then feq e lo else true)
  && (if fle 1%float q then feq e hi else true).
Definition ests_ok (nonempty : bool) (lo hi : float) (qs es : list float) : bool :=
  if nonempty then all2 (est_ok lo hi) qs es
  else all2 (fun _ e => fnan e) qs es.

(* ------------------------------------------------------------------ t-digest: "td", "tdx" *)
Definition dec_state (j : J)
  : option (list (float * float) * float * float * float * float) :=
  match j with
  | JL [cs; JF total; JF mn; JF mx; JF comp] =>
      match jfpairs cs with Some l => Some (l, total, mn, mx, comp) | None => None end
  | _ => None
  end.

Definition state_same (d : digest float) (cs : list (float * float)) (total mn mx comp : float) :=
  all2 (fun a b => fsame (fst a) (fst b) && fsame (snd a) (snd b)) (d_cents d) cs
  && fsame (d_total d) total && fsame (d_min d) mn && fsame (d_max d) mx
  && fsame (d_comp d) comp.

Definition check_td (agreement_required prop_required : bool) (input output : J) : verdict :=
  match input, output with
  | JL [jp; jqs; jxs],
    JL [JS okt; JL [jst; jdirect; jcdfs; JF count; JB empty; jfin; JF med]] =>
      match dec_prog 200 jp, jfs jqs, jfs jxs, dec_state jst, jfs jdirect, jfs jcdfs, jfs jfin with
      | Some p, Some qs, Some xs, Some (cs, total, mn, mx, comp), Some direct, Some cdfs,
        Some fin =>
          if negb (String.eqb okt "ok") then ok_verdict false false else
          let d := run farith p in
          let agree :=
            state_same d cs total mn mx comp
            && fsames (td_quantiles farith d qs) direct
            && fsames (map (td_cdf farith d) xs) cdfs
            && fsame (td_count d) count
            && Bool.eqb (td_is_empty farith d) empty
            && fsames (aq_finish farith qs d) fin
            && fsame (am_finish farith d) med in
          (* property instance on the OBSERVED values *)
          let adds := finite_adds (prog_adds p) in
          let nonempty := negb (Nat.eqb (List.length adds) 0) in
          let lo := ref_lo adds in
          let hi := ref_hi adds in
          let prop :=
            ests_ok nonempty lo hi qs direct
            && ests_ok nonempty lo hi qs fin
            && ests_ok nonempty lo hi [0.5%float] [med]
            && feq count (ref_wsum adds)
            && Bool.eqb empty (negb nonempty)
            && (if nonempty
                then feq mn lo && feq mx hi
                     && forallb (fun c => fle lo (fst c) && fle (fst c) hi) cs
                     && all2 (fun x c => (if flt x lo then feq c 0%float else true)
                                         && (if fle hi x then feq c 1%float else true)) xs cdfs
                else Nat.eqb (List.length cs) 0 && forallb (fun c => feq c 0%float) cdfs) in
          ok_verdict (if agreement_required then agree else true)
                     (if prop_required then prop else true)
      | _, _, _, _, _, _, _ => malformed
      end
  | _, _ => malformed
  end.

(* ------------------------------------------------------------------ monotonicity: "mono"
   KNOWN FINDING C15-quantile-not-monotone: class = the digest has >= 2 centroids. *)
Fixpoint nondecreasing (l : list float) : bool :=
  match l with
  | a :: ((b :: _) as r) => negb (flt b a) && nondecreasing r
  | _ => true
  end.

Definition check_mono (input output : J) : verdict :=
  match input, output with
  | JL [jp; jqs], JL [JS okt; JL [jdirect; jfin]] =>
      match dec_prog 200 jp, jfs jqs, jfs jdirect, jfs jfin with
      | Some p, Some qs, Some direct, Some fin =>
          if negb (String.eqb okt "ok") then ok_verdict false false else
          let d := run farith p in
          let agree := fsames (td_quantiles farith d qs) direct
                       && fsames (aq_finish farith qs d) fin in
          let prop := nondecreasing direct && nondecreasing fin in
          V agree prop (Nat.leb 2 (List.length (d_cents d))) false
      | _, _, _, _ => malformed
      end
  | _, _ => malformed
  end.

(* ------------------------------------------------------------------ pipelines: "pipe"
   The runner's partitioning, transcribed from src/type_token.rs (VecOpsImpl::split) and
   src/runner.rs (exec_seq / exec_par, arms CombineGlobal and CombineValues). *)
Fixpoint chunks_fuel {A} (fuel : nat) (n : nat) (l : list A) : list (list A) :=
  match fuel, l with
  | _, [] => []
  | O, _ => [l]
  | S f, _ => firstn n l :: chunks_fuel f n (skipn n l)
  end.
Definition chunks {A} (n : nat) (l : list A) : list (list A) :=
  chunks_fuel (List.length l) (Nat.max n 1) l.
Definition div_ceil (a b : nat) : nat := (a + b - 1) / b.
(* VecOpsImpl::split *)
Definition split_vec {A} (l : list A) (n : nat) : list (list A) :=
  if (n <=? 1)%nat || (List.length l <=? 1)%nat then [l]
  else chunks (div_ceil (List.length l) n) l.
(* exec_par: parts = partitions.max(1).min(total_len.max(1)); parts = 0 encodes collect_seq *)
Definition source_parts {A} (l : list A) (parts : nat) : list (list A) :=
  if (parts =? 0)%nat then [l]
  else split_vec l (Nat.min (Nat.max parts 1) (Nat.max (List.length l) 1)).

Definition merge_all (accs : list (digest float)) (c : float) : digest float :=
  match accs with
  | [] => td_new farith c
  | first :: rest => fold_left (td_merge farith) rest first
  end.
(* the fan-out loop of the CombineGlobal arm of exec_par *)
Fixpoint fan_merge (fuel : nat) (f : nat) (accs : list (digest float)) (c : float)
  : list (digest float) :=
  match fuel with
  | O => accs
  | S fuel' =>
      if (List.length accs <=? 1)%nat then accs
      else if (f =? 0)%nat then [merge_all accs c]
      else fan_merge fuel' f (map (fun g => merge_all g c) (chunks (Nat.max f 2) accs)) c
  end.
Definition global_acc (lifted : bool) (c : float) (vals : list float) (parts fan : nat)
  : digest float :=
  let local vs := if lifted then aq_build farith c vs
                  else fold_left (td_add farith) vs (td_new farith c) in
  merge_all (fan_merge 64 fan (map local (source_parts vals parts)) c) c.

Fixpoint zinsert_u (x : Z) (l : list Z) : list Z :=
  match l with
  | [] => [x]
  | y :: r => if x <? y then x :: l else if x =? y then l else y :: zinsert_u x r
  end.
Definition zkeys (l : list Z) : list Z := fold_right zinsert_u [] l.

(* CombineValues: per key, a fresh accumulator absorbs the key's accumulator of every partition
   in which the key occurs, in partition order *)
Definition values_acc (c : float) (kvs : list (Z * float)) (parts : nat) (k : Z) : digest float :=
  fold_left
    (fun acc part =>
       match filter (fun kv => fst kv =? k) part with
       | [] => acc
       | mine => td_merge farith acc
                   (fold_left (td_add farith) (map snd mine) (td_new farith c))
       end)
    (source_parts kvs parts) (td_new farith c).

Definition dec_kv (j : J) : option (Z * float) :=
  match j with JL [JI k; JF v] => Some (k, v) | _ => None end.
Definition dec_kres (j : J) : option (Z * list float) :=
  match j with JL [JI k; vs] => match jfs vs with Some l => Some (k, l) | None => None end
  | _ => None end.

Definition range_prop (vals : list float) (qs es : list float) : bool :=
  let adds := finite_adds (map (fun v => (v, 1%float)) vals) in
  ests_ok (negb (Nat.eqb (List.length adds) 0)) (ref_lo adds) (ref_hi adds) qs es.

Definition check_pipe (input output : J) : verdict :=
  match input, output with
  | JL [JS variant; JF c; jdata; jqs; JI parts; JI fan], JL [JS okt; jres] =>
      if negb (String.eqb okt "ok") then ok_verdict false false else
      let parts := Z.to_nat parts in
      let fan := Z.to_nat fan in
      match jfs jqs with
      | None => malformed
      | Some qs =>
          if String.eqb variant "glob" || String.eqb variant "globl" then
            match jfs jdata, jfs jres with
            | Some vals, Some res =>
                let acc := global_acc (String.eqb variant "globl") c vals parts fan in
                ok_verdict (fsames (aq_finish farith qs acc) res) (range_prop vals qs res)
            | _, _ => malformed
            end
          else if String.eqb variant "med" then
            match jfs jdata, jfs jres with
            | Some vals, Some res =>
                let acc := global_acc false c vals parts fan in
                ok_verdict (fsames [am_finish farith acc] res)
                           (range_prop vals [0.5%float] res)
            | _, _ => malformed
            end
          else if String.eqb variant "vals" || String.eqb variant "gbkl" then
            match jdata, jres with
            | JL ld, JL lr =>
                match omap dec_kv ld, omap dec_kres lr with
                | Some kvs, Some res =>
                    let keys := zkeys (map fst kvs) in
                    ok_verdict
                      (all2 (fun k r => (k =? fst r)
                                        && fsames (aq_finish farith qs (values_acc c kvs parts k))
                                                  (snd r)) keys res)
                      (all2 (fun k r => (k =? fst r)
                                        && range_prop (map snd (filter (fun kv => fst kv =? k) kvs))
                                                      qs (snd r)) keys res)
                | _, _ => malformed
                end
            | _, _ => malformed
            end
          else malformed
      end
  | _, _ => malformed
  end.

(* ------------------------------------------------------------------ sampled rank error: "stat"
   values are a permutation of 0..n-1, so the true rank of an estimate e is e itself and the
   exact q-quantile is q*(n-1). Statistical claim ("small rank error for large inputs"): sampled,
   not proved. Stated tolerance: |estimate - exact| <= 1% of n, for n >= 10^4. *)
Definition stat_values (n a b : Z) : list float :=
  map (fun i => fofZ ((a * Z.of_nat i + b) mod n)) (seq 0 (Z.to_nat n)).
Definition rank_err_ok (n : Z) (q e : float) : bool :=
  let nf := fofZ n in
  let exact := PrimFloat.mul q (PrimFloat.sub nf 1%float) in
  fle (PrimFloat.abs (PrimFloat.sub e exact)) (PrimFloat.mul 0.01%float nf).

Definition check_stat (input output : J) : verdict :=
  match input, output with
  | JL [JF c; JI n; JI a; JI b; JI parts; jqs], JL [JS okt; jres] =>
      match jfs jqs, jfs jres with
      | Some qs, Some res =>
          if negb (String.eqb okt "ok") then ok_verdict false false else
          let agree :=
            if n <=? 2000 then
              let vals := stat_values n a b in
              let csize := Nat.max (div_ceil (List.length vals) (Nat.max (Z.to_nat parts) 1)) 1 in
              let accs := map (fun vs => fold_left (td_add farith) vs (td_new farith c))
                              (chunks csize vals) in
              fsames (aq_finish farith qs (merge_all accs c)) res
            else true in
          let prop := all2 (est_ok 0%float (fofZ (n - 1))) qs res
                      && (if 10000 <=? n then all2 (rank_err_ok n) qs res else true) in
          ok_verdict agree prop
      | _, _ => malformed
      end
  | _, _ => malformed
  end.

(* ------------------------------------------------------------------ KMV *)
Definition kltb := PrimFloat.ltb.
Definition keqb := PrimFloat.eqb.
Definition kmv_float (o : kmv_out float) : float :=
  match o with
  | KCount m => fofnat m
  | KEstimate k rk => PrimFloat.div (PrimFloat.sub (fofnat k) 1%float) rk
  end.

(* reference: merge sort (independent of the model's insertion functions) *)
Fixpoint fmerge (a : list float) : list float -> list float :=
  match a with
  | [] => fun b => b
  | x :: a' =>
      fix inner (b : list float) : list float :=
        match b with
        | [] => a
        | y :: b' => if flt y x then y :: inner b' else x :: fmerge a' b
        end
  end.
Fixpoint fpairs (l : list (list float)) : list (list float) :=
  match l with
  | a :: b :: r => fmerge a b :: fpairs r
  | _ => l
  end.
Fixpoint fmsort_fuel (fuel : nat) (l : list (list float)) : list float :=
  match fuel, l with
  | _, [] => []
  | _, [a] => a
  | O, a :: _ => a
  | S f, _ => fmsort_fuel f (fpairs l)
  end.
Definition fmsort (l : list float) : list float := fmsort_fuel 64 (map (fun x => [x]) l).
Fixpoint fdedup (l : list float) : list float :=
  match l with
  | a :: ((b :: _) as r) => if feq a b then fdedup r else a :: fdedup r
  | _ => l
  end.

Fixpoint zmerge (a : list Z) : list Z -> list Z :=
  match a with
  | [] => fun b => b
  | x :: a' =>
      fix inner (b : list Z) : list Z :=
        match b with
        | [] => a
        | y :: b' => if y <? x then y :: inner b' else x :: zmerge a' b
        end
  end.
Fixpoint zpairs (l : list (list Z)) : list (list Z) :=
  match l with
  | a :: b :: r => zmerge a b :: zpairs r
  | _ => l
  end.
Fixpoint zmsort_fuel (fuel : nat) (l : list (list Z)) : list Z :=
  match fuel, l with
  | _, [] => []
  | _, [a] => a
  | O, a :: _ => a
  | S f, _ => zmsort_fuel f (zpairs l)
  end.
Fixpoint zdedup (l : list Z) : list Z :=
  match l with
  | a :: ((b :: _) as r) => if a =? b then zdedup r else a :: zdedup r
  | _ => l
  end.
Definition zdistinct (l : list Z) : nat :=
  List.length (zdedup (zmsort_fuel 64 (map (fun x => [x]) l))).

(* the property instance for one estimate: elements (ids), their ranks, requested k, estimate.
   d < max k 4: exact.  Otherwise the estimate is (k'-1)/(k'-th smallest distinct rank) -- which
   depends on the SET of elements only, hence not on duplicates, order or partitioning -- and,
   for k' >= 64 (sampled statistical claim), within 6/sqrt(k'-2) relative error of d. *)
Definition kmv_prop (k : nat) (elems : list Z) (ranks : list float) (est : float) : bool :=
  let k' := Nat.max k 4 in
  let d := zdistinct elems in
  let sr := fdedup (fmsort ranks) in
  Nat.eqb (List.length sr) d && Nat.eqb (List.length elems) (List.length ranks)
  && (if (d <? k')%nat then feq est (fofnat d)
      else match nth_error sr (k' - 1) with
           | Some r =>
               fsame est (PrimFloat.div (PrimFloat.sub (fofnat k') 1%float) r)
               && (if (64 <=? k')%nat then
                     let df := fofnat d in
                     fle (PrimFloat.abs (PrimFloat.sub est df))
                         (PrimFloat.mul df (PrimFloat.div 6%float
                            (PrimFloat.sqrt (PrimFloat.sub (fofnat k') 2%float))))
                   else true)
           | None => false
           end).

Definition dec_part (j : J) : option (bool * list Z) :=
  match j with
  | JL [JI lifted; es] => match jints es with Some l => Some (lifted =? 1, l) | None => None end
  | _ => None
  end.

Fixpoint kmv_tree (fuel : nat) (accs : list (kmv float)) (k : nat) : kmv float :=
  match fuel with
  | O => kmv_new k
  | S f =>
      match accs with
      | [] => kmv_new k
      | [a] => a
      | _ =>
          let h := Nat.div2 (List.length accs) in
          merge_from kltb keqb (kmv_tree f (firstn h accs) k) (kmv_tree f (skipn h accs) k)
      end
  end.

Definition kmv_shape (shape : Z) (accs : list (kmv float)) (k : nat) : kmv float :=
  if shape =? 0 then
    match accs with [] => kmv_new k | a :: r => fold_left (merge_from kltb keqb) r a end
  else if shape =? 1 then
    match rev accs with
    | [] => kmv_new k
    | a :: r => fold_left (fun a o => merge_from kltb keqb o a) r a
    end
  else kmv_tree 64 accs k.

Definition check_kmv (input output : J) : verdict :=
  match input, output with
  | JL [JI k; JI shape; JL jparts], JL [JS okt; JL [JF est; JL jranks]] =>
      match omap dec_part jparts, omap jfs jranks with
      | Some parts, Some ranks =>
          if negb (String.eqb okt "ok") then ok_verdict false false else
          let k := Z.to_nat k in
          let accs := map (kmv_build kltb keqb k) ranks in
          let model := kmv_float (kmv_finish (kmv_shape shape accs k)) in
          ok_verdict (fsame model est && Nat.eqb (List.length parts) (List.length ranks))
                     (kmv_prop k (List.concat (map snd parts)) (List.concat ranks) est)
      | _, _ => malformed
      end
  | _, _ => malformed
  end.

(* pipelines: by c15_kmv_partition_independent the model result does not depend on how the
   runner partitions and merges, so the model is simply "all ranks into one accumulator" *)
Definition check_kmvp (input output : J) : verdict :=
  match input, output with
  | JL [JI k; jelems; JI _], JL [JS okt; JL [JF est; JL [jranks]]] =>
      match jints jelems, jfs jranks with
      | Some elems, Some ranks =>
          if negb (String.eqb okt "ok") then ok_verdict false false else
          let k := Z.to_nat k in
          let model := kmv_float (kmv_finish (kmv_build kltb keqb k ranks)) in
          ok_verdict (fsame model est) (kmv_prop k elems ranks est)
      | _, _ => malformed
      end
  | _, _ => malformed
  end.

(* big inputs: elements and ranks arrive in chunks (a single 10^5-element list literal overflows
   coqc's parser stack) *)
Definition check_kmvs (input output : J) : verdict :=
  match input, output with
  | JL [JI k; JL jchunks; JI _], JL [JS okt; JL [JF est; JL jranks]] =>
      match omap jints jchunks, omap jfs jranks with
      | Some echunks, Some rchunks =>
          if negb (String.eqb okt "ok") then ok_verdict false false else
          let k := Z.to_nat k in
          let elems := List.concat echunks in
          let ranks := List.concat rchunks in
          let model := kmv_float (kmv_finish (kmv_build kltb keqb k ranks)) in
          ok_verdict (fsame model est) (kmv_prop k elems ranks est)
      | _, _ => malformed
      end
  | _, _ => malformed
  end.

Definition dec_ke (j : J) : option (Z * Z) :=
  match j with JL [JI k; JI e] => Some (k, e) | _ => None end.
Definition dec_kest (j : J) : option (Z * float) :=
  match j with JL [JI k; JF e] => Some (k, e) | _ => None end.

Definition check_kmvk (input output : J) : verdict :=
  match input, output with
  | JL [JI k; JL jkvs; JI _], JL [JS okt; JL [JL jres; jranks]] =>
      match omap dec_ke jkvs, omap dec_kest jres, jfs jranks with
      | Some kvs, Some res, Some ranks =>
          if negb (String.eqb okt "ok") then ok_verdict false false else
          if negb (Nat.eqb (List.length kvs) (List.length ranks)) then malformed else
          let k := Z.to_nat k in
          let kers := combine kvs ranks in       (* ((key, elem), rank) *)
          let keys := zkeys (map fst kvs) in
          let mine (key : Z) := filter (fun x => fst (fst x) =? key) kers in
          ok_verdict
            (all2 (fun key r =>
                     (key =? fst r)
                     && fsame (kmv_float (kmv_finish (kmv_build kltb keqb k (map snd (mine key)))))
                              (snd r)) keys res)
            (all2 (fun key r =>
                     (key =? fst r)
                     && kmv_prop k (map (fun x => snd (fst x)) (mine key)) (map snd (mine key))
                                 (snd r)) keys res)
      | _, _, _ => malformed
      end
  | _, _ => malformed
  end.

(* ------------------------------------------------------------------ dispatcher *)
Definition check_C15 (kind : string) (input output : J) : verdict :=
  if String.eqb kind "td" then check_td true true input output
  else if String.eqb kind "tdx" then check_td false true input output
  (* "tdw": add_weighted with weights < 1 -- outside the property's domain (the theorems assume
     weights >= 1); only model agreement is judged *)
  else if String.eqb kind "tdw" then check_td true false input output
  else if String.eqb kind "mono" then check_mono input output
  else if String.eqb kind "pipe" then check_pipe input output
  else if String.eqb kind "stat" then check_stat input output
  else if String.eqb kind "kmv" then check_kmv input output
  else if String.eqb kind "kmvp" then check_kmvp input output
  else if String.eqb kind "kmvs" then check_kmvs input output
  else if String.eqb kind "kmvk" then check_kmvk input output
  else malformed.
