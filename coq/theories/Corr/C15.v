(* Correspondence for C15: runs the FLOAT instance of the t-digest model and the KMV model on the
   cases the harness ran on the real code (harness/src/bin/c15.rs) and decides, inside Coq,
   agreement (bit for bit) and the property instance (against references that do not use the
   model). Imports the Flocq bridge (for f64::mul_add), hence classical-reals axioms are in scope
   here; nothing in this file is a theorem. *)
From Coq Require Import List ZArith Bool String Floats Uint63.
From IB Require Import Util.J Combiners.Lawful Combiners.TDigest Combiners.TDigestFloat Combiners.KMV
                       Combiners.KMVRank Combiners.SketchPipe.
Import ListNotations.
Open Scope Z_scope.

(* ------------------------------------------------------------------ float helpers *)
Definition fnan (x : float) : bool := PrimFloat.is_nan x.
(* same bit pattern (any NaN equals any NaN: the payload is not specified by IEEE arithmetic) *)
Definition fsame (a b : float) : bool :=
  if fnan a then fnan b
  else PrimFloat.eqb a b && Bool.eqb (PrimFloat.get_sign a) (PrimFloat.get_sign b).
Definition feq (a b : float) : bool := PrimFloat.eqb a b.
Definition fle (a b : float) : bool := PrimFloat.leb a b.
Definition flt (a b : float) : bool := PrimFloat.ltb a b.
Definition fofZ (z : Z) : float := PrimFloat.of_uint63 (Uint63.of_Z z).
Definition fofnat (n : nat) : float := fofZ (Z.of_nat n).

Fixpoint all2 {A B} (f : A -> B -> bool) (l : list A) (m : list B) : bool :=
  match l, m with
  | [], [] => true
  | x :: l', y :: m' => f x y && all2 f l' m'
  | _, _ => false
  end.
Definition fsames := all2 fsame.

(* ------------------------------------------------------------------ decoding *)
Definition jf (j : J) : option float := match j with JF f => Some f | _ => None end.
Definition jfs (j : J) : option (list float) :=
  match j with JL l => omap jf l | _ => None end.
Definition jfpair (j : J) : option (float * float) :=
  match j with JL [JF a; JF b] => Some (a, b) | _ => None end.
Definition jfpairs (j : J) : option (list (float * float)) :=
  match j with JL l => omap jfpair l | _ => None end.

Definition padds (p : prog float) (vs : list float) : prog float := fold_left PAdd vs p.
Definition paddws (p : prog float) (vws : list (float * float)) : prog float :=
  fold_left (fun p vw => PAddW p (fst vw) (snd vw)) vws p.

Fixpoint dec_prog (fuel : nat) (j : J) : option (prog float) :=
  match fuel with
  | O => None
  | S fuel' =>
      match j with
      | JL [JS tag; JF c] => if String.eqb tag "new" then Some (PNew c) else None
      | JL [JS tag; a; b] =>
          if String.eqb tag "add" then
            match dec_prog fuel' a, jfs b with Some p, Some vs => Some (padds p vs) | _, _ => None end
          else if String.eqb tag "addw" then
            match dec_prog fuel' a, jfpairs b with
            | Some p, Some vws => Some (paddws p vws) | _, _ => None end
          else if String.eqb tag "merge" then
            match dec_prog fuel' a, dec_prog fuel' b with
            | Some p, Some q => Some (PMerge p q) | _, _ => None end
          else if String.eqb tag "group" || String.eqb tag "groupm" then
            match jf a, jfs b with
            | Some c, Some vs => Some (PCompress (padds (PNew c) vs)) | _, _ => None end
          else None
      | _ => None
      end
  end.

(* every (value, weight) a program adds, in some order *)
Fixpoint prog_adds (p : prog float) : list (float * float) :=
  match p with
  | PNew _ => []
  | PAdd p v => (v, 1%float) :: prog_adds p
  | PAddW p v w => (v, w) :: prog_adds p
  | PMerge a b => prog_adds a ++ prog_adds b
  | PCompress p => prog_adds p
  end.

(* ------------------------------------------------------------------ reference facts
   (computed from the raw inputs only; none of the model's functions is used) *)
Definition finite_adds (l : list (float * float)) : list (float * float) :=
  filter (fun vw => fis_finite (fst vw)) l.
Definition ref_lo (l : list (float * float)) : float :=
  fold_left (fun m vw => if flt (fst vw) m then fst vw else m) l infinity.
Definition ref_hi (l : list (float * float)) : float :=
  fold_left (fun m vw => if flt m (fst vw) then fst vw else m) l neg_infinity.
Definition ref_wsum (l : list (float * float)) : float :=
  fold_left (fun s vw => PrimFloat.add s (snd vw)) l 0%float.

(* one estimate e for the requested q, data range [lo, hi] *)
Definition est_ok (lo hi q e : float) : bool :=
  negb (fnan e) && fle lo e && fle e hi
  && (if fle q 0%float then feq e lo else true)
  && (if fle 1%float q then feq e hi else true).
Definition ests_ok (nonempty : bool) (lo hi : float) (qs es : list float) : bool :=
  if nonempty then all2 (est_ok lo hi) qs es
  else all2 (fun _ e => fnan e) qs es.

(* ------------------------------------------------------------------ t-digest: "td", "tdx" *)
Definition dec_state (j : J)
  : option (list (float * float) * float * float * float * float) :=
  match j with
  | JL [cs; JF total; JF mn; JF mx; JF comp] =>
      match jfpairs cs with Some l => Some (l, total, mn, mx, comp) | None => None end
  | _ => None
  end.

Definition state_same (d : digest float) (cs : list (float * float)) (total mn mx comp : float) :=
  all2 (fun a b => fsame (fst a) (fst b) && fsame (snd a) (snd b)) (d_cents d) cs
  && fsame (d_total d) total && fsame (d_min d) mn && fsame (d_max d) mx
  && fsame (d_comp d) comp.

Definition check_td (agreement_required prop_required : bool) (input output : J) : verdict :=
  match input, output with
  | JL [jp; jqs; jxs],
    JL [JS okt; JL [jst; jdirect; jcdfs; JF count; JB empty; jfin; JF med]] =>
      match dec_prog 200 jp, jfs jqs, jfs jxs, dec_state jst, jfs jdirect, jfs jcdfs, jfs jfin with
      | Some p, Some qs, Some xs, Some (cs, total, mn, mx, comp), Some direct, Some cdfs,
        Some fin =>
          if negb (String.eqb okt "ok") then ok_verdict false false else
          let d := run farith p in
          let agree :=
            state_same d cs total mn mx comp
            && fsames (td_quantiles farith d qs) direct
            && fsames (map (td_cdf farith d) xs) cdfs
            && fsame (td_count d) count
            && Bool.eqb (td_is_empty farith d) empty
            && fsames (aq_finish farith qs d) fin
            && fsame (am_finish farith d) med in
          (* property instance on the OBSERVED values *)
          let adds := finite_adds (prog_adds p) in
          let nonempty := negb (Nat.eqb (List.length adds) 0) in
          let lo := ref_lo adds in
          let hi := ref_hi adds in
          let prop :=
            ests_ok nonempty lo hi qs direct
            && ests_ok nonempty lo hi qs fin
            && ests_ok nonempty lo hi [0.5%float] [med]
            && feq count (ref_wsum adds)
            && Bool.eqb empty (negb nonempty)
            && (if nonempty
                then feq mn lo && feq mx hi
                     && forallb (fun c => fle lo (fst c) && fle (fst c) hi) cs
                     && all2 (fun x c => (if flt x lo then feq c 0%float else true)
                                         && (if fle hi x then feq c 1%float else true)) xs cdfs
                else Nat.eqb (List.length cs) 0 && forallb (fun c => feq c 0%float) cdfs) in
          ok_verdict (if agreement_required then agree else true)
                     (if prop_required then prop else true)
      | _, _, _, _, _, _, _ => malformed
      end
  | _, _ => malformed
  end.

(* ------------------------------------------------------------------ monotonicity: "mono"
   KNOWN FINDING C15-quantile-not-monotone: class = the digest has >= 2 centroids. *)
Fixpoint nondecreasing (l : list float) : bool :=
  match l with
  | a :: ((b :: _) as r) => negb (flt b a) && nondecreasing r
  | _ => true
  end.

Definition check_mono (input output : J) : verdict :=
  match input, output with
  | JL [jp; jqs], JL [JS okt; JL [jdirect; jfin]] =>
      match dec_prog 200 jp, jfs jqs, jfs jdirect, jfs jfin with
      | Some p, Some qs, Some direct, Some fin =>
          if negb (String.eqb okt "ok") then ok_verdict false false else
          let d := run farith p in
          let agree := fsames (td_quantiles farith d qs) direct
                       && fsames (aq_finish farith qs d) fin in
          let prop := nondecreasing direct && nondecreasing fin in
          V agree prop (Nat.leb 2 (List.length (d_cents d))) false
      | _, _, _, _ => malformed
      end
  | _, _ => malformed
  end.

(* ------------------------------------------------------------------ pipelines: "pipe"
   The runner's partitioning and the combine_* closures are part of the model
   (Combiners/SketchPipe.v: source_parts, cg_acc, cv_acc, cvl_acc); here they are instantiated
   with the float t-digest combiners. *)
Definition merge_all (accs : list (digest float)) (c : float) : digest float :=
  cg_merge (aq_combiner farith [] c) accs.
Definition global_acc (lifted : bool) (c : float) (vals : list float) (parts fan : nat)
  : digest float :=
  cg_acc (aq_combiner farith [] c) lifted fan (source_parts vals parts).

Fixpoint zinsert_u (x : Z) (l : list Z) : list Z :=
  match l with
  | [] => [x]
  | y :: r => if x <? y then x :: l else if x =? y then l else y :: zinsert_u x r
  end.
Definition zkeys (l : list Z) : list Z := fold_right zinsert_u [] l.

(* CombineValues: per key, a fresh accumulator absorbs the key's accumulator of every partition
   in which the key occurs, in partition order (SketchPipe.cv_acc) *)
Definition values_acc (c : float) (kvs : list (Z * float)) (parts : nat) (k : Z) : digest float :=
  match cv_acc (aq_combiner farith [] c) Z.eqb k (source_parts kvs parts) with
  | Some d => d
  | None => td_new farith c
  end.

Definition dec_kv (j : J) : option (Z * float) :=
  match j with JL [JI k; JF v] => Some (k, v) | _ => None end.
Definition dec_kres (j : J) : option (Z * list float) :=
  match j with JL [JI k; vs] => match jfs vs with Some l => Some (k, l) | None => None end
  | _ => None end.

(* "small rank error", sampled for the pipeline entry points (statistical claim, not proved): for
   n >= 20 finite values, compression 0 < c <= n and 0 < q < 1, the distance from q to the rank
   interval [#(v < e), #(v <= e)] / n of the estimate e is at most 0.5 * max(c, 8) / n (a centroid
   holds at most c/8 values; the unchanged code stays below 0.24 * max(c, 8) / n on all generated
   cases). A digest that reaches `quantile` with unsorted centroids (finish not compressing a
   never-merged accumulator) breaks this by a wide margin. *)
Definition rank_ok (c : float) (fin : list float) (q e : float) : bool :=
  let n := List.length fin in
  if (n <? 20)%nat || negb (flt 0%float c) || negb (fle c (fofnat n))
     || negb (flt 0%float q && flt q 1%float) || fnan e then true
  else
    let nf := fofnat n in
    let lo := PrimFloat.div (fofnat (List.length (filter (fun v => flt v e) fin))) nf in
    let hi := PrimFloat.div (fofnat (List.length (filter (fun v => fle v e) fin))) nf in
    let dist := if flt q lo then PrimFloat.sub lo q
                else if flt hi q then PrimFloat.sub q hi else 0%float in
    fle dist (PrimFloat.div (PrimFloat.mul 0.5%float (if flt c 8%float then 8%float else c)) nf).

Definition range_prop (c : float) (vals : list float) (qs es : list float) : bool :=
  let adds := finite_adds (map (fun v => (v, 1%float)) vals) in
  ests_ok (negb (Nat.eqb (List.length adds) 0)) (ref_lo adds) (ref_hi adds) qs es
  && all2 (rank_ok c (map fst adds)) qs es.

Definition check_pipe (input output : J) : verdict :=
  match input, output with
  | JL [JS variant; JF c; jdata; jqs; JI parts; JI fan], JL [JS okt; jres] =>
      if negb (String.eqb okt "ok") then ok_verdict false false else
      let parts := Z.to_nat parts in
      let fan := Z.to_nat fan in
      match jfs jqs with
      | None => malformed
      | Some qs =>
          if String.eqb variant "glob" || String.eqb variant "globl" then
            match jfs jdata, jfs jres with
            | Some vals, Some res =>
                let acc := global_acc (String.eqb variant "globl") c vals parts fan in
                ok_verdict (fsames (aq_finish farith qs acc) res) (range_prop c vals qs res)
            | _, _ => malformed
            end
          else if String.eqb variant "med" then
            match jfs jdata, jfs jres with
            | Some vals, Some res =>
                let acc := global_acc false c vals parts fan in
                ok_verdict (fsames [am_finish farith acc] res)
                           (range_prop c vals [0.5%float] res)
            | _, _ => malformed
            end
          else if String.eqb variant "vals" || String.eqb variant "gbkl" then
            match jdata, jres with
            | JL ld, JL lr =>
                match omap dec_kv ld, omap dec_kres lr with
                | Some kvs, Some res =>
                    let keys := zkeys (map fst kvs) in
                    ok_verdict
                      (all2 (fun k r => (k =? fst r)
                                        && fsames (aq_finish farith qs (values_acc c kvs parts k))
                                                  (snd r)) keys res)
                      (all2 (fun k r => (k =? fst r)
                                        && range_prop c (map snd (filter (fun kv => fst kv =? k) kvs))
                                                      qs (snd r)) keys res)
                | _, _ => malformed
                end
            | _, _ => malformed
            end
          else malformed
      end
  | _, _ => malformed
  end.

(* ------------------------------------------------------------------ sampled rank error: "stat"
   values are a permutation of 0..n-1, so the true rank of an estimate e is e itself and the
   exact q-quantile is q*(n-1). Statistical claim ("small rank error for large inputs"): sampled,
   not proved. Stated tolerance: |estimate - exact| <= 1% of n, for n >= 10^4. *)
Definition stat_values (n a b : Z) : list float :=
  map (fun i => fofZ ((a * Z.of_nat i + b) mod n)) (seq 0 (Z.to_nat n)).
Definition rank_err_ok (n : Z) (q e : float) : bool :=
  let nf := fofZ n in
  let exact := PrimFloat.mul q (PrimFloat.sub nf 1%float) in
  fle (PrimFloat.abs (PrimFloat.sub e exact)) (PrimFloat.mul 0.01%float nf).

Definition check_stat (input output : J) : verdict :=
  match input, output with
  | JL [JF c; JI n; JI a; JI b; JI parts; jqs], JL [JS okt; jres] =>
      match jfs jqs, jfs jres with
      | Some qs, Some res =>
          if negb (String.eqb okt "ok") then ok_verdict false false else
          let agree :=
            if n <=? 2000 then
              let vals := stat_values n a b in
              let csize := Nat.max (div_ceil (List.length vals) (Nat.max (Z.to_nat parts) 1)) 1 in
              let accs := map (fun vs => fold_left (td_add farith) vs (td_new farith c))
                              (chunks csize vals) in
              fsames (aq_finish farith qs (merge_all accs c)) res
            else true in
          let prop := all2 (est_ok 0%float (fofZ (n - 1))) qs res
                      && (if 10000 <=? n then all2 (rank_err_ok n) qs res else true) in
          ok_verdict agree prop
      | _, _ => malformed
      end
  | _, _ => malformed
  end.

(* ------------------------------------------------------------------ KMV *)
Definition kltb := PrimFloat.ltb.
Definition keqb := PrimFloat.eqb.
Definition kmv_float (o : kmv_out float) : float :=
  match o with
  | KCount m => fofnat m
  | KEstimate k rk => PrimFloat.div (PrimFloat.sub (fofnat k) 1%float) rk
  end.

(* reference: merge sort (independent of the model's insertion functions) *)
Fixpoint fmerge (a : list float) : list float -> list float :=
  match a with
  | [] => fun b => b
  | x :: a' =>
      fix inner (b : list float) : list float :=
        match b with
        | [] => a
        | y :: b' => if flt y x then y :: inner b' else x :: fmerge a' b
        end
  end.
Fixpoint fpairs (l : list (list float)) : list (list float) :=
  match l with
  | a :: b :: r => fmerge a b :: fpairs r
  | _ => l
  end.
Fixpoint fmsort_fuel (fuel : nat) (l : list (list float)) : list float :=
  match fuel, l with
  | _, [] => []
  | _, [a] => a
  | O, a :: _ => a
  | S f, _ => fmsort_fuel f (fpairs l)
  end.
Definition fmsort (l : list float) : list float := fmsort_fuel 64 (map (fun x => [x]) l).
Fixpoint fdedup (l : list float) : list float :=
  match l with
  | a :: ((b :: _) as r) => if feq a b then fdedup r else a :: fdedup r
  | _ => l
  end.

Fixpoint zmerge (a : list Z) : list Z -> list Z :=
  match a with
  | [] => fun b => b
  | x :: a' =>
      fix inner (b : list Z) : list Z :=
        match b with
        | [] => a
        | y :: b' => if y <? x then y :: inner b' else x :: zmerge a' b
        end
  end.
Fixpoint zpairs (l : list (list Z)) : list (list Z) :=
  match l with
  | a :: b :: r => zmerge a b :: zpairs r
  | _ => l
  end.
Fixpoint zmsort_fuel (fuel : nat) (l : list (list Z)) : list Z :=
  match fuel, l with
  | _, [] => []
  | _, [a] => a
  | O, a :: _ => a
  | S f, _ => zmsort_fuel f (zpairs l)
  end.
Fixpoint zdedup (l : list Z) : list Z :=
  match l with
  | a :: ((b :: _) as r) => if a =? b then zdedup r else a :: zdedup r
  | _ => l
  end.
Definition zdistinct (l : list Z) : nat :=
  List.length (zdedup (zmsort_fuel 64 (map (fun x => [x]) l))).

(* ---- the PROPERTY side for KMV names no hash function ----
   It judges the observed estimate against what the property promises, with the number of
   distinct values d taken from the integer ids only:
     d < k' = max k 4 : the estimate is exactly d;
     d >= k', k' >= 64: within the stated error band, relative error <= 6/sqrt(k'-2) (a sampled
                        statistical claim: 6 standard deviations of the KMV estimator);
     d >= k', k' < 64 : a positive number (no band is stated for sketches this small);
   and independence of duplicates, order and partitioning: the estimate equals `plain`, what the
   same (real) combiner returns for the SET of elements -- each distinct element once, ascending,
   one accumulator, add_input only. The concrete SipHash ranks (Combiners/KMVRank.v, and the ranks
   the harness computes with std's DefaultHasher) are used on the AGREEMENT side only. *)
Definition band_ok (k' d : nat) (est : float) : bool :=
  if (d <? k')%nat then feq est (fofnat d)
  else if (64 <=? k')%nat then
    let df := fofnat d in
    fle (PrimFloat.abs (PrimFloat.sub est df))
        (PrimFloat.mul df (PrimFloat.div 6%float (PrimFloat.sqrt (PrimFloat.sub (fofnat k') 2%float))))
  else negb (fnan est) && flt 0%float est.

Definition kmv_prop (k : nat) (elems : list Z) (est plain : float) : bool :=
  band_ok (Nat.max k 4) (zdistinct elems) est && fsame est plain.

(* agreement side: the ranks the harness sent are one per element and as many distinct ranks as
   distinct elements (no collision in the data) *)
Definition ranks_sane (elems : list Z) (ranks : list float) : bool :=
  Nat.eqb (List.length (fdedup (fmsort ranks))) (zdistinct elems)
  && Nat.eqb (List.length elems) (List.length ranks).

Definition dec_part (j : J) : option (bool * list Z) :=
  match j with
  | JL [JI lifted; es] => match jints es with Some l => Some (lifted =? 1, l) | None => None end
  | _ => None
  end.

Fixpoint kmv_tree (fuel : nat) (accs : list (kmv float)) (k : nat) : kmv float :=
  match fuel with
  | O => kmv_new k
  | S f =>
      match accs with
      | [] => kmv_new k
      | [a] => a
      | _ =>
          let h := Nat.div2 (List.length accs) in
          merge_from kltb keqb (kmv_tree f (firstn h accs) k) (kmv_tree f (skipn h accs) k)
      end
  end.

Definition kmv_shape (shape : Z) (accs : list (kmv float)) (k : nat) : kmv float :=
  if shape =? 0 then
    match accs with [] => kmv_new k | a :: r => fold_left (merge_from kltb keqb) r a end
  else if shape =? 1 then
    match rev accs with
    | [] => kmv_new k
    | a :: r => fold_left (fun a o => merge_from kltb keqb o a) r a
    end
  else kmv_tree 64 accs k.

Definition check_kmv (input output : J) : verdict :=
  match input, output with
  | JL [JI k; JI shape; JL jparts], JL [JS okt; JL [JF est; JL jranks; JF plain]] =>
      match omap dec_part jparts, omap jfs jranks with
      | Some parts, Some ranks =>
          if negb (String.eqb okt "ok") then ok_verdict false false else
          let k := Z.to_nat k in
          let accs := map (kmv_build kltb keqb k) ranks in
          let model := kmv_float (kmv_finish (kmv_shape shape accs k)) in
          (* the ranks the harness computed with the real DefaultHasher are exactly the ranks of
             the model of rank_from_value (Combiners/KMVRank.v) *)
          let ranks_agree := all2 (fun p r => fsames (map rank_of_u64 (snd p)) r) parts ranks in
          ok_verdict (fsame model est && ranks_agree
                      && ranks_sane (List.concat (map snd parts)) (List.concat ranks))
                     (kmv_prop k (List.concat (map snd parts)) est plain)
      | _, _ => malformed
      end
  | _, _ => malformed
  end.

(* pipelines: by c15_kmv_partition_independent the model result does not depend on how the
   runner partitions and merges, so the model is simply "all ranks into one accumulator" *)
Definition check_kmvp (input output : J) : verdict :=
  match input, output with
  | JL [JI k; jelems; JI _], JL [JS okt; JL [JF est; JL [jranks]; JF plain]] =>
      match jints jelems, jfs jranks with
      | Some elems, Some ranks =>
          if negb (String.eqb okt "ok") then ok_verdict false false else
          let k := Z.to_nat k in
          let model := kmv_float (kmv_finish (kmv_build kltb keqb k ranks)) in
          ok_verdict (fsame model est && fsames (map rank_of_u64 elems) ranks && ranks_sane elems ranks)
                     (kmv_prop k elems est plain)
      | _, _ => malformed
      end
  | _, _ => malformed
  end.

(* big inputs: elements and ranks arrive in chunks (a single 10^5-element list literal overflows
   coqc's parser stack) *)
Definition check_kmvs (input output : J) : verdict :=
  match input, output with
  | JL [JI k; JL jchunks; JI _], JL [JS okt; JL [JF est; JL jranks; JF plain]] =>
      match omap jints jchunks, omap jfs jranks with
      | Some echunks, Some rchunks =>
          if negb (String.eqb okt "ok") then ok_verdict false false else
          let k := Z.to_nat k in
          let elems := List.concat echunks in
          let ranks := List.concat rchunks in
          (* sketch sizes above 64: the O(n log n) form of the specification, which every
             accumulator expression finishes to (c15_kmv_fast_spec) *)
          let model :=
            if (k <=? 64)%nat then kmv_float (kmv_finish (kmv_build kltb keqb k ranks))
            else kmv_float (kmv_fast kltb keqb (Nat.max k 4) ranks) in
          ok_verdict (fsame model est && fsames (map rank_of_u64 elems) ranks && ranks_sane elems ranks)
                     (kmv_prop k elems est plain)
      | _, _ => malformed
      end
  | _, _ => malformed
  end.

Definition dec_ke (j : J) : option (Z * Z) :=
  match j with JL [JI k; JI e] => Some (k, e) | _ => None end.
Definition dec_kest (j : J) : option (Z * float) :=
  match j with JL [JI k; JF e] => Some (k, e) | _ => None end.

Definition check_kmvk (input output : J) : verdict :=
  match input, output with
  | JL [JI k; JL jkvs; JI _], JL [JS okt; JL [JL jres; jranks; JL jplain]] =>
      match omap dec_ke jkvs, omap dec_kest jres, jfs jranks, omap dec_kest jplain with
      | Some kvs, Some res, Some ranks, Some plains =>
          if negb (String.eqb okt "ok") then ok_verdict false false else
          if negb (Nat.eqb (List.length kvs) (List.length ranks)) then malformed else
          let k := Z.to_nat k in
          let kers := combine kvs ranks in       (* ((key, elem), rank) *)
          let keys := zkeys (map fst kvs) in
          let mine (key : Z) := filter (fun x => fst (fst x) =? key) kers in
          ok_verdict
            (fsames (map (fun kv => rank_of_u64 (snd kv)) kvs) ranks
             && all2 (fun key r =>
                     (key =? fst r)
                     && ranks_sane (map (fun x => snd (fst x)) (mine key)) (map snd (mine key))
                     && fsame (kmv_float (kmv_finish (kmv_build kltb keqb k (map snd (mine key)))))
                              (snd r)) keys res)
            (all2 (fun key r =>
                     (key =? fst r)
                     && match filter (fun p => fst p =? key) plains with
                        | [p] => kmv_prop k (map (fun x => snd (fst x)) (mine key)) (snd r) (snd p)
                        | _ => false
                        end) keys res)
      | _, _, _, _ => malformed
      end
  | _, _ => malformed
  end.

(* ------------------------------------------------------------------ compact streams
   Big cases travel as a list of segments [key, start, step, count, modulus]: segment i holds the
   integers (start + step*j) mod modulus, j = 0..count-1 (modulus 0: no reduction), all under
   `key`. The harness expands the same description; nothing else crosses the boundary, so a case
   with 10^4 elements is a few dozen bytes. *)
Definition dec_seg (j : J) : option (Z * Z * Z * nat * Z) :=
  match j with
  | JL [JI key; JI start; JI step; JI count; JI modulus] =>
      Some (key, start, step, Z.to_nat count, modulus)
  | _ => None
  end.
Fixpoint seg_vals (count : nat) (e step m : Z) : list Z :=
  match count with
  | O => []
  | S n => (if m =? 0 then e else e mod m) :: seg_vals n (e + step) step m
  end.
(* (key, the segment's integers) *)
Definition seg_group (s : Z * Z * Z * nat * Z) : Z * list Z :=
  let '(key, start, step, count, m) := s in (key, seg_vals count start step m).
Definition group_rows {A} (g : Z * list A) : list (Z * A) := map (fun e => (fst g, e)) (snd g).
Definition zmine {A} (key : Z) (rows : list (Z * A)) : list A :=
  map snd (filter (fun kv => fst kv =? key) rows).

Definition dec_kests (j : J) : option (list (Z * float)) :=
  match j with JL l => omap dec_kest l | _ => None end.
Definition dec_kcount (j : J) : option (Z * Z) :=
  match j with JL [JI k; JI n] => Some (k, n) | _ => None end.
Definition dec_kcounts (j : J) : option (list (Z * Z)) :=
  match j with JL l => omap dec_kcount l | _ => None end.

(* ------------------------------------------------------------------ "kh": every public entry
   point that builds a KMV sketch, on the same data:
     adc   from_vec(elems).approx_distinct_count(k)
     cg    from_vec(elems).combine_globally(KMVApproxDistinctCount::new(k), fanout)
     cgl   from_vec(elems).combine_globally_lifted(.., fanout)
     adck  from_vec(pairs).approx_distinct_count_per_key(k); adck2 = the SAME PCollection collected
           a second time, the other way (sequentially / with 3 partitions)
     cv    from_vec(pairs).combine_values(KMVApproxDistinctCount::new(k))
     gbkl  from_vec(pairs).group_by_key().combine_values_lifted(..)
     cvl   from_vec(records).combine_values_lifted(..)   one (key, Vec<elem>) record per segment,
           so a key occurs in several records of one partition
     twin  per key: from_vec(the key's elems).approx_distinct_count(k)   (global twin of adck)
     dst   from_vec(elems).distinct() -- number of rows;  dstk: distinct_per_key() rows per key
     plain / kplain  the real combiner on the SET of (the key's) elements: each distinct element
           once, ascending, one accumulator, add_input only -- what every other entry must equal
     dir   the CombineFn / LiftableCombiner API by hand: one accumulator per segment (even:
           build_from_group, odd: create + add_input), merged in shape fan mod 3
   The model's ranks come from Combiners/KMVRank.v (SipHash-1-3), not from the harness.
   Model: kmv_fast (proved equal to every accumulator expression's finish: c15_kmv_fast_spec +
   c15_kmv_finish_spec + the SketchPipe theorems); for small cases also the runner-shaped model
   (SketchPipe.combine_globally / combine_values / combine_values_lifted over kmv_combiner). *)
Definition same_kests (a b : list (Z * float)) : bool :=
  all2 (fun x y => (fst x =? fst y) && fsame (snd x) (snd y)) a b.

Definition check_kh (input output : J) : verdict :=
  match input, output with
  | JL [JI k; JL jsegs; JI parts; JI fan],
    JL [JS okt; JL [JF adc; JF cg; JF cgl; jadck; jcv; jgbkl; jcvl; jtwin; JI dst; jdstk; JF dir; jadck2; JF plain; jkplain]] =>
      match omap dec_seg jsegs, dec_kests jadck, dec_kests jcv, dec_kests jgbkl, dec_kests jcvl,
            dec_kests jtwin, dec_kcounts jdstk, dec_kests jadck2, dec_kests jkplain with
      | Some segs, Some adck, Some cv, Some gbkl, Some cvl, Some twin, Some dstk, Some adck2,
        Some kplain =>
          if negb (String.eqb okt "ok") then ok_verdict false false else
          let groups := map seg_group segs in                       (* (key, elems) per segment *)
          (* a sketch size beyond the number of rows behaves like any other such size (fewer than
             k distinct ranks: the exact count, c15_kmv_exact_below_k); sizes like 2^61 are
             replaced by rows + 5 so that the unary sketch size of the model stays small *)
          let nrows := Z.of_nat (fold_left (fun n g => (n + List.length (snd g))%nat) groups 0%nat) in
          let k := Z.to_nat (Z.min k (nrows + 5)) in
          let k' := Nat.max k 4 in
          let parts := Z.to_nat parts in
          let fan := Z.to_nat fan in
          let rgroups := map (fun g => (fst g, map rank_of_u64 (snd g))) groups in
          let rows := List.concat (map group_rows groups) in        (* (key, elem) *)
          let rrows := List.concat (map group_rows rgroups) in      (* (key, rank) *)
          (* a key whose segments are all empty has records (cvl, twin, dstk report it) but no
             (key, elem) pair (adck, cv, gbkl do not) *)
          let gkeys := zkeys (map fst groups) in
          let keys := zkeys (map fst rows) in
          let present (res : list (Z * float)) :=
            filter (fun r => existsb (Z.eqb (fst r)) keys) res in
          let fast (rs : list float) := kmv_float (kmv_fast kltb keqb k' rs) in
          let gmodel := fast (map snd rrows) in
          let kmodel := map (fun key => (key, fast (zmine key rrows))) keys in
          let gkmodel := map (fun key => (key, fast (zmine key rrows))) gkeys in
          let small := (k' <=? 64)%nat && (List.length rows <=? 600)%nat in
          let comb := kmv_combiner kltb keqb k in
          let pipe_agree :=
            if small then
              fsame (kmv_float (approx_distinct_count kltb keqb k parts (map snd rrows))) adc
              && fsame (kmv_float (combine_globally comb false fan parts (map snd rrows))) cg
              && fsame (kmv_float (combine_globally comb true fan parts (map snd rrows))) cgl
              && all2 (fun key r =>
                         match combine_values comb Z.eqb key parts rrows with
                         | Some o => fsame (kmv_float o) (snd r) | None => false end) keys cv
              && all2 (fun key r =>
                         match approx_distinct_count_per_key kltb keqb Z.eqb k key
                                 (if (parts =? 0)%nat then 3%nat else 0%nat) rrows with
                         | Some o => fsame (kmv_float o) (snd r) | None => false end) keys adck2
              && all2 (fun key r =>
                         match combine_values_lifted comb Z.eqb key parts rgroups with
                         | Some o => fsame (kmv_float o) (snd r) | None => false end) gkeys cvl
              && fsame (kmv_float (kmv_finish
                          (kmv_shape (Z.of_nat (fan mod 3))
                             (map (fun ig => leaf_acc comb (Nat.even (fst ig)) (snd (snd ig)))
                                  (combine (seq 0 (List.length rgroups)) rgroups)) k))) dir
            else true in
          let agree :=
            fsame gmodel adc && fsame gmodel cg && fsame gmodel cgl && fsame gmodel dir
            && fsame gmodel plain && same_kests gkmodel kplain
            && same_kests kmodel adck && same_kests kmodel adck2 && same_kests kmodel cv
            && same_kests kmodel gbkl
            && same_kests gkmodel cvl && same_kests gkmodel twin && pipe_agree in
          (* property instance on the observed values; reference = the integer ids only *)
          let d_all := zdistinct (map snd rows) in
          let d_keys := map (fun key => (key, zdistinct (zmine key rows))) keys in
          let d_gkeys := map (fun key => (key, zdistinct (zmine key rows))) gkeys in
          let per_key_ok (ds : list (Z * nat)) (res : list (Z * float)) :=
            all2 (fun kd r => (fst kd =? fst r) && band_ok k' (snd kd) (snd r)) ds res in
          let prop :=
            band_ok k' d_all adc && fsame adc cg && fsame adc cgl && fsame adc dir
            && fsame adc plain && same_kests twin kplain
            && per_key_ok d_keys adck && same_kests adck adck2 && same_kests adck cv
            && same_kests adck gbkl
            && per_key_ok d_gkeys cvl && same_kests cvl twin && same_kests adck (present cvl)
            && (dst =? Z.of_nat d_all)
            && all2 (fun kd r => (fst kd =? fst r) && (Z.of_nat (snd kd) =? snd r)) d_gkeys dstk in
          ok_verdict agree prop
      | _, _, _, _, _, _, _, _, _ => malformed
      end
  | _, _ => malformed
  end.

(* ------------------------------------------------------------------ "qh": every public entry
   point that builds a t-digest, on the same data. in = [comb, c, segs, qs, parts, fan, den]:
   value = integer / den (den a power of two: exact in every value type the harness uses).
     comb  "aq" ApproxQuantiles::new(qs, c)      "five" ::five_number_summary(c)
           "pct" ::percentiles(c)                "median" ::median(c)
           "med" ApproxMedian::new(c)            "meddef" ApproxMedian::default()
     out = [cg, cgl, cv, gbkl, cvl, cv2]  (entry points as in "kh"; cv2 = the combine_values
     PCollection collected a second time; a median is a one-element list) *)
Definition fofZs (z : Z) : float := if z <? 0 then PrimFloat.opp (fofZ (- z)) else fofZ z.

Definition q_comb (comb : string) (c : float) (qs : list float)
  : option (combiner float (digest float) (list float) * list float) :=
  let med (c : float) :=
    {| c_create := td_new farith c; c_add := td_add farith; c_merge := td_merge farith;
       c_finish := fun d => [am_finish farith d]; c_build := aq_build farith c |} in
  if String.eqb comb "aq" then Some (aq_combiner farith qs c, qs)
  else if String.eqb comb "five" then
    Some (aq_combiner farith (qs_five_number farith) c, qs_five_number farith)
  else if String.eqb comb "pct" then
    Some (aq_combiner farith (qs_percentiles farith) c, qs_percentiles farith)
  else if String.eqb comb "median" then
    Some (aq_combiner farith (qs_median farith) c, qs_median farith)
  else if String.eqb comb "med" then Some (med c, [0.5%float])
  else if String.eqb comb "meddef" then Some (med (am_default_compression farith), [0.5%float])
  else None.

Definition dec_kress (j : J) : option (list (Z * list float)) :=
  match j with JL l => omap dec_kres l | _ => None end.

Definition check_qh (input output : J) : verdict :=
  match input, output with
  | JL [JS comb; JF c; JL jsegs; jqs; JI parts; JI fan; JI den; JS _],
    JL [JS okt; JL [jcg; jcgl; jcv; jgbkl; jcvl; jcv2]] =>
      match omap dec_seg jsegs, jfs jqs, jfs jcg, jfs jcgl, dec_kress jcv, dec_kress jgbkl,
            dec_kress jcvl, dec_kress jcv2 with
      | Some segs, Some qs0, Some cg, Some cgl, Some cv, Some gbkl, Some cvl, Some cv2 =>
          if negb (String.eqb okt "ok") then ok_verdict false false else
          match q_comb comb c qs0 with
          | None => malformed
          | Some (cb, qs) =>
              let ceff := if String.eqb comb "meddef" then am_default_compression farith else c in
              let parts := Z.to_nat parts in
              let fan := Z.to_nat fan in
              let fden := fofZ den in
              let groups := map (fun s => let g := seg_group s in
                                          (fst g, map (fun z => PrimFloat.div (fofZs z) fden) (snd g)))
                                segs in
              let rows := List.concat (map group_rows groups) in
              let vals := map snd rows in
              let gkeys := zkeys (map fst groups) in
              let keys := zkeys (map fst rows) in
              let agree :=
                fsames (combine_globally cb false fan parts vals) cg
                && fsames (combine_globally cb true fan parts vals) cgl
                && all2 (fun key r =>
                           (key =? fst r)
                           && match combine_values cb Z.eqb key parts rows with
                              | Some o => fsames o (snd r)
                              | None => false end) keys cv
                && all2 (fun x y => (fst x =? fst y) && fsames (snd x) (snd y)) cv gbkl
                && all2 (fun x y => (fst x =? fst y) && fsames (snd x) (snd y)) cv cv2
                && all2 (fun key r =>
                           (key =? fst r)
                           && match combine_values_lifted cb Z.eqb key parts groups with
                              | Some o => fsames o (snd r) | None => false end) gkeys cvl in
              let per_key_prop (ks : list Z) (res : list (Z * list float)) :=
                all2 (fun key r => (key =? fst r) && range_prop ceff (zmine key rows) qs (snd r))
                     ks res in
              let prop :=
                range_prop ceff vals qs cg && range_prop ceff vals qs cgl
                && per_key_prop keys cv && per_key_prop keys gbkl && per_key_prop gkeys cvl
                && per_key_prop keys cv2 in
              ok_verdict agree prop
          end
      | _, _, _, _, _, _, _, _ => malformed
      end
  | _, _ => malformed
  end.

(* ------------------------------------------------------------------ "kx": exact far below a
   huge sketch size. in = [k, start, step, count, parts]: the ids start + step*j (step > 0) are
   `count` distinct values; both helpers must return exactly `count` when count < max k 4.
   Property only: no model run (hashing and sorting 3*10^5 ranks per case is not affordable in
   the quick tier); the agreement column is vacuous for this kind. *)
Definition check_kx (input output : J) : verdict :=
  match input, output with
  | JL [JI k; JI start; JI step; JI count; JI _], JL [JS okt; JL [JF adc; JF adck]] =>
      if negb (String.eqb okt "ok") then ok_verdict false false else
      if negb ((0 <=? start) && (0 <? step) && (0 <=? count)) then malformed else
      let prop :=
        if count <? Z.max k 4 then feq adc (fofZ count) && feq adck (fofZ count)
        else negb (fnan adc) && negb (fnan adck) in
      ok_verdict true prop
  | _, _ => malformed
  end.

(* ------------------------------------------------------------------ dispatcher *)
Definition check_C15 (kind : string) (input output : J) : verdict :=
  if String.eqb kind "td" then check_td true true input output
  else if String.eqb kind "tdx" then check_td false true input output
  (* "tdw": add_weighted with weights < 1 -- outside the property's domain (the theorems assume
     weights >= 1); only model agreement is judged *)
  else if String.eqb kind "tdw" then check_td true false input output
  else if String.eqb kind "mono" then check_mono input output
  else if String.eqb kind "pipe" then check_pipe input output
  else if String.eqb kind "stat" then check_stat input output
  else if String.eqb kind "kmv" then check_kmv input output
  else if String.eqb kind "kmvp" then check_kmvp input output
  else if String.eqb kind "kmvs" then check_kmvs input output
  else if String.eqb kind "kmvk" then check_kmvk input output
  else if String.eqb kind "kx" then check_kx input output
  else if String.eqb kind "kh" then check_kh input output
  else if String.eqb kind "qh" then check_qh input output
  else malformed.
