(* C10 correspondence, big payloads: the generator parameters [mode, n, klen, seed, k0len] of the
   harness (harness/src/bin/c10.rs: Gen) expanded inside Coq.  63-bit machine integers are used
   for speed (payloads have millions of characters); they are primitive, so nothing here is
   referenced from Props/C10.v - the theorems talk about IO/CompressionPayload.v with an abstract
   key-character function, of which `pl_keychar` below is the instance the harness uses.

   character j of key i:   mode 0: 'x'     mode 1: ALPHA[i mod 4]
                           mode 2: ALPHA[top 6 bits of x_(j+1)],  x_0 = seed + (i+1) * 2654435761,
                                   x_(t+1) = x_t * 6364136223846793005 + 1442695040888963407
                                   (all modulo 2^63)
   digest of a record list: d <- d * 6364136223846793005 + h(rec) + 1,
                            h(k, v) = (fold (fun h b => h * 131 + b) k 0) * 1000003 + v. *)
From Coq Require Import List ZArith NArith Bool Uint63.
From IB Require Import IO.Compression IO.CompressionPayload.
Import ListNotations.

Local Open Scope uint63_scope.

Definition lcg (x : int) : int := x * 6364136223846793005 + 1442695040888963407.
(* "ABC..XYZabc..xyz0123456789-_" *)
Definition alpha (idx : int) : int :=
  if idx <? 26 then 65 + idx
  else if idx <? 52 then 97 + (idx - 26)
  else if idx <? 62 then 48 + (idx - 52)
  else if idx =? 62 then 45 else 95.
Definition key_x0 (seed i : int) : int := seed + (i + 1) * 2654435761.

(* hash of key i (len characters), streaming *)
Definition key_hash (mode : Z) (seed i : int) (len : N) : int :=
  match mode with
  | 0%Z => N.iter len (fun h => h * 131 + 120) 0
  | 1%Z => let c := alpha (i land 3) in N.iter len (fun h => h * 131 + c) 0
  | _ =>
      snd (N.iter len (fun xh => let x' := lcg (fst xh) in (x', snd xh * 131 + alpha (x' >> 57)))
                  (key_x0 seed i, 0))
  end.

Definition digest_step (d h : int) : int := d * 6364136223846793005 + h + 1.

(* digest of the whole payload, masked to 61 bits (the harness emits integers below 2^62) *)
Definition pl_digest (mode : Z) (seed : int) (n klen k0len : N) : Z :=
  let step (st : int * int) :=
    let i := fst st in
    let len := if i =? 0 then k0len else klen in
    (i + 1, digest_step (snd st) (key_hash mode seed i len * 1000003 + i)) in
  to_Z (snd (N.iter n step (0, 0)) land 2305843009213693951).

(* the key-character function as bytes (used for the first characters only) *)
Definition pl_keychar (mode : Z) (seed : Z) (i j : N) : Z :=
  let ii := of_Z (Z.of_N i) in
  match mode with
  | 0%Z => 120%Z
  | 1%Z => to_Z (alpha (ii land 3))
  | _ => to_Z (alpha (N.iter (N.succ j) lcg (key_x0 (of_Z seed) ii) >> 57))
  end.

(* the first 16 bytes of the payload's text: keys cut to 16 characters, 16 records at most (every
   line has at least one byte, and cutting a key of >= 16 characters leaves the first 16 bytes of
   its line unchanged) *)
Definition pl_head (csv : bool) (mode seed : Z) (g : pgen) : bytes :=
  let cut := {| pg_n := N.min 16 (pg_n g); pg_klen := N.min 16 (pg_klen g);
                pg_k0len := N.min 16 (pg_k0len g) |} in
  let rs := pl_recs (pl_keychar mode seed) cut in
  firstn 16 (if csv then csv_text rs else jsonl_text rs).
