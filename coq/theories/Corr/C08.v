(* Correspondence for C08.  The harness (harness/src/bin/c08.rs) ran programs of 1..4 real
   threads on one shared ironbeam Pipeline under a forced interleaving of the pipeline-lock
   acquisitions ("hist") or freely ("stress").  Here the same history is replayed step by
   step on the model state machine (Pipeline/History.v: cstep), and
     agree = every turn was the atomic step the model says it is (thread, call, lock index),
             every node id handed out is the model's, every call took the model's number of
             locks, every collect returned what the model's collect returns on the model's
             state at the moment of the snapshot;
     prop  = (independent of the state machine) every collect returned `value_of_lineage` of
             the lineage term read off the PROGRAM TEXT alone, all node ids are pairwise
             distinct, and the shared closure-call counter never changed during a turn of
             a build call (so it is 0 before the first collect and no build step ever runs a
             user function).
   Joins iterate HashMaps: rows of a collection whose lineage contains a join are compared as
   multisets, everything else as sequences. *)
From Coq Require Import List ZArith Bool String Arith.
From IB Require Import Util.J Pipeline.Graph Pipeline.History Pipeline.Source.
Import ListNotations.
Open Scope Z_scope.

(* Round 4.  The input may carry a fourth component env = [pipes, files]:
     pipes[t] = the Pipeline thread t works on.  Pipelines are independent state machines; the
       history is replayed once per pipeline on the threads of that pipeline (programs of the
       other threads masked, schedule and observed turns filtered);
     files    = the streamed files of the case.
   New source calls ("custom": a user-written VecOps through from_custom_source; "file": a
   JSONL / CSV / Parquet source, through read_*_streaming or through from_custom_source with an
   adapter object SHARED between sources) are source steps of the state machine whose rows are
   what the source model Pipeline/Source.v READS (seq_read of the modelled adapter over the
   modelled shards) - for `agree` - and, independently, the rows read off the file text - for
   `prop`.  Collect modes 1000..1008 are the other public collect entry points; the sorted ones
   are compared as multisets.  "digest" collects report (n, sum h, sum (i+1) h) of the rows. *)

(* ---------- concrete element type and function tables (mirror of c08.rs Val) ---------- *)
Inductive val : Type := VI (z : Z) | VP (a b : val) | VN | VS (a : val).
(* one name per node behaviour.  A `NStateless f` of the model stands for ANY single-input node
   (Stateless, GroupByKey, CombineValues, CombineGlobal): the runner applies one function to the
   whole buffer.  Where a builder changes the element type and the harness maps back to rows,
   the representation change is put into the first name and the re-typing map is FWrap. *)
Inductive fname : Type :=
| FAdd (c : Z)          (* map / map_batches / apply_transform: bump every int leaf of the value *)
| FFilt (m r : Z)       (* filter / filter_values: score(v) mod m = r *)
| FWrap                 (* a re-typing map, or a node whose effect is folded into a neighbour *)
| FFlat (c : Z)         (* flat_map: [(k,v); (k, bump c v)] when score even, else [(k,v)] *)
| FSome                 (* map_values / map_values_batches: v |-> Some v *)
| FCombV                (* combine_values / gbk + combine_values_lifted: per key sum of scores *)
| FCombG                (* combine_globally(_lifted): one row (0, sum of key + score) *)
| FDedup                (* distinct / distinct_per_key: distinct rows *)
| FKeyBy (m : Z)        (* key_by: (k,v) |-> (score v mod m, (k, v)) *)
| FGbkSum               (* group_by_key (+ summary map): per key (count, sum of scores) *)
| FTopK (kk : Z)        (* top_k_per_key (+ summary map): per key sum of the kk largest scores *)
| FWin (size : Z)       (* attach_timestamps + key_by_window: (k,v) |-> (window start, (k,v)) *)
| FKWin (size : Z).     (* keyed key_by_window: (k,v) |-> (1000 k + window start, v) *)
Inductive gname : Type := JInner | JLeft | JRight | JFull.

Fixpoint val_eqb (a b : val) : bool :=
  match a, b with
  | VI x, VI y => x =? y
  | VP a1 a2, VP b1 b2 => val_eqb a1 b1 && val_eqb a2 b2
  | VN, VN => true
  | VS x, VS y => val_eqb x y
  | _, _ => false
  end.

Fixpoint bump (c : Z) (v : val) : val :=
  match v with
  | VI z => VI (z + c)
  | VP a b => VP (bump c a) (bump c b)
  | VN => VN
  | VS a => VS (bump c a)
  end.
Fixpoint score (v : val) : Z :=
  match v with
  | VI z => z
  | VP a b => score a + score b
  | VN => 0
  | VS a => score a
  end.

(* a row (k, v) is VP (VI k) v *)
Definition row_key (r : val) : Z := match r with VP (VI k) _ => k | _ => 0 end.
Definition row_val (r : val) : val := match r with VP _ v => v | _ => VN end.
Definition mk_row (k : Z) (v : val) : val := VP (VI k) v.

Definition matches (k : Z) (l : list val) : list val := filter (fun r => row_key r =? k) l.

Fixpoint dedup_z (l : list Z) : list Z :=
  match l with
  | [] => []
  | x :: r => x :: filter (fun y => negb (y =? x)) (dedup_z r)
  end.
Fixpoint dedup_val (l : list val) : list val :=
  match l with
  | [] => []
  | x :: r => x :: filter (fun y => negb (val_eqb y x)) (dedup_val r)
  end.
Definition zsum (l : list Z) : Z := fold_right Z.add 0 l.
Fixpoint zinsert_desc (x : Z) (l : list Z) : list Z :=
  match l with [] => [x] | y :: r => if y <=? x then x :: l else y :: zinsert_desc x r end.
Definition zsort_desc (l : list Z) : list Z := fold_right zinsert_desc [] l.
Definition scores (l : list val) : list Z := map (fun r => score (row_val r)) l.
Definition per_key (f : Z -> list val -> val) (l : list val) : list val :=
  map (fun k => mk_row k (f k (matches k l))) (dedup_z (map row_key l)).
Definition win_start (size : Z) (v : val) : Z :=
  let ts := Z.max 0 (score v) in ts - ts mod size.

Definition interp_f (f : fname) (l : list val) : list val :=
  match f with
  | FAdd c => map (fun r => mk_row (row_key r) (bump c (row_val r))) l
  | FFilt m rr => filter (fun r => (score (row_val r)) mod m =? rr) l
  | FWrap => l            (* (k,(v,w)) |-> (k, P(v,w)): the identity on the untyped encoding *)
  | FFlat c =>
      flat_map (fun r => if (score (row_val r)) mod 2 =? 0
                         then [r; mk_row (row_key r) (bump c (row_val r))] else [r]) l
  | FSome => map (fun r => mk_row (row_key r) (VS (row_val r))) l
  | FCombV => per_key (fun _ g => VI (zsum (scores g))) l
  | FCombG => [mk_row 0 (VI (zsum (map (fun r => row_key r + score (row_val r)) l)))]
  | FDedup => dedup_val l
  | FKeyBy m => map (fun r => mk_row ((score (row_val r)) mod m) (VP (VI (row_key r)) (row_val r))) l
  | FGbkSum => per_key (fun _ g => VP (VI (Z.of_nat (List.length g))) (VI (zsum (scores g)))) l
  | FTopK kk => per_key (fun _ g => VI (zsum (firstn (Z.to_nat kk) (zsort_desc (scores g))))) l
  | FWin size =>
      map (fun r => mk_row (win_start size (row_val r)) (VP (VI (row_key r)) (row_val r))) l
  | FKWin size =>
      map (fun r => mk_row (row_key r * 1000 + win_start size (row_val r)) (row_val r)) l
  end.

(* results that come out of a HashMap / HashSet: compared as multisets *)
Definition f_unordered (f : fname) : bool :=
  match f with FCombV | FDedup | FGbkSum | FTopK _ => true | _ => false end.

(* joins.rs exec closures, as multisets (listed in a canonical order) *)
Definition interp_g (g : gname) (l r : list val) : list val :=
  match g with
  | JInner =>
      flat_map (fun a => map (fun b => mk_row (row_key a) (VP (row_val a) (row_val b)))
                             (matches (row_key a) r)) l
  | JLeft =>
      flat_map (fun a => match matches (row_key a) r with
                         | [] => [mk_row (row_key a) (VP (row_val a) VN)]
                         | ms => map (fun b => mk_row (row_key a) (VP (row_val a) (VS (row_val b)))) ms
                         end) l
  | JRight =>
      flat_map (fun b => match matches (row_key b) l with
                         | [] => [mk_row (row_key b) (VP VN (row_val b))]
                         | ms => map (fun a => mk_row (row_key b) (VP (VS (row_val a)) (row_val b))) ms
                         end) r
  | JFull =>
      flat_map (fun a => match matches (row_key a) r with
                         | [] => [mk_row (row_key a) (VP (VS (row_val a)) VN)]
                         | ms => map (fun b => mk_row (row_key a)
                                                  (VP (VS (row_val a)) (VS (row_val b)))) ms
                         end) l
      ++ flat_map (fun b => match matches (row_key b) l with
                            | [] => [mk_row (row_key b) (VP VN (VS (row_val b)))]
                            | _ => []
                            end) r
  end.

Notation lineage := (History.lineage val fname gname).
Notation handle := (History.handle val fname gname).
Notation config := (History.config val fname gname).
Notation node := (Graph.node val fname gname).

(* ---------- list comparison ---------- *)
Fixpoint list_eqb (a b : list val) : bool :=
  match a, b with
  | [], [] => true
  | x :: a', y :: b' => val_eqb x y && list_eqb a' b'
  | _, _ => false
  end.
Fixpoint remove_one (x : val) (l : list val) : option (list val) :=
  match l with
  | [] => None
  | y :: r => if val_eqb x y then Some r
              else match remove_one x r with Some r' => Some (y :: r') | None => None end
  end.
Fixpoint perm_eqb (a b : list val) : bool :=
  match a with
  | [] => match b with [] => true | _ => false end
  | x :: a' => match remove_one x b with Some b' => perm_eqb a' b' | None => false end
  end.

(* digests of big results (mirror of c08.rs val_hash / row_hash / rows_digest) *)
(* no division anywhere: Z.modulo costs ~30 us per call under vm_compute, Z.land ~1 us *)
Fixpoint val_hash (v : val) : Z :=
  match v with
  | VI z => z
  | VP a b => val_hash a * 31 + val_hash b * 17 + 1
  | VN => 7
  | VS a => val_hash a * 13 + 3
  end.
Definition row_hash (r : val) : Z := Z.land (row_key r * 1000003 + val_hash (row_val r)) 1048575.
Definition digest (l : list val) : Z * Z * Z :=
  fold_left (fun acc r => let '(i, s1, s2) := acc in
                          let h := row_hash r in
                          (i + 1, s1 + h, s2 + (i + 1) * h))
            l (0, 0, 0).

Fixpoint has_join (x : lineage) : bool :=     (* "contains a HashMap-ordered step" *)
  match x with
  | LSrc _ => false
  | LDerive f p => f_unordered f || has_join p
  | LJoin _ _ _ => true
  end.

(* ---------- decoding ---------- *)
Fixpoint dec_val (fuel : nat) (j : J) : option val :=
  match fuel with
  | O => None
  | S k =>
      match j with
      | JI z => Some (VI z)
      | JN => Some VN
      | JL [a] => match dec_val k a with Some x => Some (VS x) | None => None end
      | JL [a; b] => match dec_val k a, dec_val k b with
                     | Some x, Some y => Some (VP x y)
                     | _, _ => None
                     end
      | _ => None
      end
  end.
Definition dec_row (j : J) : option val :=
  match j with
  | JL [JI k; v] => match dec_val 64 v with Some x => Some (mk_row k x) | None => None end
  | _ => None
  end.
Definition dec_rows (j : J) : option (list val) :=
  match j with JL l => omap dec_row l | _ => None end.

Definition ref : Type := (nat * nat)%type.
Definition dec_ref (j : J) : option ref :=
  match j with
  | JL [JI t; JI k] => if (0 <=? t) && (0 <=? k) then Some (Z.to_nat t, Z.to_nat k) else None
  | _ => None
  end.

(* 0, 1, .., n-1 (counting in Z: Z.of_nat on every element would be quadratic) *)
Fixpoint zseq_from (fuel : nat) (start : Z) : list Z :=
  match fuel with O => [] | S f => start :: zseq_from f (start + 1) end.
Definition zseq (n : Z) : list Z := zseq_from (Z.to_nat n) 0.

(* rows of a source: listed, or ["gen", n, base, kmod]: row i = (i mod kmod, base + i) *)
Definition dec_rowspec (j : J) : option (list val) :=
  match j with
  | JL [JS tag; JI n; JI base; JI kmod] =>
      if String.eqb tag "gen" && (0 <=? n) && (0 <? kmod)
      then Some (map (fun i => mk_row (if kmod =? 1 then 0 else i mod kmod) (VI (base + i))) (zseq n))
      else None
  | _ => dec_rows j
  end.

(* lines of a file: [row | null, ..] or ["gen", n, base, kmod, blank] *)
Definition dec_line (j : J) : option (option val) :=
  match j with
  | JN => Some None
  | _ => option_map Some (dec_row j)
  end.
Definition dec_lines (j : J) : option (list (option val)) :=
  match j with
  | JL [JS tag; JI n; JI base; JI kmod; JI blank] =>
      if String.eqb tag "gen" && (0 <=? n) && (0 <? kmod) && (0 <=? blank)
      then Some (map (fun i => if (0 <? blank) && (i mod blank =? blank - 1) then None
                               else Some (mk_row (if kmod =? 1 then 0 else i mod kmod) (VI (base + i))))
                     (zseq n))
      else None
  | JL l => omap dec_line l
  | _ => None
  end.

Record file : Type := mk_file { f_fmt : Z; f_p : Z; f_lines : list (option val) }.
Definition no_blank (ls : list (option val)) : bool :=
  forallb (fun o => match o with Some _ => true | None => false end) ls.
Definition dec_file (j : J) : option file :=
  match j with
  | JL [JI fmt; JI p; ls] =>
      match dec_lines ls with
      | Some lines =>
          if ((fmt =? 0) && (p =? 0))
             || ((fmt =? 1) && (0 <=? p) && (p <=? 1) && no_blank lines)
             || ((fmt =? 2) && (0 <=? p) && no_blank lines
                 && negb (match lines with [] => true | _ => false end))
          then Some (mk_file fmt p lines) else None
      | None => None
      end
  | _ => None
  end.
Definition dec_files (j : J) : option (list file) :=
  match j with JL l => omap dec_file l | _ => None end.

(* the reference rows of a file: its non-blank lines, in order *)
Definition ref_file_rows (f : file) : list val :=
  flat_map (fun o => match o with Some v => [v] | None => [] end) (f_lines f).

(* the row groups the harness's writers produce: max row-group size p (p = 0: ironbeam's own
   writer, one batch = one group) *)
Definition groups_of (p : Z) (rows : list val) : list (list val) :=
  if p =? 0 then [rows] else chunks (Z.to_nat p) rows.

(* the MODEL's rows of a streamed source over file f with shard size s: seq_read of the
   modelled adapter over the modelled shards (Pipeline/Source.v) *)
Definition model_file_source (f : file) (s : Z) : Source.source val :=
  let per := Z.to_N s in
  if f_fmt f =? 0 then jsonl_source (f_lines f) per
  else if f_fmt f =? 1 then csv_source (ref_file_rows f) per
  else parquet_source (groups_of (f_p f) (ref_file_rows f)) per.
Definition read_ok (r : rd (list val)) : option (list val) :=
  match r with ROk l => Some l | _ => None end.

Inductive hcall : Type :=
| HSrc (dm dr : list val)                  (* rows by the model / rows by the reference *)
| HSrcW (dm dr : list val)                 (* a source followed by a re-typing map (Parquet) *)
| HDerive (fs : list fname) (r : ref)      (* one builder call = the nodes it inserts, in order *)
| HJoin (g : gname) (l r : ref)
| HCollect (mode : Z) (r : ref) (dg : bool).

Definition dec_pages (j : J) : option (list (list val)) :=
  match j with JL l => omap dec_rows l | _ => None end.
Definition dec_custom (lm sp : Z) (pages : J) : option hcall :=
  match dec_pages pages with
  | Some pg =>
      if (sp =? 3) && ((lm =? 0) || (lm =? 1)) then
        (* the plain Vec of the rows behind the (shared) built-in adapter, length hidden or not *)
        let ops := if lm =? 1 then impl_ops else nolen_ops impl_ops in
        match read_ok (seq_read (mk_source (list val) ops (List.concat pg))) with
        | Some dm => Some (HSrc dm (List.concat pg))
        | None => None
        end
      else
      let sm := if sp =? 0 then Some SplitNone else if sp =? 1 then Some SplitPages
                else if sp =? 2 then Some SplitChunks else None in
      match sm with
      | Some sm =>
          if (lm =? 0) || (lm =? 1) then
            match read_ok (seq_read (pages_source (lm =? 1) sm pg)) with
            | Some dm => Some (HSrc dm (List.concat pg))
            | None => None
            end
          else None
      | None => None
      end
  | None => None
  end.
Definition dec_filecall (files : list file) (a f s : Z) : option hcall :=
  if (0 <=? a) && (0 <=? f) && (0 <=? s) then
    match nth_error files (Z.to_nat f) with
    | Some fl =>
        match read_ok (seq_read (model_file_source fl s)) with
        | Some dm => Some (if f_fmt fl =? 2 then HSrcW dm (ref_file_rows fl)
                           else HSrc dm (ref_file_rows fl))
        | None => None
        end
    | None => None
    end
  else None.
Definition mode_ok (m : Z) : bool := ((0 <=? m) && (m <=? 999)) || ((1000 <=? m) && (m <=? 1008)).
(* collect_seq_sorted / collect_par_sorted / collect_par_sorted_by_key *)
Definition mode_sorted (m : Z) : bool := (1002 <=? m) && (m <=? 1004).

Definition dec_gname (k : Z) : option gname :=
  if k =? 0 then Some JInner else if k =? 1 then Some JLeft
  else if k =? 2 then Some JRight else if k =? 3 then Some JFull else None.

(* the builder table: harness name + two integer parameters |-> the nodes inserted *)
Definition dop_fns (tag : string) (a b : Z) : option (list fname) :=
  if String.eqb tag "filter" then (if 0 <? a then Some [FFilt a b] else None)
  else if String.eqb tag "flat_map" then Some [FFlat a]
  else if String.eqb tag "map_values" then Some [FSome]
  else if String.eqb tag "filter_values" then (if 0 <? a then Some [FFilt a b] else None)
  else if String.eqb tag "map_batches" then (if 0 <? a then Some [FAdd b] else None)
  else if String.eqb tag "map_values_batches" then (if 0 <? a then Some [FSome] else None)
  else if String.eqb tag "combine_values" then Some [FCombV]
  else if String.eqb tag "combine_globally" then Some [FCombG]
  else if String.eqb tag "combine_globally_lifted" then Some [FCombG]
  else if String.eqb tag "apply_transform" then Some [FAdd a]
  else if String.eqb tag "distinct" then Some [FDedup; FWrap]               (* combine_globally; flat_map *)
  else if String.eqb tag "distinct_per_key" then Some [FWrap; FDedup; FWrap] (* gbk; combine lifted; flat_map *)
  else if String.eqb tag "gbk_lifted" then Some [FWrap; FCombV]             (* gbk; combine_values_lifted *)
  else if String.eqb tag "key_by" then (if 0 <? a then Some [FKeyBy a; FWrap] else None)
  else if String.eqb tag "group_by_key" then Some [FGbkSum; FWrap]
  else if String.eqb tag "top_k_per_key" then (if 0 <=? a then Some [FTopK a; FWrap] else None)
  else if String.eqb tag "key_by_window" then (if 0 <? a then Some [FWrap; FWin a; FWrap] else None)
  else if String.eqb tag "group_by_window" then (if 0 <? a then Some [FWrap; FWin a; FGbkSum; FWrap] else None)
  else if String.eqb tag "group_by_key_and_window"
       then (if 0 <? a then Some [FWrap; FKWin a; FGbkSum; FWrap] else None)
  else None.

Definition dec_call (files : list file) (j : J) : option hcall :=
  match j with
  | JL [JS tag; d] =>
      if String.eqb tag "src" then option_map (fun x => HSrc x x) (dec_rowspec d) else None
  | JL [JS tag; JI c; r] =>
      if String.eqb tag "map" then option_map (HDerive [FAdd c]) (dec_ref r)
      else if String.eqb tag "collect" then
             if mode_ok c then option_map (fun x => HCollect c x false) (dec_ref r) else None
      else if String.eqb tag "digest" then
             if mode_ok c then option_map (fun x => HCollect c x true) (dec_ref r) else None
      else None
  | JL [JS tag; JI a; b; c] =>
      if String.eqb tag "custom" then
        match b with JI sp => dec_custom a sp c | _ => None end
      else if String.eqb tag "file" then
        match b, c with JI f, JI sh => dec_filecall files a f sh | _, _ => None end
      else if String.eqb tag "join" then
        match dec_gname a, dec_ref b, dec_ref c with
        | Some g, Some l, Some r => Some (HJoin g l r)
        | _, _, _ => None
        end
      else
        match b with
        | JI b' => match dop_fns tag a b', dec_ref c with
                   | Some fs, Some r => Some (HDerive fs r)
                   | _, _ => None
                   end
        | _ => None
        end
  | _ => None
  end.
Definition dec_program (files : list file) (j : J) : option (list hcall) :=
  match j with JL l => omap (dec_call files) l | _ => None end.
Definition dec_programs (files : list file) (j : J) : option (list (list hcall)) :=
  match j with JL l => omap (dec_program files) l | _ => None end.
Definition dec_nat (j : J) : option nat :=
  match j with JI z => if 0 <=? z then Some (Z.to_nat z) else None | _ => None end.
Definition dec_nats (j : J) : option (list nat) :=
  match j with JL l => omap dec_nat l | _ => None end.

Definition hsteps (c : hcall) : nat :=
  match c with
  | HSrc _ _ => 1 | HSrcW _ _ => 3 | HDerive fs _ => 2 * List.length fs | HJoin _ _ _ => 7
  | HCollect _ _ _ => 3
  end%nat.
Definition hinserts (c : hcall) : nat :=
  match c with
  | HSrc _ _ => 1 | HSrcW _ _ => 2 | HDerive fs _ => List.length fs | HJoin _ _ _ => 3
  | HCollect _ _ _ => 0
  end%nat.

(* ---------- lineage of a reference, from the program text alone ---------- *)
(* the call of `p` that produces its k-th handle, and whether the handle is the call's
   second one (the wrapped output of a join) *)
Fixpoint producer (p : list hcall) (k : nat) : option (hcall * bool) :=
  match p with
  | [] => None
  | c :: rest =>
      match c with
      | HCollect _ _ _ => producer rest k
      | HJoin _ _ _ =>
          match k with
          | O => Some (c, false)
          | S O => Some (c, true)
          | S (S k') => producer rest k'
          end
      | _ => match k with O => Some (c, false) | S k' => producer rest k' end
      end
  end.

Fixpoint lin_of (fuel : nat) (ps : list (list hcall)) (r : ref) : option lineage :=
  match fuel with
  | O => None
  | S fuel' =>
      match producer (nth (fst r) ps []) (snd r) with
      | Some (HSrc _ dr, _) => Some (LSrc dr)
      | Some (HSrcW _ dr, _) => Some (LDerive FWrap (LSrc dr))
      | Some (HDerive fs p, _) =>
          option_map (fun x => fold_left (fun acc f => LDerive f acc) fs x) (lin_of fuel' ps p)
      | Some (HJoin g l r', wrapped) =>
          match lin_of fuel' ps l, lin_of fuel' ps r' with
          | Some a, Some b =>
              Some (if wrapped then LDerive FWrap (LJoin g a b) else LJoin g a b)
          | _, _ => None
          end
      | _ => None
      end
  end.

Definition total_calls (ps : list (list hcall)) : nat := fold_right (fun p n => (List.length p + n)%nat) O ps.

(* ---------- comparing an observed collect outcome ---------- *)
Definition same_outcome (perm : bool) (m : outcome (list val)) (o : J) : bool :=
  match m, o with
  | Ok l, JL [JS tag; JI n; JI s1; JI s2] =>
      String.eqb tag "okd" &&
      (let '(n', s1', s2') := digest l in
       (n =? n') && (s1 =? s1') && (perm || (s2 =? s2')))
  | Ok l, JL [JS tag; rows] =>
      String.eqb tag "ok" &&
      match dec_rows rows with
      | Some l' => if perm then perm_eqb l l' else list_eqb l l'
      | None => false
      end
  | Err ENestedCoGroup, JL [JS tag; JS cls] =>
      String.eqb tag "err" && String.eqb cls "nested_cogroup"
  | _, _ => false
  end.

(* ---------- replay of a history on the model ---------- *)
Inductive mcall : Type :=
| MSrc (d : list val)
| MDerive (f : fname) (r : ref)
| MJoin (g : gname) (l r : ref)
| MChain (f : fname)           (* derive from the handle this thread's previous model call made *)
| MCollect (r : ref).

(* a builder that inserts several nodes is several model calls of the same thread, back to
   back; only the last one's handle is handed to the caller (`publish`) *)
Fixpoint chain_calls (ci off : nat) (fs : list fname) : list (nat * nat * mcall * bool) :=
  match fs with
  | [] => []
  | f :: rest =>
      (ci, off, MChain f, match rest with [] => true | _ => false end)
        :: chain_calls ci (S (S off)) rest
  end.

(* (harness call index, lock offset inside it, model call, publish the handle?) *)
Fixpoint expand (ci : nat) (p : list hcall) : list (nat * nat * mcall * bool) :=
  match p with
  | [] => []
  | c :: rest =>
      (match c with
       | HSrc dm _ => [(ci, O, MSrc dm, true)]
       | HSrcW dm _ => [(ci, O, MSrc dm, false); (ci, 1%nat, MChain FWrap, true)]
       | HDerive [] _ => []
       | HDerive (f :: fs) r =>
           (ci, O, MDerive f r, match fs with [] => true | _ => false end)
             :: chain_calls ci 2%nat fs
       | HJoin g l r => [(ci, O, MJoin g l r, true); (ci, 5%nat, MChain FWrap, true)]
       | HCollect _ r _ => [(ci, O, MCollect r, true)]
       end) ++ expand (S ci) rest
  end.

Inductive item : Type :=
| IH (id : nat)
| IC (x : handle) (plan : outcome (list node))
| IP.

Record drv : Type := mk_drv {
  d_cfg : config;
  d_rem : list (list (nat * nat * mcall * bool));  (* per thread: model calls still to start *)
  d_cur : list (nat * nat * bool);           (* per thread: (harness call, next lock, publish) *)
  d_prod : list (list nat);                  (* per thread: pool indices of its PUBLISHED handles *)
  d_last : list nat;                         (* per thread: pool index of its latest model handle *)
  d_turns : list (nat * nat * nat);          (* reversed *)
  d_items : list (nat * nat * item)          (* reversed: (thread, harness call, item) *)
}.

Fixpoint upd {A} (l : list A) (i : nat) (x : A) : list A :=
  match l, i with
  | [], _ => []
  | _ :: r, O => x :: r
  | y :: r, S i' => y :: upd r i' x
  end.

Definition resolve (prod : list (list nat)) (r : ref) : option nat :=
  nth_error (nth (fst r) prod []) (snd r).

Definition to_call (d : drv) (t : nat) (m : mcall) : option (call val fname gname) :=
  let prod := d_prod d in
  match m with
  | MSrc x => Some (CSource x)
  | MDerive f r => option_map (CDerive f) (resolve prod r)
  | MJoin g l r =>
      match resolve prod l, resolve prod r with
      | Some a, Some b => Some (CJoin g a b)
      | _, _ => None
      end
  | MChain f => option_map (CDerive f) (nth_error (d_last d) t)
  | MCollect r => option_map CCollect (resolve prod r)
  end.

Definition item_of (e : event val fname gname) : item :=
  match e with
  | EvHandle _ h => IH (h_id h)
  | EvCollect _ x plan => IC x plan
  | EvPanic _ => IP
  end.
Definition is_handle_event (e : event val fname gname) : bool :=
  match e with EvHandle _ _ => true | _ => false end.

(* one granted turn of thread t; None = the input is not a valid history *)
Definition turn (d : drv) (t : nat) : option drv :=
  let ts := c_threads (d_cfg d) t in
  let go (d : drv) (oc : option (call val fname gname)) : option drv :=
    match cstep (d_cfg d) (t, oc) with
    | Some (cfg', evs) =>
        let '(ci, st, pub) := nth t (d_cur d) (O, O, true) in
        let npool := List.length (c_pool (d_cfg d)) in
        let made := match handles_of evs with [] => false | _ => true end in
        let prod' := if made && pub then upd (d_prod d) t (nth t (d_prod d) [] ++ [npool])
                     else d_prod d in
        let last' := if made then upd (d_last d) t npool else d_last d in
        let shown := filter (fun e => pub || negb (is_handle_event e)) evs in
        Some (mk_drv cfg' (d_rem d) (upd (d_cur d) t (ci, S st, pub)) prod' last'
                     ((t, ci, st) :: d_turns d)
                     (rev (map (fun e => (t, ci, item_of e)) shown) ++ d_items d))
    | None => None
    end in
  match ts with
  | Dead => Some d
  | Busy _ => go d None
  | Idle =>
      match nth t (d_rem d) [] with
      | [] => Some d                                   (* finished: the grant is skipped *)
      | (ci, off, m, pub) :: rest =>
          match to_call d t m with
          | Some c =>
              go (mk_drv (d_cfg d) (upd (d_rem d) t rest) (upd (d_cur d) t (ci, off, pub))
                         (d_prod d) (d_last d) (d_turns d) (d_items d)) (Some c)
          | None => None
          end
      end
  end.

Fixpoint turns_of (d : drv) (sched : list nat) : option drv :=
  match sched with
  | [] => Some d
  | t :: rest => match turn d t with Some d' => turns_of d' rest | None => None end
  end.

Definition replay (ps : list (list hcall)) (sched : list nat) : option drv :=
  let n := List.length ps in
  let drain := flat_map (fun t => repeat t (fold_right (fun c a => (hsteps c + a)%nat) O (nth t ps [])))
                        (seq 0 n) in
  turns_of (mk_drv init_config (map (expand O) ps) (repeat (O, O, true) n) (repeat [] n)
                   (repeat O n) [] [])
           (sched ++ drain).

(* ---------- observed side ---------- *)
Definition dec_turn (j : J) : option (nat * nat * nat * Z) :=
  match j with
  | JL [JI t; JI c; JI s; JI cnt] =>
      if (0 <=? t) && (0 <=? c) && (0 <=? s)
      then Some (Z.to_nat t, Z.to_nat c, Z.to_nat s, cnt) else None
  | _ => None
  end.

Fixpoint turns_eqb (m : list (nat * nat * nat)) (o : list (nat * nat * nat * Z)) : bool :=
  match m, o with
  | [], [] => true
  | (t, c, s) :: m', (t', c', s', _) :: o' =>
      Nat.eqb t t' && Nat.eqb c c' && Nat.eqb s s' && turns_eqb m' o'
  | _, _ => false
  end.

Definition items_at (items : list (nat * nat * item)) (t ci : nat) : list item :=
  map snd (filter (fun x => Nat.eqb (fst (fst x)) t && Nat.eqb (snd (fst x)) ci) items).

(* one observed call result against the model's items of that call; `locks` = false in the
   free-running kind, where lock counts are not observed *)
Definition result_agrees (locks : bool) (c : hcall) (its : list item) (o : J) : bool :=
  let nl (n : Z) := negb locks || (n =? Z.of_nat (hsteps c)) in
  match c, o, its with
  | HCollect m _ _, JL [JS tag; out; JI n], [IC x plan] =>
      String.eqb tag "c" && nl n &&
      same_outcome (mode_sorted m || has_join (h_lin x)) (collect_value interp_f interp_g plan) out
  | HJoin _ _ _, JL [JS tag; JI raw; JI id; JI n], [IH a; IH b] =>
      String.eqb tag "hh" && nl n && (raw =? Z.of_nat a) && (id =? Z.of_nat b)
  | HCollect _ _ _, _, _ => false
  | HJoin _ _ _, _, _ => false
  | _, JL [JS tag; JI id; JI n], [IH a] =>
      String.eqb tag "h" && nl n && (id =? Z.of_nat a)
  | _, _, _ => false
  end.

Fixpoint zip_all {A B} (f : nat -> A -> B -> bool) (i : nat) (a : list A) (b : list B) : bool :=
  match a, b with
  | [], [] => true
  | x :: a', y :: b' => f i x y && zip_all f (S i) a' b'
  | _, _ => false
  end.

Definition jl (j : J) : list J := match j with JL l => l | _ => [] end.
Definition is_jl (j : J) : bool := match j with JL _ => true | _ => false end.

(* ---------- the property instance on the observed results ---------- *)
Definition result_prop (ps : list (list hcall)) (c : hcall) (o : J) : bool :=
  match c, o with
  | _, JL [JS "unavailable"%string] => true
      (* the harness could not issue the call (a referenced handle did not exist yet because
         the real lock sequence deviated from the model's): a disagreement, reported through
         `agree`, but no observation about the property *)
  | HCollect m r _, JL [JS tag; out; JI _] =>
      String.eqb tag "c" &&
      match lin_of (S (total_calls ps)) ps r with
      | Some lin => same_outcome (mode_sorted m || has_join lin)
                                 (value_of_lineage interp_f interp_g lin) out
      | None => false
      end
  | HCollect _ _ _, _ => false
  | _, JL (JS tag :: _) => String.eqb tag "h" || String.eqb tag "hh"
  | _, _ => false
  end.

Definition ids_of_result (o : J) : list Z :=
  match o with
  | JL [JS _; JI a; JI _] => [a]
  | JL [JS _; JI a; JI b; JI _] => [a; b]
  | _ => []
  end.
Fixpoint nodup_z (l : list Z) : bool :=
  match l with [] => true | x :: r => negb (existsb (Z.eqb x) r) && nodup_z r end.

(* laziness on the observed counter: a turn that belongs to a build call (src / map / filter /
   join) never changes the closure-call counter; only turns of collect calls may *)
Definition is_collect_turn (ps : list (list hcall)) (t ci : nat) : bool :=
  match nth_error (nth t ps []) ci with
  | Some (HCollect _ _ _) => true
  | _ => false
  end.
Fixpoint counter_ok (ps : list (list hcall)) (prev : Z) (o : list (nat * nat * nat * Z)) : bool :=
  match o with
  | [] => true
  | (t, ci, st, cnt) :: r =>
      (if is_collect_turn ps t ci then prev <=? cnt else cnt =? prev) && counter_ok ps cnt r
  end.

Definition shapes_ok (ps : list (list hcall)) (res : list J) : bool :=
  Nat.eqb (List.length ps) (List.length res) &&
  forallb (fun pr => is_jl (snd pr) && Nat.eqb (List.length (fst pr)) (List.length (jl (snd pr))))
          (combine ps res).

(* every collect returned the lineage value (ids: ids_distinct below) *)
Definition prop_values (ps : list (list hcall)) (res : list J) : bool :=
  shapes_ok ps res &&
  forallb (fun pr => forallb (fun co => result_prop ps (fst co) (snd co))
                             (combine (fst pr) (jl (snd pr))))
          (combine ps res).
Definition ids_distinct (res : list J) : bool :=
  nodup_z (flat_map (fun r => flat_map ids_of_result (jl r)) res).
Definition prop_results (ps : list (list hcall)) (res : list J) : bool :=
  prop_values ps res && ids_distinct res.

(* ---------- several pipelines: projection on the threads of one pipeline ---------- *)
Definition pipe_of (pipes : list nat) (t : nat) : nat := nth t pipes O.
Definition mask {A} (pipes : list nat) (q : nat) (dflt : A) (l : list A) : list A :=
  map (fun tp => if Nat.eqb (pipe_of pipes (fst tp)) q then snd tp else dflt)
      (combine (seq 0 (List.length l)) l).
Definition npipes (pipes : list nat) : nat := S (fold_right Nat.max O pipes).
(* a call may only reference handles of threads of its own pipeline *)
Definition call_refs (c : hcall) : list ref :=
  match c with
  | HDerive _ r => [r] | HJoin _ l r => [l; r] | HCollect _ r _ => [r] | _ => []
  end.
Definition refs_local (pipes : list nat) (ps : list (list hcall)) : bool :=
  forallb (fun tp => forallb (fun c => forallb (fun r => Nat.eqb (pipe_of pipes (fst r))
                                                               (pipe_of pipes (fst tp)))
                                              (call_refs c)) (snd tp))
          (combine (seq 0 (List.length ps)) ps).

Definition dec_env (n : Z) (j : J) : option (list nat * list file) :=
  match j with
  | JL [jp; jf] =>
      match dec_nats jp, dec_files jf with
      | Some pipes, Some files =>
          if (Z.of_nat (List.length pipes) =? n) && forallb (fun q => Nat.leb q 3) pipes
          then Some (pipes, files) else None
      | _, _ => None
      end
  | _ => None
  end.

Definition agree_results (locks : bool) (ps : list (list hcall))
           (items : list (nat * nat * item)) (res : list J) : bool :=
  shapes_ok ps res &&
  zip_all (fun t p r =>
             zip_all (fun ci c o => result_agrees locks c (items_at items t ci) o) O p (jl r))
          O ps res.

Definition check_hist_env (n : Z) (jps jsched : J) (pipes : list nat) (files : list file)
           (output : J) : verdict :=
  match dec_programs files jps, dec_nats jsched with
  | Some ps, Some sched =>
      if negb (Z.of_nat (List.length ps) =? n) || negb (refs_local pipes ps) then malformed else
      let qs := seq 0 (npipes pipes) in
      let in_q (q t : nat) := Nat.eqb (pipe_of pipes t) q in
      (* one replay per pipeline, on the threads of that pipeline *)
      match omap (fun q => replay (mask pipes q [] ps) (filter (in_q q) sched)) qs with
      | None => malformed             (* the harness only runs valid histories *)
      | Some ds =>
          match output with
          | JL [JS tag; JL jturns; JL res] =>
              if negb (String.eqb tag "ok") then ok_verdict false false else
              match omap dec_turn jturns with
              | Some oturns =>
                  let agree :=
                    forallb (fun qd =>
                               let '(q, d) := qd in
                               turns_eqb (rev (d_turns d))
                                         (filter (fun x => in_q q (fst (fst (fst x)))) oturns) &&
                               agree_results true (mask pipes q [] ps) (rev (d_items d))
                                             (mask pipes q (JL []) res))
                            (combine qs ds) in
                  let prop :=
                    prop_values ps res &&
                    forallb (fun q => ids_distinct (mask pipes q (JL []) res)) qs &&
                    counter_ok ps 0 oturns in
                  ok_verdict agree prop
              | None => malformed
              end
          | JL [JS _] => ok_verdict false false     (* hang / panic *)
          | _ => malformed
          end
      end
  | _, _ => malformed
  end.

Definition check_hist (input output : J) : verdict :=
  match input with
  | JL [JI n; jps; jsched] =>
      check_hist_env n jps jsched (repeat O (Z.to_nat n)) [] output
  | JL [JI n; jps; jsched; jenv] =>
      match dec_env n jenv with
      | Some (pipes, files) => check_hist_env n jps jsched pipes files output
      | None => malformed
      end
  | _ => malformed
  end.

(* free-running threads: the interleaving is unknown, the model allows exactly the outcomes
   in which ids are a partial injection into 0..#inserts-1 and every collect returns the
   lineage value (c08_lineage_only: the same for every interleaving) *)
Definition check_stress_env (n : Z) (jps : J) (files : list file) (output : J) : verdict :=
  match dec_programs files jps with
  | Some ps =>
      if negb (Z.of_nat (List.length ps) =? n) then malformed else
      match output with
      | JL [JS tag; JL res; JI _] =>
          if negb (String.eqb tag "ok") then ok_verdict false false else
          let ids := flat_map (fun r => flat_map ids_of_result (jl r)) res in
          let ninserts := fold_right (fun p a => (fold_right (fun c b => (hinserts c + b)%nat) O p + a)%nat) O ps in
          let prop := prop_results ps res in
          let agree := prop && forallb (fun i => (0 <=? i) && (i <? Z.of_nat ninserts)) ids in
          ok_verdict agree prop
      | JL [JS _] => ok_verdict false false
      | _ => malformed
      end
  | None => malformed
  end.
Definition check_stress (input output : J) : verdict :=
  match input with
  | JL [JI n; jps] => check_stress_env n jps [] output
  | JL [JI n; jps; jenv] =>
      match dec_env n jenv with
      | Some (pipes, files) =>
          if forallb (Nat.eqb O) pipes then check_stress_env n jps files output else malformed
      | None => malformed
      end
  | _ => malformed
  end.

Definition check_C08 (kind : string) (input output : J) : verdict :=
  if String.eqb kind "hist" then check_hist input output
  else if String.eqb kind "stress" then check_stress input output
  else malformed.
