(* Correspondence for C01 (sequential and parallel execution return the same result).
   kind "pair": in = [src, steps, partitions], out = [seq outcome, par outcome] of the REAL
   pipeline (collect_seq and collect_par(threads, partitions) of the same program).
   agree : each observed outcome is what the engine model predicts for that mode (Canon.cmp_of:
           exact sequence when no step iterates a hash map; else multiset of exactly compared
           rows; nested lists as bags only when a list is itself built from a map's order);
   prop  : the parallel outcome equals the sequential one (same class, same comparison mode),
           and neither run hangs.  Programs
           with a non-element-wise batch function (rev / droplast per chunk) are legitimately
           partition dependent: prop is not claimed for them (agree still is).
   known : the reorder class (Canon.reorder_changes, shared with C02): a program of the class is
           mis-planned identically in both modes, but with a type-changing map_values moved behind
           its filter_values the sequential engine panics on its single (even empty) buffer while
           the parallel engine over an EMPTY streamed source has no partition to apply the
           operator to and returns [] - so par = seq is not claimed inside the class. *)
From Coq Require Import List ZArith Bool String.
From IB Require Import Util.J Engine.Val Engine.Lang Engine.Denote Engine.Decode Engine.Canon.
Import ListNotations.

Definition not_hang (o : obs) : bool := match o with OHang => false | _ => true end.

Definition check_C01 (kind : string) (input output : J) : verdict :=
  if String.eqb kind "pair" then
    match dec_prog input, output with
    | Some (s, steps, MPar n), JL [jseq; jpar] =>
        match dec_obs jseq, dec_obs jpar with
        | Some oseq, Some opar =>
            let agree := agree_model MSeq s steps oseq && agree_model (MPar n) s steps opar in
            let prop :=
              not_hang oseq && not_hang opar &&
              (partition_dependent (steps_size steps) steps
               || obs_agree (cmp_of steps) oseq opar) in
            V agree prop (reorder_changes s steps) false
        | _, _ => malformed
        end
    | _, _ => malformed
    end
  else if String.eqb kind "branchpair" then
    (* in = [src, prefix, a, b, partitions]; out = [[base, B, A] sequential, [base, B, A] parallel]:
       the three handles are built first in one pipeline, then collected in both modes *)
    match dec_branch input, output with
    | Some (s, pre, a, b, MPar n), JL [jseq; jpar] =>
        match dec_triple jseq, dec_triple jpar with
        | Some (s0, sb, sa), Some (p0, pb, pa) =>
            let one (steps : list step) (oseq opar : obs) : bool * bool :=
              (agree_model MSeq s steps oseq && agree_model (MPar n) s steps opar,
               not_hang oseq && not_hang opar &&
               (partition_dependent (steps_size steps) steps
                || obs_agree (cmp_of steps) oseq opar)) in
            let '(a0, q0) := one pre s0 p0 in
            let '(a1, q1) := one (pre ++ b) sb pb in
            let '(a2, q2) := one (pre ++ a) sa pa in
            V (a0 && a1 && a2) (q0 && q1 && q2)
              (reorder_changes s pre || reorder_changes s (pre ++ a) || reorder_changes s (pre ++ b)) false
        | _, _ => malformed
        end
    | _, _ => malformed
    end
  else if String.eqb kind "bigpair" then
    (* as "pair", both observations replaced by Canon.summary (big inputs) *)
    match dec_prog input, output with
    | Some (s, steps, MPar n), JL [jseq; jpar] =>
        match dec_obs jseq, dec_obs jpar with
        | Some oseq, Some opar =>
            if big_ok steps then
              let e := is_exact steps in
              V (big_agree MSeq s steps oseq && big_agree (MPar n) s steps opar)
                (not_hang oseq && not_hang opar &&
                 (partition_dependent (steps_size steps) steps
                  || obs_agree CExact (observed_summary e oseq) (observed_summary e opar)))
                (reorder_changes s steps) false
            else malformed
        | _, _ => malformed
        end
    | _, _ => malformed
    end
  else malformed.
