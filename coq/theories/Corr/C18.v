(* Correspondence for C18: runs the model Cloud/Ops.v on the cases the harness ran on the real
   helpers (harness/src/bin/c18.rs) and decides agreement and the property instance in Coq.

   Every kind is judged twice:
     agree = observed outcome = what the MODEL (Cloud/Ops.v) computes,
     prop  = observed outcome = what an independent REFERENCE written directly from the property
             text computes (no retry loop, no chunk loop, no page loop: closed forms over lists).

   Symbols: 0 = Ok, 1..4 transient kinds, 5..11 permanent kinds (table shared with c18.rs).
   Call i of a scripted closure answers with symbol `nth i script (last script 0)`; Ok carries i,
   an error carries the payload i; the error built by with_timeout carries -1.

   Decoding shortcuts that are NOT part of the model, each backed by a lemma of
   Proofs/CloudOps.v:
     - a chunk size larger than the number of items is clamped to (number of items + 1) before
       it becomes a `nat` (chunks_clamp);
     - the fuel given to `paginate` is (script length + min(max_pages, 5000) + 2); a `Diverge`
       from the model is reported as a disagreement. *)
From Coq Require Import Floats.
From Coq Require Uint63.
From Coq Require Import List ZArith NArith Bool String.
From IB Require Import Util.J Cloud.Ops.
Import ListNotations.
Open Scope Z_scope.

(* ---------- shared tables ---------- *)
Definition kind_of (s : Z) : kind :=
  match s with
  | 1 => Network | 2 => Timeout | 3 => ServiceUnavailable | 4 => RateLimited
  | 5 => Authentication | 6 => Authorization | 7 => NotFound | 8 => AlreadyExists
  | 9 => InvalidInput | 10 => InternalError | _ => Other
  end.
Definition kind_code (k : kind) : Z :=
  match k with
  | Network => 1 | Timeout => 2 | ServiceUnavailable => 3 | RateLimited => 4
  | Authentication => 5 | Authorization => 6 | NotFound => 7 | AlreadyExists => 8
  | InvalidInput => 9 | InternalError => 10 | Other => 11
  end.
Definition sym_ok (s : Z) : bool := (0 <=? s) && (s <=? 11).

Definition sym_res (s i : Z) : res Z Z := if s =? 0 then ROk i else RErr (kind_of s) i.
Definition script_op (s : list Z) : nat -> res Z Z :=
  let d := last s 0 in fun i => sym_res (nth i s d) (Z.of_nat i).

Definition zrange (n : Z) : list Z := map Z.of_nat (seq 0 (Z.to_nat n)).

Fixpoint zlist_eqb (a b : list Z) : bool :=
  match a, b with
  | [], [] => true
  | x :: a', y :: b' => (x =? y) && zlist_eqb a' b'
  | _, _ => false
  end.
Fixpoint zll_eqb (a b : list (list Z)) : bool :=
  match a, b with
  | [], [] => true
  | x :: a', y :: b' => zlist_eqb x y && zll_eqb a' b'
  | _, _ => false
  end.

(* canonical enumeration shared with c18.rs: by length, first element slowest *)
Fixpoint seqs_of_len {A} (syms : list A) (n : nat) : list (list A) :=
  match n with
  | O => [[]]
  | S n' => flat_map (fun s => map (cons s) (seqs_of_len syms n')) syms
  end.
Definition all_seqs {A} (syms : list A) (maxlen : nat) : list (list A) :=
  flat_map (seqs_of_len syms) (seq 0 (S maxlen)).
Definition syms12 : list Z := Eval vm_compute in zrange 12.
Definition tails2 : list (list Z) := Eval vm_compute in all_seqs syms12 2.
Definition tails3 : list (list Z) := Eval vm_compute in all_seqs syms12 3.
Definition tails (extra : Z) : list (list Z) :=
  if extra =? 0 then [[]] else if extra =? 2 then tails2 else if extra =? 3 then tails3
  else all_seqs syms12 (Z.to_nat extra).

(* rolling digest, arithmetic mod 2^63 on primitive integers (execution only) *)
Definition dig_b : PrimInt63.int := Eval vm_compute in Uint63.of_Z 1099511628211.
Definition dig_mask : PrimInt63.int := Eval vm_compute in Uint63.of_Z (2 ^ 61 - 1).
Definition dig (h : PrimInt63.int) (x : Z) : PrimInt63.int :=
  PrimInt63.add (PrimInt63.mul h dig_b) (Uint63.of_Z (x + 1)).
Definition dig_fin (h : PrimInt63.int) : Z := Uint63.to_Z (PrimInt63.land h dig_mask).
Definition dig0 : PrimInt63.int := Eval vm_compute in Uint63.of_Z 0.

(* ---------- retry-like wrappers: model side ---------- *)
Definition cfg0 (b : N) : retry_cfg :=
  {| max_attempts := b; initial_delay_ms := 0; max_delay_ms := 0; mult_ge2 := true |}.

Definition code_of_run (r : run Z Z) : list Z :=
  match run_out r with
  | Done (ROk v) => [Z.of_nat (run_calls r); 0; v + 1]
  | Done (RErr k m) => [Z.of_nat (run_calls r); kind_code k; m + 1]
  | Panic => [-1]
  | Diverge => [-2]
  end.

Definition code_of_io (r : outcome (list Z) Z * list Z * list N) : list Z :=
  let '(o, tr, _) := r in
  match o with
  | Done (ROk vs) => Z.of_nat (List.length tr) :: 0 :: tr ++ map (Z.add 1) vs
  | Done (RErr k m) => Z.of_nat (List.length tr) :: kind_code k :: tr ++ [m + 1]
  | Panic => [-1]
  | Diverge => [-2]
  end.

Definition hour_ns : N := 3600000000000.

Definition model_wrapper (w : Z) (b : N) (overrun : bool) (s : list Z) : list Z :=
  let c := cfg0 b in
  let op := script_op s in
  let t := if overrun then 0%N else hour_ns in
  let el := if overrun then 1%N else 0%N in
  match w with
  | 0 => code_of_run (retry c op 0)
  | 1 => code_of_run (run_with_retry c op 0)
  | 2 => code_of_run (run_cloud_io_with_retry c op 0)
  | 3 => code_of_run (builder_execute (-1) (Some c) None el op 0)
  | 4 => code_of_run (builder_execute (-1) (Some c) (Some t) el op 0)
  | 5 => code_of_run (executor_execute (-1) (Some c) None el op 0)
  | 6 => code_of_run (executor_execute (-1) (Some c) (Some t) el op 0)
  | 7 => code_of_run (run_with_timeout_and_retry (-1) c t el op 0)
  | 8 => code_of_run (run_cloud_io_with_retry_and_timeout (-1) c t el op 0)
  | 9 => code_of_io (io_batch c (fun i (_ : Z) => op i) [1; 2; 3] 0)
  | 10 => code_of_run (builder_execute (-1) None None el op 0)
  | 11 => code_of_run (builder_execute (-1) None (Some t) el op 0)
  | 12 => code_of_run (executor_execute (-1) None None el op 0)
  | 13 => code_of_run (executor_execute (-1) None (Some t) el op 0)
  | _ => [-3]
  end.

(* ---------- retry-like wrappers: reference side (from the property text) ----------
   attempts = min (max 1 budget) (1 + number of leading transient outcomes);
   the caller gets the outcome of attempt number `attempts`. *)
Definition is_tr (s : Z) : bool := (1 <=? s) && (s <=? 4).
Fixpoint lead_tr (l : list Z) : nat :=
  match l with x :: r => if is_tr x then S (lead_tr r) else O | [] => O end.

Definition ref_retry (b : N) (s : list Z) (from : nat) : nat * Z :=
  let bb := N.to_nat (N.max 1 b) in
  let d := last s 0 in
  let outs := map (fun i => nth (from + i) s d) (seq 0 bb) in
  let a := Nat.min bb (S (lead_tr outs)) in
  (a, nth (a - 1) outs 0).

Definition has_retry (w : Z) : bool := w <? 10.
Definition has_timeout (w : Z) : bool :=
  (w =? 4) || (w =? 6) || (w =? 7) || (w =? 8) || (w =? 11) || (w =? 13).

Fixpoint ref_io (b : N) (s : list Z) (items : list Z) (from : nat) (tr vs : list Z) : list Z :=
  match items with
  | [] => Z.of_nat (List.length tr) :: 0 :: tr ++ map (Z.add 1) vs
  | x :: rest =>
      let '(a, sym) := ref_retry b s from in
      let tr' := tr ++ repeat x a in
      if sym =? 0 then ref_io b s rest (from + a) tr' (vs ++ [Z.of_nat (from + a - 1)])
      else Z.of_nat (List.length tr') :: sym :: tr' ++ [Z.of_nat (from + a - 1) + 1]
  end.

Definition ref_wrapper (w : Z) (b : N) (overrun : bool) (s : list Z) : list Z :=
  if w =? 9 then ref_io b s [1; 2; 3] 0 [] []
  else
    let '(a, sym) := if has_retry w then ref_retry b s 0 else (1%nat, nth 0 s 0) in
    if (sym =? 0) && has_timeout w && overrun then [Z.of_nat a; 2; 0]
    else [Z.of_nat a; sym; Z.of_nat a].

(* ---------- judging rows and buckets ---------- *)
Fixpoint judge_rows (obs : list J) (scripts : list (list Z)) (f g : list Z -> list Z)
  : option (bool * bool) :=
  match obs, scripts with
  | [], [] => Some (true, true)
  | o :: obs', s :: scripts' =>
      match jints o, judge_rows obs' scripts' f g with
      | Some code, Some (a, p) => Some (zlist_eqb code (f s) && a, zlist_eqb code (g s) && p)
      | _, _ => None
      end
  | _, _ => None
  end.

Definition digest_of (scripts : list (list Z)) (f : list Z -> list Z) : Z :=
  dig_fin (fold_left (fun h s => fold_left dig (f s) h) scripts dig0).

Definition is_panic (j : J) : bool :=
  match j with JL [JS s] => String.eqb s "panic" | _ => false end.

(* ---------- canonical results ---------- *)
Inductive cres := CROk (vs : list Z) | CRErr (code origin : Z) | CROther (tag : Z).
Definition cres_eqb (a b : cres) : bool :=
  match a, b with
  | CROk x, CROk y => zlist_eqb x y
  | CRErr c o, CRErr c' o' => (c =? c') && (o =? o')
  | CROther t, CROther t' => t =? t'
  | _, _ => false
  end.
Definition cres_of_res (r : res (list Z) Z) : cres :=
  match r with ROk vs => CROk vs | RErr k m => CRErr (kind_code k) m end.
Definition cres_of_outcome (o : outcome (list Z) Z) : cres :=
  match o with Done r => cres_of_res r | Panic => CROther 1 | Diverge => CROther 2 end.
Definition dec_cres (j : J) : option cres :=
  match j with
  | JL [JS t; vs] =>
      if String.eqb t "ok" then match jints vs with Some l => Some (CROk l) | None => None end
      else None
  | JL [JS t; JI c; JI o] => if String.eqb t "err" then Some (CRErr c o) else None
  | _ => None
  end.

(* ---------- batch ---------- *)
Definition batch_process (fail : Z) (dup : bool) (errsym : Z) (idx : nat) (ch : list Z)
  : res (list Z) Z :=
  let j := Z.of_nat idx in
  if j =? fail then RErr (kind_of errsym) j
  else ROk (flat_map (fun x => let v := x * 100 + j in if dup then [v; v] else [v]) ch).

(* property instance, judged on the OBSERVED hand-over (the property does not fix the chunk
   boundaries): every chunk handed over is non-empty and no longer than max(size,1); their
   concatenation is a prefix of the items, in order, each once; the processor's call number
   `fail` - if it happened - is the LAST call and its error is the result; otherwise every item
   was handed over and the result is the concatenation of what the processor returned *)
Definition zlen {A} (l : list A) : Z := Z.of_nat (List.length l).
Definition prop_batch (n size fail : Z) (dup : bool) (errsym : Z) (tr : list (list Z)) (r : cres)
  : bool :=
  let s := Z.max size 1 in
  let handed := List.concat tr in
  let nch := zlen tr in
  forallb (fun ch => (1 <=? zlen ch) && (zlen ch <=? s)) tr
  && zlist_eqb handed (zrange (zlen handed)) && (zlen handed <=? n)
  && (if (0 <=? fail) && (fail <? nch)
      then (nch =? fail + 1) && cres_eqb r (CRErr (kind_code (kind_of errsym)) fail)
      else (zlen handed =? n)
           && cres_eqb r (CROk (flat_map (fun p => let j := Z.of_nat (fst p) in
                                           flat_map (fun x => let v := x * 100 + j in
                                                              if dup then [v; v] else [v]) (snd p))
                                         (combine (seq 0 (List.length tr)) tr)))).

Definition dec_trace (j : J) : option (list (list Z)) :=
  match j with JL l => omap jints l | _ => None end.

(* ---------- paginate ---------- *)
Inductive pg := PgErr (sym : Z) | PgOk (size : Z) (has_more : bool).
Definition dec_pg (j : J) : option pg :=
  match j with
  | JL [JI 0; JI size; JB hm] => Some (PgOk size hm)
  | JL [JI 1; JI sym] => Some (PgErr sym)
  | _ => None
  end.
Definition pg_items (j : Z) (p : pg) : list Z :=
  match p with PgErr _ => [] | PgOk size _ => map (fun x => j * 100 + x) (zrange size) end.
Definition pg_fetch (script : list pg) (tail : pg) (page _ : N) : res (list Z * bool) Z :=
  let j := N.to_nat page in
  match nth j script tail with
  | PgErr sym => RErr (kind_of sym) (Z.of_nat j)
  | PgOk size hm => ROk (pg_items (Z.of_nat j) (PgOk size hm), hm)
  end.
Definition pg_good (p : pg) : bool :=
  match p with PgOk size hm => (0 <? size) && hm | PgErr _ => false end.

(* reference: n = first page index that is at the limit or not "good" (non-empty, has_more);
   result by what page n is *)
Definition ref_page (ps : Z) (mp : option Z) (script : list pg) (tail : pg) (bound : nat)
  : list (list Z) * cres :=
  let page j := nth j script tail in
  let limit j := match mp with Some m => m <=? Z.of_nat j | None => false end in
  match find (fun j => limit j || negb (pg_good (page j))) (seq 0 bound) with
  | None => ([], CROther 2)
  | Some n =>
      let cat k := flat_map (fun j => pg_items (Z.of_nat j) (page j)) (seq 0 k) in
      let calls k := map (fun j => [Z.of_nat j; ps]) (seq 0 k) in
      if limit n then (calls n, CROk (cat n))
      else match page n with
           | PgErr sym => (calls (S n), CRErr (kind_code (kind_of sym)) (Z.of_nat n))
           | PgOk size _ => (calls (S n), CROk (cat (if 0 <? size then S n else n)))
           end
  end.

(* ---------- timing ---------- *)
Fixpoint lead_ok (l : list Z) : nat :=
  match l with x :: r => if x =? 0 then S (lead_ok r) else O | [] => O end.

(* ---------- the check ----------
   A case whose INPUT does not decode is `malformed` (infrastructure).  An OUTPUT that does not
   decode is a disagreement when it is ["panic"] (the helpers never panic on these inputs) and
   malformed otherwise. *)
Definition bad_out (output : J) : verdict :=
  if is_panic output then ok_verdict false false else malformed.

Definition check_retry (is_row : bool) (input output : J) : verdict :=
  match input with
  | JL [JI w; JI b; jp; JI extra; JB overrun] =>
      match jints jp with
      | Some prefix =>
          if negb (forallb sym_ok prefix && (0 <=? b) && (0 <=? extra) && (extra <=? 6)
                   && (0 <=? w) && (w <=? 13))
          then malformed else
          let scripts := map (app prefix) (tails extra) in
          let f := model_wrapper w (Z.to_N b) overrun in
          let g := ref_wrapper w (Z.to_N b) overrun in
          if is_row then
            match output with
            | JL obs => match judge_rows obs scripts f g with
                        | Some (a, p) => ok_verdict a p
                        | None => bad_out output
                        end
            | _ => bad_out output
            end
          else
            match output with
            | JI d => ok_verdict (d =? digest_of scripts f) (d =? digest_of scripts g)
            | _ => bad_out output
            end
      | None => malformed
      end
  | _ => malformed
  end.

(* plain retry_with_backoff with a budget too large for unary fuel (up to u32::MAX):
   in = [budget, script]; the model loop is run with fuel = script length + 2, which is the
   full run unless it answers Diverge (Proofs/CloudOps.v, retry_loop_enough_fuel) *)
Definition check_big (input output : J) : verdict :=
  match input with
  | JL [JI b; jp] =>
      match jints jp with
      | Some s =>
          if negb (forallb sym_ok s && (0 <=? b)) then malformed else
          match jints output with
          | Some code =>
              let c := cfg0 (Z.to_N b) in
              let m := code_of_run (retry_loop c (script_op s) (List.length s + 2) 0 0 0) in
              let lead := lead_tr s in
              let a := Z.min (Z.max 1 b) (Z.of_nat lead + 1) in
              let sym := nth (Z.to_nat (a - 1)) s (last s 0) in
              ok_verdict (zlist_eqb code m) (zlist_eqb code [a; sym; a])
          | None => bad_out output
          end
      | None => malformed
      end
  | _ => malformed
  end.

(* builder construction sequences: in = [which, ctor, setters, script]; the closure makes the
   clock advance (elapsed = 1 ns), a timeout is 1 h (tmode 0) or zero (tmode 1).
   model: builder_run / executor_run on the decoded setter list;
   reference: scan the list from the end for the last [0, b] and the last [1, m] *)
Definition dec_setter (j : J) : option setter :=
  match j with
  | JL [JI 0; JI b] => if 0 <=? b then Some (SetRetry (cfg0 (Z.to_N b))) else None
  | JL [JI 1; JI m] => if m =? 0 then Some (SetTimeout hour_ns)
                       else if m =? 1 then Some (SetTimeout 0%N) else None
  | _ => None
  end.
Definition raw_setter (j : J) : option (Z * Z) :=
  match j with JL [JI f; JI v] => Some (f, v) | _ => None end.

Definition check_bseq (input output : J) : verdict :=
  match input with
  | JL [JI which; JI ctor; JL jss; jscript] =>
      match omap dec_setter jss, omap raw_setter jss, jints jscript with
      | Some ss, Some raw, Some s =>
          if negb (forallb sym_ok s && (0 <=? which) && (which <=? 1) && (0 <=? ctor) && (ctor <=? 1))
          then malformed else
          match jints output with
          | Some code =>
              let op := script_op s in
              let m := code_of_run (if which =? 0 then builder_run (-1) ss 1 op 0
                                    else executor_run (-1) ss 1 op 0) in
              let lastb := find (fun p => fst p =? 0) (rev raw) in
              let lastt := find (fun p => fst p =? 1) (rev raw) in
              let '(a, sym) := match lastb with
                               | Some (_, b) => ref_retry (Z.to_N b) s 0
                               | None => (1%nat, nth 0 s 0)
                               end in
              let zero_timeout := match lastt with Some (_, tm) => tm =? 1 | None => false end in
              let r := if (sym =? 0) && zero_timeout then [Z.of_nat a; 2; 0]
                       else [Z.of_nat a; sym; Z.of_nat a] in
              ok_verdict (zlist_eqb code m) (zlist_eqb code r)
          | None => bad_out output
          end
      | _, _, _ => malformed
      end
  | _ => malformed
  end.

Definition check_batch (input output : J) : verdict :=
  match input with
  | JL [JI api; JI n; JI size; JI fail; JB dup; JB par; JI errsym] =>
      if negb ((0 <=? n) && (0 <=? size) && sym_ok errsym && (1 <=? errsym)) then malformed else
      match output with
      | JL [jtr; jr] =>
          match dec_trace jtr, dec_cres jr with
          | Some tr, Some r =>
              let items := zrange n in
              let sz := Z.to_nat (Z.min size (n + 1)) in        (* chunks_clamp *)
              let process := batch_process fail dup errsym in
              let '(mr, mtr) := if api =? 0 then batch_in_chunks items sz process
                                else run_batch_operation items sz par process in
              ok_verdict (zll_eqb tr mtr && cres_eqb r (cres_of_res mr))
                         (prop_batch n size fail dup errsym tr r)
          | _, _ => bad_out output
          end
      | _ => bad_out output
      end
  | _ => malformed
  end.

Definition check_page (input output : J) : verdict :=
  match input with
  | JL [JI api; JI ps; jmp; JL jscript; jtail] =>
      match omap dec_pg jscript, dec_pg jtail,
            (match jmp with JN => Some None | JI m => Some (Some m) | _ => None end) with
      | Some script, Some tail, Some mp =>
          match output with
          | JL [jcalls; jr] =>
              match dec_trace jcalls, dec_cres jr with
              | Some calls, Some r =>
                  let extra := match mp with Some m => Z.to_nat (Z.min m 5000) | None => O end in
                  let fuel := (List.length script + extra + 2)%nat in
                  let mpn := match mp with Some m => Some (Z.to_N m) | None => None end in
                  let fetch := pg_fetch script tail in
                  let '(mo, mcalls) :=
                    if api =? 0 then paginate fuel (Z.to_N ps) mpn fetch
                    else if api =? 1 then run_paginated_operation fuel (Z.to_N ps) mpn fetch
                    else run_cloud_io_paginated fuel (Z.to_N ps) mpn fetch in
                  let mcalls := map (fun c => [Z.of_N (fst c); Z.of_N (snd c)]) mcalls in
                  let '(rcalls, rr) := ref_page ps mp script tail fuel in
                  ok_verdict (zll_eqb calls mcalls && cres_eqb r (cres_of_outcome mo))
                             (zll_eqb calls rcalls && cres_eqb r rr)
              | _, _ => bad_out output
              end
          | _ => bad_out output
          end
      | _, _, _ => malformed
      end
  | _ => malformed
  end.

(* long pagination runs: in = [api, cfgmode, ps, max | null, npages]; page i < npages is [i] with
   has_more = (i < npages - 1), beyond an empty final page.  The model is RUN (npages + 2 fuel)
   and summarised; the reference is arithmetic on (npages, limit). *)
Definition check_plong (input output : J) : verdict :=
  match input with
  | JL [JI api; JI mode; JI ps; jmax; JI npages] =>
      match (match jmax with JN => Some None | JI m => Some (Some m) | _ => None end) with
      | Some mx =>
          if negb ((0 <=? api) && (api <=? 2) && (0 <=? mode) && (mode <=? 3) && (0 <=? ps)
                   && (0 <=? npages) && (npages <=? 20000)
                   && match mx with Some m => 0 <=? m | None => true end) then malformed else
          match output with
          | JL [JI fetches; JB in_order; JI last_page; JI ps_min; JI ps_max; JI cls; JI nitems;
                JI first; JI lst; JI sum] =>
              let mxn := match mx with Some m => Some (Z.to_N m) | None => None end in
              let d := pagination_cfg_default in
              let c := if mode =? 0 then {| page_size := Z.to_N ps; max_pages := mxn |}
                       else if mode =? 1 then d
                       else if mode =? 2 then {| page_size := page_size d; max_pages := mxn |}
                       else {| page_size := Z.to_N ps; max_pages := max_pages d |} in
              let np := Z.to_N npages in
              let fetch := fun (page _ : N) =>
                if (page <? np)%N then ROk ([Z.of_N page], (page + 1 <? np)%N)
                else ROk (M := Z) ([], false) in
              let fuel := (Z.to_nat npages + 2)%nat in
              let '(mo, mcalls) :=
                if api =? 0 then paginate_cfg fuel c fetch
                else if api =? 1 then run_paginated_operation fuel (page_size c) (max_pages c) fetch
                else run_cloud_io_paginated fuel (page_size c) (max_pages c) fetch in
              let pages := map (fun x => Z.of_N (fst x)) mcalls in
              let m_order := zlist_eqb pages (zrange (Z.of_nat (List.length pages))) in
              let m_ps := forallb (fun x => (snd x =? page_size c)%N) mcalls in
              let m_sum :=
                match mo with
                | Done (ROk l) => [0; Z.of_nat (List.length l); hd (-1) l; last l (-1);
                                   fold_left Z.add l 0]
                | Done (RErr k _) => [kind_code k; 0; -1; -1; 0]
                | _ => [-9]
                end in
              let obs_sum := [cls; nitems; first; lst; sum] in
              let nf := Z.of_nat (List.length mcalls) in
              let agree :=
                (fetches =? nf) && Bool.eqb in_order m_order && m_ps
                && (last_page =? last pages (-1))
                && (if 0 <? nf then (ps_min =? Z.of_N (page_size c)) && (ps_max =? ps_min)
                    else (ps_min =? -1) && (ps_max =? -1))
                && zlist_eqb obs_sum m_sum in
              (* reference *)
              let eff_ps := if (mode =? 0) || (mode =? 3) then ps else 100 in
              let eff_max := if (mode =? 0) || (mode =? 2) then mx else None in
              let n := match eff_max with Some m => Z.min npages m | None => npages end in
              let rf := if npages =? 0
                        then (match eff_max with Some 0 => 0 | _ => 1 end) else n in
              let prop :=
                (fetches =? rf) && in_order && (last_page =? rf - 1)
                && (if 0 <? rf then (ps_min =? eff_ps) && (ps_max =? eff_ps)
                    else (ps_min =? -1) && (ps_max =? -1))
                && zlist_eqb obs_sum
                     [0; n; (if 0 <? n then 0 else -1); (if 0 <? n then n - 1 else -1);
                      n * (n - 1) / 2] in
              ok_verdict agree prop
          | _ => bad_out output
          end
      | None => malformed
      end
  | _ => malformed
  end.

(* the Default impls: in = [0] *)
Definition check_defaults (input output : J) : verdict :=
  match input with
  | JL [JI 0] =>
      match output with
      | JL [JL [JI ma; JI ini; JI mxd; JB ge2; JB eq2]; JL [JI ps; jmp]; JL [JI cs; JB par]] =>
          let r := retry_cfg_default in
          let p := pagination_cfg_default in
          let b := batch_cfg_default in
          ok_verdict
            ((ma =? Z.of_N (max_attempts r)) && (ini =? Z.of_N (initial_delay_ms r))
             && (mxd =? Z.of_N (max_delay_ms r)) && Bool.eqb ge2 (mult_ge2 r)
             && (ps =? Z.of_N (page_size p))
             && match jmp, max_pages p with
                | JN, None => true | JI m, Some m' => m =? Z.of_N m' | _, _ => false end
             && (cs =? Z.of_nat (chunk_size b)) && Bool.eqb par (parallel b))
            ((ma =? 3) && (ini =? 100) && (mxd =? 5000) && ge2 && eq2
             && (ps =? 100) && match jmp with JN => true | _ => false end
             && (cs =? 100) && negb par)
      | _ => bad_out output
      end
  | _ => malformed
  end.

Definition check_timeout (input output : J) : verdict :=
  match input with
  | JL [JI mode; JI sym] =>
      if negb (sym_ok sym && (0 <=? mode) && (mode <=? 3)) then malformed else
      match jints output with
      | Some code =>
          let overrun := (mode =? 1) || (mode =? 2) in
          let '(t, el) := if mode =? 0 then (hour_ns, 0%N) else if mode =? 1 then (0%N, 1%N)
                          else if mode =? 2 then (5000000%N, 25000000%N)
                          else (2000000000%N, 2000000%N) in
          let m := code_of_run (mk_run (with_timeout (-1) t el (Done (sym_res sym 0))) 1 []) in
          let r := if sym =? 0 then (if overrun then [1; 2; 0] else [1; 0; 1]) else [1; sym; 1] in
          ok_verdict (zlist_eqb code m) (zlist_eqb code r)
      | None => bad_out output
      end
  | _ => malformed
  end.

Definition check_timing (input output : J) : verdict :=
  match input with
  | JL [JI initial; JI cap; JF mult; JI b; JI nfail; JI slack] =>
      if negb ((0 <=? initial) && (0 <=? cap) && (0 <=? b) && (0 <=? nfail)) then malformed else
      match output with
      | JL [JI calls; JI cls; JI org; JI us] =>
          let ge2 := PrimFloat.leb 2%float mult in
          let c := {| max_attempts := Z.to_N b; initial_delay_ms := Z.to_N initial;
                      max_delay_ms := Z.to_N cap; mult_ge2 := ge2 |} in
          let op := fun i : nat => if Z.of_nat i <? nfail then RErr Network (Z.of_nat i)
                                   else ROk (Z.of_nat i) in
          let r := retry c op 0 in
          let lo := 1000 * Z.of_N (nsum (run_sleeps r)) in
          let a := Nat.min (N.to_nat (N.max 1 (Z.to_N b))) (S (Z.to_nat nfail)) in
          let rcode := if Z.of_nat a <=? nfail then [Z.of_nat a; 1; Z.of_nat a]
                       else [Z.of_nat a; 0; Z.of_nat a] in
          (* the property bounds the waits from above only: the first by max(initial, cap) (it
             is left open whether the cap applies to it), every later one by the cap *)
          let rub := if (a <=? 1)%nat then 0
                     else 1000 * (Z.max initial cap + (Z.of_nat a - 2) * cap) in
          ok_verdict
            (zlist_eqb [calls; cls; org] (code_of_run r) && (lo <=? us) && (us <? lo + slack))
            (zlist_eqb [calls; cls; org] rcode && (0 <=? us) && (us <? rub + slack))
      | _ => bad_out output
      end
  | _ => malformed
  end.

(* ---------- waits observed in real time, every wrapper ----------
   "waits": in = [cfg, [timeout_ms (retrying wrappers), timeout_ms (single-call wrappers)],
                  script, busy_ms per call, slack_us]
            out = [[w, code, total_us, gaps_us] for w = 0..14]
   cfg = [initial | null, cap | null, multiplier | null, budget | null], null = the field of
   RetryConfig::default().  Gap j is the time between the end of call j and the start of call
   j+1, minimum over the harness's trials.
   MODEL: the clock is derived (Cloud/Ops.v, Section Clock) in ns: tpm = 10^6, call i takes
   busy_i ms, extra = 1 ns (the closure lets the clock tick).  agree = code equal, as many gaps as
   the model has sleeps, gap j in [sleep_j, sleep_j + slack), total in [clock, clock + slack *
   (1 + gaps + calls)).
   PROPERTY (prop_wait): attempts and returned outcome from the script (ref_retry); one wait per
   retry, the first <= max(initial, cap), the later ones <= cap (+ slack) - no lower bounds, the
   first wait is left open by the property text; a success under a timeout only if observed
   waits + time inside the calls <= timeout, a Timeout for a success only if total >= timeout.
   A timeout is USABLE for a wrapper when it is <= the derived clock (the real clock is strictly
   later: overrun for sure) or at least 300 ms above it (certainly in time); a case with an
   unusable timeout is malformed (the generator must not produce it) - decided from the model
   alone, never from the observation. *)
Definition ns_per_ms : N := 1000000.
Definition grey_ns : N := 300 * ns_per_ms.
Definition usable (t_ns clk : N) : bool := (t_ns <=? clk)%N || (clk + grey_ns <=? t_ns)%N.

Definition dec_cfg_field (j : J) (dflt : N) : option N :=
  match j with JN => Some dflt | JI z => if 0 <=? z then Some (Z.to_N z) else None | _ => None end.
Definition dec_cfg (ji jc jm jb : J) : option retry_cfg :=
  let d := retry_cfg_default in
  match dec_cfg_field ji (initial_delay_ms d), dec_cfg_field jc (max_delay_ms d),
        (match jm with JN => Some (mult_ge2 d) | JF m => Some (PrimFloat.leb 2%float m)
                  | _ => None end),
        dec_cfg_field jb (max_attempts d) with
  | Some i, Some c, Some g, Some b =>
      Some {| max_attempts := b; initial_delay_ms := i; max_delay_ms := c; mult_ge2 := g |}
  | _, _, _, _ => None
  end.
(* the same configuration for the reference, with the documented defaults written out *)
Definition ref_cfg (ji jc jm jb : J) : Z * Z * bool * Z :=
  ((match ji with JI z => z | _ => 100 end), (match jc with JI z => z | _ => 5000 end),
   (match jm with JF m => PrimFloat.leb 2%float m | _ => true end),
   (match jb with JI z => z | _ => 3 end)).

Definition busy_ns (busy : list Z) (i : nat) : N :=
  let b := nth i busy 0 in (ns_per_ms * Z.to_N b)%N.
Definition zsum (l : list Z) : Z := fold_right Z.add 0 l.

(* expected gaps: Some ms = a back-off sleep, None = no sleep at all (between two items of the
   per-item batch) *)
Fixpoint gaps_ok (exp : list (option Z)) (obs : list Z) (slack : Z) : bool :=
  match exp, obs with
  | [], [] => true
  | e :: exp', g :: obs' =>
      (match e with
       | Some ms => (1000 * ms <=? g) && (g <? 1000 * ms + slack)
       | None => (0 <=? g) && (g <? slack)
       end) && gaps_ok exp' obs' slack
  | _, _ => false
  end.
Definition total_ok (lo_us total slack : Z) (ngaps calls : nat) : bool :=
  (lo_us <=? total) && (total <? lo_us + slack * (1 + Z.of_nat ngaps + Z.of_nat calls)).

(* the per-item batch: gaps from the trace (same item twice in a row = a sleep) *)
Fixpoint io_gaps (tr : list Z) (sleeps : list N) : list (option Z) :=
  match tr with
  | x :: ((y :: _) as tr') =>
      if x =? y then
        match sleeps with
        | d :: sleeps' => Some (Z.of_N d) :: io_gaps tr' sleeps'
        | [] => [Some (-1)]                      (* cannot happen; never matches *)
        end
      else None :: io_gaps tr' sleeps
  | _ => match sleeps with [] => [] | _ => [Some (-1)] end
  end.

(* upper bounds (ms) the property puts on the gaps of the per-item batch: per started item with
   a attempts, max(initial, cap) for its first wait and cap for each later one; None = the gap
   between two items, about which the property says nothing *)
Fixpoint ref_io_bounds (b : N) (ini cap : Z) (s : list Z) (items : list Z) (from : nat)
  : list (option Z) :=
  match items with
  | [] => []
  | x :: rest =>
      let '(a, sym) := ref_retry b s from in
      (match a with
       | O | S O => []
       | S (S k) => Some (Z.max ini cap) :: repeat (Some cap) k
       end)
      ++ (if sym =? 0
          then match rest with [] => [] | _ => None :: ref_io_bounds b ini cap s rest (from + a)%nat end
          else [])
  end.
Fixpoint bounds_ok (ub : list (option Z)) (obs : list Z) (slack : Z) : bool :=
  match ub, obs with
  | [], [] => true
  | u :: ub', g :: obs' =>
      (0 <=? g) && (match u with Some ms => g <? 1000 * ms + slack | None => true end)
      && bounds_ok ub' obs' slack
  | _, _ => false
  end.

(* model side of one wrapper: (usable, code, gaps, clock in us, calls) *)
Definition model_wait (w : Z) (c : retry_cfg) (t_ms : Z) (s busy : list Z)
  : bool * list Z * list (option Z) * Z * nat :=
  let op := script_op s in
  let bz := busy_ns busy in
  let t := (ns_per_ms * Z.to_N t_ms)%N in
  let of_run (timed_out : bool) (r : run Z Z) :=
      let clk := run_clock ns_per_ms bz 0 r in
      (negb timed_out || usable t clk, code_of_run r,
       map (fun d => Some (Z.of_N d)) (run_sleeps r), Z.of_N clk / 1000, run_calls r) in
  match w with
  | 0 => of_run false (retry c op 0)
  | 1 => of_run false (run_with_retry c op 0)
  | 2 => of_run false (run_cloud_io_with_retry c op 0)
  | 3 => of_run false (timed_builder_execute (-1) (Some c) None ns_per_ms bz 1 op 0)
  | 4 => of_run true (timed_builder_execute (-1) (Some c) (Some t) ns_per_ms bz 1 op 0)
  | 5 => of_run false (timed_executor_execute (-1) (Some c) None ns_per_ms bz 1 op 0)
  | 6 => of_run true (timed_executor_execute (-1) (Some c) (Some t) ns_per_ms bz 1 op 0)
  | 7 => of_run true (timed_retry (-1) c t ns_per_ms bz 1 op 0)
  | 8 => of_run true (timed_cloud_io_retry (-1) c t ns_per_ms bz 1 op 0)
  | 9 =>
      let r := io_batch c (fun i (_ : Z) => op i) [1; 2; 3] 0 in
      let '(o, tr, sl) := r in
      let calls := List.length tr in
      (true, code_of_io r, io_gaps tr sl,
       Z.of_N (ns_per_ms * nsum sl + busy_sum bz 0 calls) / 1000, calls)
  | 10 => of_run false (timed_builder_execute (-1) None None ns_per_ms bz 1 op 0)
  | 11 => of_run true (timed_builder_execute (-1) None (Some t) ns_per_ms bz 1 op 0)
  | 12 => of_run false (timed_executor_execute (-1) None None ns_per_ms bz 1 op 0)
  | 13 => of_run true (timed_executor_execute (-1) None (Some t) ns_per_ms bz 1 op 0)
  | 14 => of_run true (timed_with_timeout (-1) t bz 1 op 0)
  | _ => (false, [-3], [], 0, O)
  end.

(* property instance of one wrapper, judged on the OBSERVATION (code, total_us, gaps_us):
   - attempts and returned outcome: a = min(max(1,budget), 1 + leading transient outcomes), the
     caller gets attempt a's outcome - or, under a timeout, Timeout in place of a success;
   - waits: one per retry; the first at most max(initial, cap), every later one at most cap
     (+ slack); the property gives no lower bound and does not fix the first wait;
   - timeout: a success may be reported only if the time KNOWN to have passed inside (observed
     waits + time inside the calls) does not exceed the timeout; a Timeout in place of a success
     only if the whole call took at least the timeout. *)
Definition prop_wait (w : Z) (rc : Z * Z * bool * Z) (t_ms : Z) (s busy : list Z)
           (code : list Z) (total : Z) (gaps : list Z) (slack : Z) : bool :=
  let '(ini, cap, _, b) := rc in
  let bn := Z.to_N b in
  let busy_to n := zsum (map (fun i => nth i busy 0) (seq 0 n)) in
  if w =? 9 then
    zlist_eqb code (ref_io bn s [1; 2; 3] 0 [] [])
    && bounds_ok (ref_io_bounds bn ini cap s [1; 2; 3] 0) gaps slack
  else
    let '(a, sym) := if has_retry w then ref_retry bn s 0 else (1%nat, nth 0 s 0) in
    let timed := has_timeout w || (w =? 14) in
    let ub := match a with
              | O | S O => []
              | S (S k) => Some (Z.max ini cap) :: repeat (Some cap) k
              end in
    bounds_ok ub gaps slack
    && (if zlist_eqb code [Z.of_nat a; sym; Z.of_nat a]
        then negb ((sym =? 0) && timed) || (zsum gaps + 1000 * busy_to a <=? 1000 * t_ms)
        else zlist_eqb code [Z.of_nat a; 2; 0] && (sym =? 0) && timed && (1000 * t_ms <=? total)).

Definition judge_wait_obs (code : list Z) (total : Z) (gaps : list Z) (slack : Z)
           (ecode : list Z) (egaps : list (option Z)) (elo : Z) (ecalls : nat) : bool :=
  zlist_eqb code ecode && gaps_ok egaps gaps slack
  && total_ok elo total slack (List.length egaps) ecalls.

Definition wait_wrappers : list Z := Eval vm_compute in zrange 15.

Fixpoint judge_waits (ws : list Z) (obs : list J) (c : retry_cfg) (rc : Z * Z * bool * Z)
         (t_retry t_single : Z) (s busy : list Z) (slack : Z) : option (bool * bool * bool) :=
  match ws, obs with
  | [], [] => Some (true, true, true)
  | w :: ws', JL [JI w'; jcode; JI total; jgaps] :: obs' =>
      match jints jcode, jints jgaps, judge_waits ws' obs' c rc t_retry t_single s busy slack with
      | Some code, Some gaps, Some (u, a, p) =>
          let t := if w <? 10 then t_retry else t_single in
          let '(mu, mcode, mgaps, mlo, mcalls) := model_wait w c t s busy in
          Some (mu && u,
                (w =? w') && judge_wait_obs code total gaps slack mcode mgaps mlo mcalls && a,
                (w =? w') && prop_wait w rc t s busy code total gaps slack && p)
      | _, _, _ => None
      end
  | _, _ => None
  end.

Definition check_waits (input output : J) : verdict :=
  match input with
  | JL [JL [ji; jc; jm; jb]; JL [JI t_retry; JI t_single]; jscript; jbusy; JI slack] =>
      match dec_cfg ji jc jm jb, jints jscript, jints jbusy with
      | Some c, Some s, Some busy =>
          if negb (forallb sym_ok s && forallb (Z.leb 0) busy && (0 <=? t_retry) && (0 <=? t_single)
                   && (0 <? slack) && (slack <=? 20000))
          then malformed else
          (* usability is a property of the input: decide it before looking at the output *)
          if negb (forallb (fun w => let t := if w <? 10 then t_retry else t_single in
                                     fst (fst (fst (fst (model_wait w c t s busy)))))
                           wait_wrappers)
          then malformed else
          match output with
          | JL obs =>
              match judge_waits wait_wrappers obs c (ref_cfg ji jc jm jb) t_retry t_single s busy slack with
              | Some (_, a, p) => ok_verdict a p
              | None => bad_out output
              end
          | _ => bad_out output
          end
      | _, _, _ => malformed
      end
  | _ => malformed
  end.

(* "bwaits": in = [setters, script, busy_ms, slack_us], a setter is [0, initial, cap, mult, budget]
   (.with_retry) or [1, timeout_ms] (.with_timeout);  out = [[code, total_us, gaps_us] x 4] for
   OperationBuilder::new(), ::default(), CloudIOExecutor::new(), ::default().
   model: timed_builder_run / timed_executor_run on the decoded setter list;
   reference: the last [0, ..] and the last [1, ..] of the list *)
Definition dec_wsetter (j : J) : option setter :=
  match j with
  | JL [JI 0; ji; jc; jm; jb] =>
      match dec_cfg ji jc jm jb with Some c => Some (SetRetry c) | None => None end
  | JL [JI 1; JI t] => if 0 <=? t then Some (SetTimeout (ns_per_ms * Z.to_N t)%N) else None
  | _ => None
  end.
Definition is_retry_setter (j : J) : bool := match j with JL (JI 0 :: _) => true | _ => false end.
Definition is_timeout_setter (j : J) : bool := match j with JL (JI 1 :: _) => true | _ => false end.

Fixpoint judge_bwaits (k : nat) (obs : list J) (ss : list setter) (jss : list J)
         (s busy : list Z) (slack : Z) : option (bool * bool) :=
  match obs with
  | [] => if Nat.eqb k 4 then Some (true, true) else None
  | JL [jcode; JI total; jgaps] :: obs' =>
      match jints jcode, jints jgaps, judge_bwaits (S k) obs' ss jss s busy slack with
      | Some code, Some gaps, Some (a, p) =>
          let op := script_op s in
          let bz := busy_ns busy in
          let r := if Nat.ltb k 2 then timed_builder_run (-1) ss ns_per_ms bz 1 op 0
                   else timed_executor_run (-1) ss ns_per_ms bz 1 op 0 in
          let mgaps := map (fun d => Some (Z.of_N d)) (run_sleeps r) in
          let mlo := Z.of_N (run_clock ns_per_ms bz 0 r) / 1000 in
          (* reference *)
          let lastr := find is_retry_setter (rev jss) in
          let lastt := find is_timeout_setter (rev jss) in
          let w := match lastr, lastt with
                   | Some _, Some _ => 4 | Some _, None => 3 | None, Some _ => 11 | None, None => 10
                   end in
          let rc := match lastr with
                    | Some (JL [_; ji; jc; jm; jb]) => ref_cfg ji jc jm jb
                    | _ => (0, 0, true, 1)
                    end in
          let t_ms := match lastt with Some (JL [_; JI t]) => t | _ => 0 end in
          Some (judge_wait_obs code total gaps slack (code_of_run r) mgaps mlo (run_calls r) && a,
                prop_wait w rc t_ms s busy code total gaps slack && p)
      | _, _, _ => None
      end
  | _ => None
  end.

Definition check_bwaits (input output : J) : verdict :=
  match input with
  | JL [JL jss; jscript; jbusy; JI slack] =>
      match omap dec_wsetter jss, jints jscript, jints jbusy with
      | Some ss, Some s, Some busy =>
          if negb (forallb sym_ok s && forallb (Z.leb 0) busy && (0 <? slack) && (slack <=? 20000))
          then malformed else
          let r0 := timed_builder_run (-1) ss ns_per_ms (busy_ns busy) 1 (script_op s) 0 in
          if negb (match b_timeout (build ss) with
                   | Some t => usable t (run_clock ns_per_ms (busy_ns busy) 0 r0)
                   | None => true
                   end)
          then malformed else
          match output with
          | JL obs =>
              match judge_bwaits 0 obs ss jss s busy slack with
              | Some (a, p) => ok_verdict a p
              | None => bad_out output
              end
          | _ => bad_out output
          end
      | _, _, _ => malformed
      end
  | _ => malformed
  end.

(* ---------- OperationContext / run_with_context ----------
   in = [name, preset retry_count, preset metadata, actions, sym]; keys, values, the name are
   integers; the start time is the token 0.  model: ctx_new, the preset metadata through
   ctx_add_metadata, retry_count set as a field, run_with_context on the scripted closure; the
   model's bindings are sorted by key for comparison.
   reference: retry_count = preset + number of [0] actions (beyond u32::MAX: panic); the binding
   of a key is the LAST pair given for it (preset first, then the actions, in order). *)
Definition dec_pair (j : J) : option (Z * Z) :=
  match j with JL [JI k; JI v] => Some (k, v) | _ => None end.
Definition dec_action (j : J) : option (ctx_action Z Z) :=
  match j with
  | JL [JI 0] => Some ActIncrement
  | JL [JI 1; JI k; JI v] => Some (ActAdd k v)
  | _ => None
  end.
Fixpoint insert_by_key (p : Z * Z) (l : list (Z * Z)) : list (Z * Z) :=
  match l with
  | [] => [p]
  | q :: r => if fst p <=? fst q then p :: l else q :: insert_by_key p r
  end.
Definition sort_by_key (l : list (Z * Z)) : list (Z * Z) := fold_right insert_by_key [] l.
Fixpoint pairs_eqb (a b : list (Z * Z)) : bool :=
  match a, b with
  | [], [] => true
  | (k, v) :: a', (k', v') :: b' => (k =? k') && (v =? v') && pairs_eqb a' b'
  | _, _ => false
  end.
Definition action_pair (j : J) : list (Z * Z) :=
  match j with JL [JI 1; JI k; JI v] => [(k, v)] | _ => [] end.
Definition is_inc (j : J) : bool := match j with JL [JI 0] => true | _ => false end.
(* reference bindings: ascending keys 0..63, each with the last value given for it *)
Definition ref_meta (given : list (Z * Z)) : list (Z * Z) :=
  flat_map (fun k => match find (fun p => fst p =? k) (rev given) with
                     | Some p => [p] | None => [] end) (zrange 64).

Definition check_context (input output : J) : verdict :=
  match input with
  | JL [JI name; JI preset; JL jmeta; JL jacts; JI sym] =>
      match omap dec_pair jmeta, omap dec_action jacts with
      | Some meta, Some acts =>
          if negb (sym_ok sym && (0 <=? preset) && (preset <=? 4294967295)
                   && forallb (fun p => (0 <=? fst p) && (fst p <? 64)) meta
                   && forallb (fun p => (0 <=? fst p) && (fst p <? 64)) (flat_map action_pair jacts))
          then malformed else
          let c0 := fold_left (fun c p => ctx_add_metadata Z.eqb c (fst p) (snd p)) meta
                              (ctx_new name 0) in
          let c1 := mk_ctx (ctx_name c0) (ctx_start c0) (Z.to_N preset) (ctx_meta c0) in
          let m := run_with_context c1 (scripted_ctx_op Z.eqb acts (sym_res sym 0)) in
          let incs := Z.of_nat (List.length (filter is_inc jacts)) in
          let r_panic := 4294967295 <? preset + incs in
          match output with
          | JL [JS tag; JI calls; JI v; JI nm; JI rc; JB same; JL jm] =>
              match omap dec_pair jm with
              | Some om =>
                  if negb (String.eqb tag "ok") then bad_out output else
                  ok_verdict
                    (match m with
                     | Done (ROk (mv, c')) =>
                         (calls =? 1) && (v =? mv) && (nm =? ctx_name c')
                         && (rc =? Z.of_N (ctx_retry c')) && Bool.eqb same (ctx_start c' =? 0)
                         && pairs_eqb om (sort_by_key (ctx_meta c'))
                     | _ => false
                     end)
                    (negb r_panic && (sym =? 0) && (calls =? 1) && (v =? 0) && (nm =? name)
                     && (rc =? preset + incs) && same
                     && pairs_eqb om (ref_meta (meta ++ flat_map action_pair jacts)))
              | None => bad_out output
              end
          | JL [JS tag; JI calls; JI cls; JI org] =>
              if negb (String.eqb tag "err") then bad_out output else
              ok_verdict
                (match m with
                 | Done (RErr k e) => (calls =? 1) && (cls =? kind_code k) && (org =? e)
                 | _ => false
                 end)
                (negb r_panic && negb (sym =? 0) && (calls =? 1) && (cls =? sym) && (org =? 0))
          | _ =>
              if is_panic output
              then ok_verdict (match m with Panic => true | _ => false end) r_panic
              else malformed
          end
      | _, _ => malformed
      end
  | _ => malformed
  end.

(* ---------- ConnectionPool<i64> ----------
   in = [max_size, ops]; op j: [0, sym] acquire whose `create` answers sym (Ok carries 1000 + j,
   an error the payload j), [1, x] release, [2] size.  model: pool_new 8 max_size, pool_run.
   reference: a Vec written as a list whose LAST element is the top (push = append, pop =
   removelast), bounded by max_size. *)
Definition dec_pool_op (j : nat) (o : J) : option (pool_op Z Z) :=
  match o with
  | JL [JI 0; JI sym] =>
      if sym_ok sym
      then Some (PAcquire (if sym =? 0 then ROk (1000 + Z.of_nat j) else RErr (kind_of sym) (Z.of_nat j)))
      else None
  | JL [JI 1; JI x] => Some (PRelease x)
  | JL [JI 2] => Some PSize
  | _ => None
  end.
Fixpoint dec_pool_ops (j : nat) (l : list J) : option (list (pool_op Z Z)) :=
  match l with
  | [] => Some []
  | o :: r => match dec_pool_op j o, dec_pool_ops (S j) r with
              | Some x, Some xs => Some (x :: xs) | _, _ => None end
  end.
Definition code_of_pool_obs (o : pool_obs Z Z) : list Z :=
  match o with
  | OAcquired (ROk v) created => [0; 0; v; if created then 1 else 0]
  | OAcquired (RErr k m) created => [0; kind_code k; m; if created then 1 else 0]
  | OReleased => [1]
  | OSize n => [2; Z.of_nat n]
  end.
Definition dec_pool_out (o : J) : option (list Z) :=
  match o with
  | JL [JI 0; JI c; JI v; JB created] => Some [0; c; v; if created then 1 else 0]
  | JL [JI 1] => Some [1]
  | JL [JI 2; JI n] => Some [2; n]
  | _ => None
  end.
Fixpoint ref_pool (mx : Z) (vec : list Z) (j : nat) (ops : list J) : list (list Z) :=
  match ops with
  | [] => []
  | JL [JI 0; JI sym] :: r =>
      match vec with
      | [] => [0; sym; (if sym =? 0 then 1000 + Z.of_nat j else Z.of_nat j); 1] :: ref_pool mx vec (S j) r
      | _ => [0; 0; last vec 0; 0] :: ref_pool mx (removelast vec) (S j) r
      end
  | JL [JI 1; JI x] :: r =>
      [1] :: ref_pool mx (if Z.of_nat (List.length vec) <? mx then vec ++ [x] else vec) (S j) r
  | _ :: r => [2; Z.of_nat (List.length vec)] :: ref_pool mx vec (S j) r
  end.

Definition check_pool (input output : J) : verdict :=
  match input with
  | JL [JI mx; JL jops] =>
      match dec_pool_ops 0 jops with
      | Some ops =>
          if negb (0 <=? mx) then malformed else
          let r_panic := 9223372036854775807 <? 8 * mx in
          match pool_new (T := Z) 8 (Z.to_N mx) with
          | None => if is_panic output then ok_verdict true r_panic
                    else match output with JL _ => ok_verdict false false | _ => malformed end
          | Some p =>
              match output with
              | JL obs =>
                  match omap dec_pool_out obs with
                  | Some codes =>
                      ok_verdict (zll_eqb codes (map code_of_pool_obs (fst (pool_run p ops))))
                                 (negb r_panic && zll_eqb codes (ref_pool mx [] 0 jops))
                  | None => bad_out output
                  end
              | _ => bad_out output
              end
          end
      | None => malformed
      end
  | _ => malformed
  end.

Definition check_parallel (input output : J) : verdict :=
  match input with
  | JL [jsyms] =>
      match jints jsyms with
      | Some syms =>
          if negb (forallb sym_ok syms) then malformed else
          match output with
          | JL [JI n; jr] =>
              match dec_cres jr with
              | Some r =>
                  let ops := map (fun p => sym_res (snd p) (Z.of_nat (fst p)))
                                 (combine (seq 0 (List.length syms)) syms) in
                  let '(mr, mn) := run_parallel ops in
                  let k := lead_ok syms in
                  ok_verdict ((n =? Z.of_nat mn) && cres_eqb r (cres_of_res mr))
                             (if Nat.eqb k (List.length syms)
                              then (n =? Z.of_nat k) && cres_eqb r (CROk (zrange (Z.of_nat k)))
                              else (n =? Z.of_nat (S k))
                                   && cres_eqb r (CRErr (nth k syms 0) (Z.of_nat k)))
              | None => bad_out output
              end
          | _ => bad_out output
          end
      | None => malformed
      end
  | _ => malformed
  end.

Definition check_C18 (kind : string) (input output : J) : verdict :=
  if String.eqb kind "rrow" then check_retry true input output
  else if String.eqb kind "rbucket" then check_retry false input output
  else if String.eqb kind "rbig" then check_big input output
  else if String.eqb kind "bseq" then check_bseq input output
  else if String.eqb kind "batch" then check_batch input output
  else if String.eqb kind "page" then check_page input output
  else if String.eqb kind "plong" then check_plong input output
  else if String.eqb kind "defaults" then check_defaults input output
  else if String.eqb kind "timeout" then check_timeout input output
  else if String.eqb kind "timing" then check_timing input output
  else if String.eqb kind "waits" then check_waits input output
  else if String.eqb kind "context" then check_context input output
  else if String.eqb kind "pool" then check_pool input output
  else if String.eqb kind "bwaits" then check_bwaits input output
  else if String.eqb kind "parallel" then check_parallel input output
  else malformed.
