(* Correspondence for C17: runs the model of src/helpers/validation.rs / src/validation.rs on the
   cases the harness ran through the real PCollection::validate_* / validate_values_* /
   combine_validations, and decides agreement and the property instance inside Coq.

   The model is run on the single partition [input]; by theorems c17_output_is_filter_valid and
   c17_log_accounting the output and the MULTISET of collector entries (errors payloads) of a
   partitioned run do not depend on the partitioning or on the interleaving, so that is the
   prediction for every execution mode. Record identifiers are partition-local: for the
   sequential engine (one partition) they are predicted exactly; for the parallel engine the
   check is "there is a partitioning of the input into contiguous chunks that explains all
   identifiers" (ids_consistent), decided without knowing the real chunking. *)
From Coq Require Import List ZArith Bool String.
From IB Require Import Util.J Engine.Val Engine.Ops Engine.Planner Validation.Model Validation.Pipe Validation.Tree.
Import ListNotations.
Open Scope Z_scope.

(* ---------- multisets of integer lists through a canonical sort ---------- *)
Fixpoint zl_eqb (a b : list Z) : bool :=
  match a, b with
  | [], [] => true
  | x :: a', y :: b' => (x =? y) && zl_eqb a' b'
  | _, _ => false
  end.
Fixpoint zl_leb (a b : list Z) : bool :=
  match a, b with
  | [], _ => true
  | _ :: _, [] => false
  | x :: a', y :: b' => if x <? y then true else if y <? x then false else zl_leb a' b'
  end.
Fixpoint l_insert (x : list Z) (l : list (list Z)) : list (list Z) :=
  match l with [] => [x] | y :: r => if zl_leb x y then x :: l else y :: l_insert x r end.
Definition l_sort (l : list (list Z)) : list (list Z) := fold_right l_insert [] l.
Fixpoint ll_eqb (a b : list (list Z)) : bool :=
  match a, b with
  | [], [] => true
  | x :: a', y :: b' => zl_eqb x y && ll_eqb a' b'
  | _, _ => false
  end.
Definition mset_eqb (a b : list (list Z)) : bool := ll_eqb (l_sort a) (l_sort b).
Fixpoint l_nodup (l : list (list Z)) : bool :=
  match l with [] => true | x :: r => negb (existsb (zl_eqb x) r) && l_nodup r end.

(* ---------- decoding ---------- *)
(* how the collection was collected: 0 collect_seq | 1 collect_par(Some t, Some n) |
   2 collect_par(None, None) | 3 collect() | 4 collect_par(Some t, None) | 5 collect_par(None, Some n);
   0 and 3 are the sequential engine (helpers/common.rs: collect = collect_seq) *)
Definition ex_ok (ex : Z) : bool := (0 <=? ex) && (ex <=? 5).
Definition ex_seq (ex : Z) : bool := (ex =? 0) || (ex =? 3).
Definition mode_of (z : Z) : option mode :=
  if z =? 0 then Some SkipInvalid else if z =? 1 then Some LogAndContinue
  else if z =? 2 then Some FailFast else None.
Definition jbit (j : J) : option bool :=
  match j with JI z => if z =? 0 then Some false else if z =? 1 then Some true else None
          | JB b => Some b | _ => None end.

(* rows: unkeyed = [v, ..] ; keyed = [[k, v], ..] ; both decoded to integer lists ([v] / [k; v]) *)
Definition dec_kv (j : J) : option (list Z) :=
  match j with JL [JI k; JI v] => Some [k; v] | _ => None end.
Definition dec_rows (keyed : bool) (j : J) : option (list (list Z)) :=
  if keyed then match j with JL l => omap dec_kv l | _ => None end
  else match jints j with Some l => Some (map (fun v => [v]) l) | None => None end.
Definition row_value (row : list Z) : Z := last row 0.

(* observed collector entry [prefix, idx, code..]: prefix 0 = "record_", 1 = "pair_" *)
Definition dec_entry (j : J) : option (Z * Z * list Z) :=
  match jints j with Some (p :: i :: codes) => Some (p, i, codes) | _ => None end.
Definition dec_entries (j : J) : option (list (Z * Z * list Z)) :=
  match j with JL l => omap dec_entry l | _ => None end.

Inductive obs :=
| OPanic
| OErr                 (* the run returned Err(_): never predicted, never allowed by the property *)
| OOk (rows : list (list Z)) (entries : list (Z * Z * list Z)) (count : Z).
Definition dec_obs (keyed : bool) (j : J) : option obs :=
  match j with
  | JL [t] => if jtag_is "panic" t then Some OPanic else None
  | JL [t; _] => if jtag_is "err" t then Some OErr else None
  | JL [t; jr; je; JI c] =>
      if jtag_is "ok" t then
        match dec_rows keyed jr, dec_entries je with
        | Some r, Some e => Some (OOk r e c)
        | _, _ => None
        end
      else None
  | _ => None
  end.

(* ---------- model side ---------- *)
(* one model for both operators: a row is [v] or [k; v], validated through its value *)
Definition validate_row (row : list Z) : vresult Z := validate_z (row_value row).
Definition model_run (md : mode) (hc : bool) (rows : list (list Z))
  : outcome (list (list Z) * list (entry Z)) := apply validate_row md hc rows.
(* keyed runs go through the keyed operator's model on pairs, then re-encoded *)
Definition to_pair (row : list Z) : Z * Z := (hd 0 row, row_value row).
Definition of_pair (kv : Z * Z) : list Z := [fst kv; snd kv].
Definition model_run_keyed (md : mode) (hc : bool) (rows : list (list Z))
  : outcome (list (list Z) * list (entry Z)) :=
  omap_out (fun vl => (map of_pair (fst vl), snd vl))
           (apply_values validate_z md hc (map to_pair rows)).

Definition entry_code (e : entry Z) : list Z := Z.of_nat (e_idx e) :: e_errors e.
Definition obs_payload (e : Z * Z * list Z) : list Z := snd e.
Definition obs_code (e : Z * Z * list Z) : list Z := snd (fst e) :: snd e.

(* "some partitioning into contiguous chunks explains the identifiers": walking the invalid
   records in input order with (global position g, observed local idx i): the chunk start is
   s = g - i >= 0, and two consecutive invalid records either share the start or the later chunk
   starts after the earlier record. *)
Fixpoint starts_ok (prev : option (Z * Z)) (l : list (Z * Z)) : bool :=
  match l with
  | [] => true
  | (g, i) :: r =>
      let s := g - i in
      (0 <=? i) && (0 <=? s) &&
      match prev with
      | None => true
      | Some (g0, s0) => (s =? s0) || (g0 <? s)
      end && starts_ok (Some (g, s)) r
  end.
(* inputs: the invalid records' (global position, errors) in input order, the observed entries *)
Fixpoint lookup_idx (codes : list Z) (es : list (Z * Z * list Z)) : option Z :=
  match es with
  | [] => None
  | e :: r => if zl_eqb codes (snd e) then Some (snd (fst e)) else lookup_idx codes r
  end.
Definition ids_consistent (inv : list (Z * list Z)) (es : list (Z * Z * list Z)) : bool :=
  if l_nodup (map snd inv) then
    match omap (fun ge => match lookup_idx (snd ge) es with
                          | Some i => Some (fst ge, i) | None => None end) inv with
    | Some gis => starts_ok None gis
    | None => false
    end
  else forallb (fun e => 0 <=? snd (fst e)) es.

(* invalid records of the operator's input with their global positions *)
Fixpoint invalid_positions (g : Z) (vals : list Z) : list (Z * list Z) :=
  match vals with
  | [] => []
  | v :: r => match validate_z v with
              | VOk => invalid_positions (g + 1) r
              | VErr es => (g, es) :: invalid_positions (g + 1) r
              end
  end.

(* agreement of an observation with a model result; `seq` = sequential engine (ids exact);
   `inv` = invalid records of the validated collection with positions (None: ids of a parallel run
   are only required to be non-negative, used for pipelines with upstream operators) *)
Definition agree_with (prefix : Z) (seq : bool) (inv : option (list (Z * list Z)))
           (m : outcome (list (list Z) * list (entry Z))) (o : obs) : bool :=
  match m, o with
  | Panic, OPanic => true
  | Ok (rows, lg), OOk orows oes cnt =>
      ll_eqb rows orows &&
      (cnt =? Z.of_nat (List.length lg)) && (Z.of_nat (List.length oes) =? cnt) &&
      forallb (fun e => fst (fst e) =? prefix) oes &&
      mset_eqb (map (@e_errors Z) lg) (map obs_payload oes) &&
      (if seq then mset_eqb (map entry_code lg) (map obs_code oes)
       else match lg, inv with
            | [], _ => true                      (* nothing logged: oes = [] by the count *)
            | _, Some iv => ids_consistent iv oes
            | _, None => forallb (fun e => 0 <=? snd (fst e)) oes
            end)
  | _, _ => false
  end.

(* ---------- reference side (independent of the model) ---------- *)
Definition ref_valid (v : Z) : bool := (0 <=? v) && (v mod 4 =? 0).
(* codes 4v, 4v+1, .. one per unit of (v mod 4) *)
Fixpoint count_up (from : Z) (n : nat) : list Z :=
  match n with O => [] | S n' => from :: count_up (from + 1) n' end.
Definition ref_errors (v : Z) : list Z :=
  if v <? 0 then [] else count_up (4 * v) (Z.to_nat (v mod 4)).
Fixpoint ref_keep (rows : list (list Z)) : list (list Z) :=
  match rows with
  | [] => []
  | r :: t => if ref_valid (row_value r) then r :: ref_keep t else ref_keep t
  end.
Fixpoint ref_payloads (rows : list (list Z)) : list (list Z) :=
  match rows with
  | [] => []
  | r :: t => if ref_valid (row_value r) then ref_payloads t
              else ref_errors (row_value r) :: ref_payloads t
  end.

(* sequential engine: an entry's identifier is the record's position in the input *)
Fixpoint ref_positions (g : Z) (rows : list (list Z)) : list (list Z) :=
  match rows with
  | [] => []
  | r :: t => if ref_valid (row_value r) then ref_positions (g + 1) t
              else (g :: ref_errors (row_value r)) :: ref_positions (g + 1) t
  end.

(* the property instance on one validation step applied to `rows` *)
Definition prop_run (md : mode) (hc : bool) (seq : bool) (rows : list (list Z)) (o : obs)
  : bool :=
  let n_in := Z.of_nat (List.length rows) in
  let n_bad := Z.of_nat (List.length (ref_payloads rows)) in
  match md with
  | FailFast =>
      match o with
      | OErr => false
      | OPanic => 0 <? n_bad                                   (* fails only if some invalid *)
      | OOk orows oes cnt =>
          (n_bad =? 0) && ll_eqb orows rows && (cnt =? 0) &&
          match oes with [] => true | _ => false end
      end
  | _ =>
      match o with
      | OPanic | OErr => false                                   (* always completes *)
      | OOk orows oes cnt =>
          ll_eqb orows (ref_keep rows) &&
          (if (match md with LogAndContinue => hc | _ => false end)
           then (cnt =? n_bad) && (Z.of_nat (List.length oes) =? cnt) &&
                (Z.of_nat (List.length orows) + cnt =? n_in) &&
                mset_eqb (map obs_payload oes) (ref_payloads rows) &&
                (if seq then mset_eqb (map obs_code oes) (ref_positions 0 rows) else true)
           else (cnt =? 0) && match oes with [] => true | _ => false end)
      end
  end.

Definition judge_run (keyed : bool) (md : mode) (hc : bool) (seq : bool)
           (rows : list (list Z)) (o : obs) : bool * bool :=
  let m := if keyed then model_run_keyed md hc rows else model_run md hc rows in
  let inv := invalid_positions 0 (map row_value rows) in
  (agree_with (if keyed then 1 else 0) seq (Some inv) m o, prop_run md hc seq rows o).

(* ---------- exhaustive rows ---------- *)
(* record i of a pattern: v = 4 i + (bit i ? 1 + i mod 3 : 0); keyed rows carry key (7 i) mod 3 *)
Fixpoint pattern_rows (keyed : bool) (i : Z) (n : nat) (bits : Z) : list (list Z) :=
  match n with
  | O => []
  | S n' =>
      let v := 4 * i + (if Z.odd bits then 1 + i mod 3 else 0) in
      (if keyed then [(7 * i) mod 3; v] else [v]) :: pattern_rows keyed (i + 1) n' (bits / 2)
  end.

Fixpoint judge_all (keyed : bool) (rows : list (list Z))
         (cfgs : list (mode * bool)) (os : list J) : option (bool * bool) :=
  match cfgs, os with
  | [], [] => Some (true, true)
  | (md, seq) :: cfgs', j :: os' =>
      match dec_obs keyed j, judge_all keyed rows cfgs' os' with
      | Some o, Some (a, p) =>
          let '(a1, p1) := judge_run keyed md true seq rows o in Some (a1 && a, p1 && p)
      | _, _ => None
      end
  | _, _ => None
  end.
(* per mode: the sequential engine, then collect_par with 1..maxp partitions *)
Definition row_cfgs (maxp : nat) : list (mode * bool) :=
  flat_map (fun md => (md, true) :: map (fun _ => (md, false)) (seq 1 maxp))
           [SkipInvalid; LogAndContinue; FailFast].

(* ---------- pipelines ---------- *)
Definition dec_step (j : J) : option vstep :=
  match j with
  | JL [JI t; JI c] => if t =? 0 then Some (SMapValues c) else None
  | JL [JI t; JI m; JI r] =>
      if t =? 1 then (if 0 <? m then Some (SFilterValues m r) else None)
      else if t =? 2 then
        match mode_of m with
        | Some md => if r =? 0 then Some (SValidateValues md false)
                     else if r =? 1 then Some (SValidateValues md true) else None
        | None => None
        end
      else None
  | _ => None
  end.
Definition is_validate_step (s : vstep) : bool :=
  match s with SValidateValues _ _ => true | _ => false end.

Definition row_to_val (row : list Z) : val := VPair (VInt (hd 0 row)) (VInt (row_value row)).
Definition val_to_row (v : val) : list Z := [zval (vfst v); zval (vsnd v)].

Definition model_pipe (ss : list vstep) (rows : list (list Z))
  : outcome (list (list Z) * list (entry Z)) :=
  match run_pipe ss [map row_to_val rows] with
  | Ok [(out, lg)] => Ok (map val_to_row out, lg)
  | Ok _ => Diverge
  | Err e => Err e
  | Panic => Panic
  | Diverge => Diverge
  end.

(* reference: the steps in the order written, over the whole list; Some (rows, payloads) or
   None = the run fails *)
Fixpoint ref_pipe (ss : list vstep) (rows : list (list Z))
  : option (list (list Z) * list (list Z)) :=
  match ss with
  | [] => Some (rows, [])
  | SMapValues c :: t => ref_pipe t (map (fun r => [hd 0 r; row_value r + c]) rows)
  | SFilterValues m r :: t =>
      ref_pipe t (filter (fun row => negb (row_value row mod m =? r)) rows)
  | SValidateValues md hc :: t =>
      match md with
      | FailFast =>
          match ref_payloads rows with [] => ref_pipe t rows | _ => None end
      | SkipInvalid => ref_pipe t (ref_keep rows)
      | LogAndContinue =>
          match ref_pipe t (ref_keep rows) with
          | Some (out, pl) => Some (out, (if hc then ref_payloads rows else []) ++ pl)
          | None => None
          end
      end
  end.
Definition prop_pipe (ss : list vstep) (rows : list (list Z)) (o : obs) : bool :=
  match ref_pipe ss rows, o with
  | None, OPanic => true
  | Some (out, pl), OOk orows oes cnt =>
      ll_eqb orows out && (cnt =? Z.of_nat (List.length pl)) && (Z.of_nat (List.length oes) =? cnt) &&
      mset_eqb (map obs_payload oes) pl
  | _, _ => false
  end.

(* ---------- combine_validations ---------- *)
Definition dec_result (j : J) : option (vresult Z) :=
  match j with
  | JN => Some VOk
  | _ => match jints j with Some es => Some (VErr es) | None => None end
  end.
Definition result_eqb (a b : vresult Z) : bool :=
  match a, b with
  | VOk, VOk => true
  | VErr x, VErr y => zl_eqb x y
  | _, _ => false
  end.
Definition is_ok (r : vresult Z) : bool := match r with VOk => true | VErr _ => false end.
Fixpoint ref_all_errors (rs : list (vresult Z)) : list Z :=
  match rs with
  | [] => []
  | VOk :: t => ref_all_errors t
  | VErr es :: t => es ++ ref_all_errors t
  end.
(* the property: Ok iff every part is Ok, else Err (all errors in order) *)
Definition prop_combine (rs : list (vresult Z)) (o : vresult Z) : bool :=
  if forallb is_ok rs then is_ok o else result_eqb o (VErr (ref_all_errors rs)).

(* ---------- big runs: summaries only ----------
   k runs of n records through ONE collector; run j holds records j*n .. (j+1)*n - 1; record i is
   invalid iff i mod m >= t and then carries 1 + i mod 3 errors (harness: big_value). The rows are
   generated here from [n, m, t]; only summaries travel. *)
Definition big_invalid (m t i : Z) : bool := t <=? i mod m.
Definition big_value (m t i : Z) : Z := 4 * i + (if big_invalid m t i then 1 + i mod 3 else 0).
Fixpoint big_rows (keyed : bool) (m t : Z) (fuel : nat) (i : Z) : list (list Z) :=
  match fuel with
  | O => []
  | S f => (if keyed then [i mod 7; big_value m t i] else [big_value m t i])
           :: big_rows keyed m t f (i + 1)
  end.

(* [len; sum of values; first; last; strictly increasing and (keyed) key = (v / 4) mod 7] *)
Definition sum_rows (keyed : bool) (rows : list (list Z)) : list Z :=
  let '(len, sm, fst_, lst, ok) :=
    fold_left (fun (acc : Z * Z * Z * Z * bool) row =>
                 let '(len, sm, fst_, lst, ok) := acc in
                 let v := row_value row in
                 (len + 1, sm + v, (if len =? 0 then v else fst_), v,
                  ok && ((len =? 0) || (lst <? v)) &&
                  (if keyed then hd 0 row =? (v / 4) mod 7 else true)))
              rows (0, 0, -1, -1, true) in
  [len; sm; fst_; lst; if ok then 1 else 0].
Definition zsum (l : list Z) : Z := fold_left Z.add l 0.
(* [entries; sum of codes; number of errors]. The positions e_idx are unary numbers up to n, so
   summing them here would cost O(n^2); the identifiers of big runs are judged against the
   arithmetic reference instead (they are checked against the model in the run/row kinds). *)
Definition sum_entries (lg : list (entry Z)) : list Z :=
  fold_left (fun acc e =>
               match acc with
               | [c; sc; ne] =>
                   [c + 1; sc + zsum (e_errors e); ne + Z.of_nat (List.length (e_errors e))]
               | _ => acc
               end) lg [0; 0; 0].

(* the model on the k runs: per-run output summaries and the concatenated appends *)
Fixpoint model_big (keyed : bool) (md : mode) (hc : bool) (n : nat) (m t : Z) (k : nat) (j : Z)
  : outcome (list (list Z) * list (entry Z)) :=
  match k with
  | O => Ok ([], [])
  | S k' =>
      let rows := big_rows keyed m t n (j * Z.of_nat n) in
      obind (if keyed then model_run_keyed md hc rows else model_run md hc rows)
            (fun r => obind (model_big keyed md hc n m t k' (j + 1))
                            (fun rest => Ok (sum_rows keyed (fst r) :: fst rest,
                                             snd r ++ snd rest)))
  end.

(* reference, by arithmetic on the pattern (no model, no rows): one pass over i *)
Record bigref := { b_len : Z; b_sum : Z; b_first : Z; b_last : Z;
                   b_bad : Z; b_codes : Z; b_nerrs : Z; b_idx : Z }.
Fixpoint ref_big_run (m t : Z) (fuel : nat) (i pos : Z) (a : bigref) : bigref :=
  match fuel with
  | O => a
  | S f =>
      ref_big_run m t f (i + 1) (pos + 1)
        (if t <=? i mod m then
           let ne := 1 + i mod 3 in
           let v := 4 * i + ne in
           {| b_len := b_len a; b_sum := b_sum a; b_first := b_first a; b_last := b_last a;
              b_bad := b_bad a + 1;
              b_codes := b_codes a + ne * (4 * v) + ne * (ne - 1) / 2;
              b_nerrs := b_nerrs a + ne; b_idx := b_idx a + pos |}
         else
           {| b_len := b_len a + 1; b_sum := b_sum a + 4 * i;
              b_first := (if b_len a =? 0 then 4 * i else b_first a); b_last := 4 * i;
              b_bad := b_bad a; b_codes := b_codes a; b_nerrs := b_nerrs a; b_idx := b_idx a |})
  end.
Definition bigref0 (bad codes nerrs idx : Z) : bigref :=
  {| b_len := 0; b_sum := 0; b_first := -1; b_last := -1;
     b_bad := bad; b_codes := codes; b_nerrs := nerrs; b_idx := idx |}.
(* per-run (len, sum, first, last, invalid count) and the totals over all runs *)
Fixpoint ref_big (n : nat) (m t : Z) (k : nat) (j : Z) (bad codes nerrs idx : Z)
  : list (list Z) * list Z :=
  match k with
  | O => ([], [bad; codes; nerrs; idx])
  | S k' =>
      let a := ref_big_run m t n (j * Z.of_nat n) 0 (bigref0 bad codes nerrs idx) in
      let '(rest, tot) := ref_big n m t k' (j + 1) (b_bad a) (b_codes a) (b_nerrs a) (b_idx a) in
      ([b_len a; b_sum a; b_first a; b_last a; b_bad a - bad] :: rest, tot)
  end.

Inductive bigobs := BPanic | BErr | BOk (runs : list (list Z)) (coll : list Z).
Definition dec_bigobs (j : J) : option bigobs :=
  match j with
  | JL [t] => if jtag_is "panic" t then Some BPanic else None
  | JL [t; JL jruns; jc] =>
      if jtag_is "ok" t then
        match omap jints jruns, jints jc with
        | Some runs, Some c => Some (BOk runs c)
        | _, _ => None
        end
      else if jtag_is "err" t then Some BErr else None
  | JL [t; _] => if jtag_is "err" t then Some BErr else None
  | _ => None
  end.

(* observed collector summary: [error_count; entries; distinct payloads; sum of codes;
   number of errors; sum of idx; malformed entries] *)
Definition agree_big (seq : bool) (ref_idx : Z)
           (m : outcome (list (list Z) * list (entry Z))) (o : bigobs) : bool :=
  match m, o with
  | Panic, BPanic => true
  | Ok (runs, lg), BOk oruns [cnt; nent; ndist; scodes; nerrs; sidx; nbad] =>
      match sum_entries lg with
      | [c; sc; ne] =>
          let si := if c =? 0 then 0 else ref_idx in
          ll_eqb runs oruns && (cnt =? c) && (nent =? c) &&
          (ndist =? c) &&                 (* every invalid record has its own first code *)
          (scodes =? sc) && (nerrs =? ne) && (nbad =? 0) &&
          (if seq then sidx =? si else (0 <=? sidx) && (sidx <=? si))
                                          (* a local position never exceeds the global one *)
      | _ => false
      end
  | _, _ => false
  end.

Definition prop_big (md : mode) (hc seq : bool) (n : nat) (m t : Z) (k : nat) (o : bigobs)
  : bool :=
  let '(rruns, tot) := ref_big n m t k 0 0 0 0 0 in
  match tot with
  | [bad; codes; nerrs; idx] =>
      match md, o with
      | FailFast, BPanic => 0 <? bad
      | FailFast, BOk oruns [cnt; nent; ndist; scodes; ne; sidx; nbad] =>
          (bad =? 0) && (cnt =? 0) && (nent =? 0) &&
          ll_eqb oruns (map (fun r => firstn 4 r ++ [1]) rruns)
      | _, BOk oruns [cnt; nent; ndist; scodes; ne; sidx; nbad] =>
          (* output: exactly the valid records, in order, keys intact *)
          ll_eqb oruns (map (fun r => firstn 4 r ++ [1]) rruns) &&
          (if (match md with LogAndContinue => hc | _ => false end) then
             (cnt =? bad) && (nent =? cnt) && (ndist =? cnt) && (scodes =? codes) &&
             (ne =? nerrs) && (nbad =? 0) &&
             (* the accounting identity: |output| + |entries| = |input| over all runs *)
             (zsum (map (fun r => hd 0 r) oruns) + nent =? Z.of_nat k * Z.of_nat n) &&
             (if seq then sidx =? idx else true)
           else (cnt =? 0) && (nent =? 0))
      | _, _ => false
      end
  | _ => false
  end.

(* ---------- several runs on ONE collector ----------
   The collector is read back after every step. Model: the content accumulates (run_effect):
   a completed run appends its log, a panicking run and clear-less steps change nothing,
   clear() empties it. Property instance, relative to the content OBSERVED before the step:
   a log-mode run with the collector attached adds exactly one entry per invalid record of that
   run; every other run leaves the content as it was; fail-fast fails iff some record is invalid. *)
Inductive mstep := MRun (md : mode) (hc seq : bool) (rows : list (list Z)) | MClear.
Definition dec_mstep (keyed : bool) (j : J) : option mstep :=
  match j with
  | JL [JI z] => if z =? 9 then Some MClear else None
  | JL [JI md; jhc; JI ex; JI _; jrows] =>
      match mode_of md, jbit jhc, dec_rows keyed jrows with
      | Some m, Some hc, Some rows =>
          if ex_ok ex then Some (MRun m hc (ex_seq ex) rows) else None
      | _, _, _ => None
      end
  | _ => None
  end.
Inductive mobs :=
| MOOk (rows : list (list Z)) (entries : list (Z * Z * list Z)) (count : Z)
| MOPanic (entries : list (Z * Z * list Z)) (count : Z)
| MOErr
| MOClear (entries : list (Z * Z * list Z)) (count : Z).
Definition dec_mobs (keyed : bool) (j : J) : option mobs :=
  match j with
  | JL [t; jr; je; JI c] =>
      if jtag_is "ok" t then
        match dec_rows keyed jr, dec_entries je with
        | Some r, Some e => Some (MOOk r e c)
        | _, _ => None
        end
      else None
  | JL [t; je; JI c] =>
      match dec_entries je with
      | Some e => if jtag_is "panic" t then Some (MOPanic e c)
                  else if jtag_is "clear" t then Some (MOClear e c)
                  else if jtag_is "err" t then Some MOErr else None
      | None => None
      end
  | _ => None
  end.
Definition obs_full (e : Z * Z * list Z) : list Z := fst (fst e) :: snd (fst e) :: snd e.
Definition mobs_entries (o : mobs) : list (Z * Z * list Z) :=
  match o with MOOk _ e _ | MOPanic e _ | MOClear e _ => e | MOErr => [] end.

(* does the observed content `oes` (count cnt) match the model content mc? *)
Definition content_agrees (prefix : Z) (exact : bool) (mc : list (entry Z))
           (oes : list (Z * Z * list Z)) (cnt : Z) : bool :=
  (cnt =? Z.of_nat (List.length mc)) && (Z.of_nat (List.length oes) =? cnt) &&
  forallb (fun e => (fst (fst e) =? prefix) && (0 <=? snd (fst e))) oes &&
  mset_eqb (map (@e_errors Z) mc) (map obs_payload oes) &&
  (if exact then mset_eqb (map entry_code mc) (map obs_code oes) else true).

(* state: model content, "all its entries come from sequential runs", content observed before *)
Fixpoint judge_multi (keyed : bool) (mc : list (entry Z)) (exact : bool)
         (prev : list (Z * Z * list Z)) (steps : list mstep) (os : list mobs)
  : option (bool * bool) :=
  match steps, os with
  | [], [] => Some (true, true)
  | MClear :: steps', o :: os' =>
      let ok := match o with MOClear [] 0 => true | _ => false end in
      match judge_multi keyed [] true [] steps' os' with
      | Some (a, p) => Some (ok && a, ok && p)
      | None => None
      end
  | MRun md hc seq rows :: steps', o :: os' =>
      let prefix := if keyed then 1 else 0 in
      let m := if keyed then model_run_keyed md hc rows else model_run md hc rows in
      let '(mc', exact', a1) :=
        match m, o with
        | Ok (out, lg), MOOk orows oes cnt =>
            let mc' := mc ++ lg in
            let exact' := exact && (seq || match lg with [] => true | _ => false end) in
            (mc', exact', ll_eqb out orows && content_agrees prefix exact' mc' oes cnt)
        | Panic, MOPanic oes cnt => (mc, exact, content_agrees prefix exact mc oes cnt)
        | Ok (_, lg), _ => (mc ++ lg, false, false)
        | _, _ => (mc, exact, false)
        end in
      let logs := match md with LogAndContinue => hc | _ => false end in
      let n_bad := Z.of_nat (List.length (ref_payloads rows)) in
      let p1 :=
        match o with
        | MOErr | MOClear _ _ => false
        | MOPanic oes cnt =>
            (match md with FailFast => 0 <? n_bad | _ => false end) &&
            mset_eqb (map obs_full oes) (map obs_full prev) &&      (* nothing changed *)
            (cnt =? Z.of_nat (List.length oes))
        | MOOk orows oes cnt =>
            (cnt =? Z.of_nat (List.length oes)) &&
            match md with
            | FailFast => (n_bad =? 0) && ll_eqb orows rows &&
                          mset_eqb (map obs_full oes) (map obs_full prev)
            | _ =>
                ll_eqb orows (ref_keep rows) &&
                (if logs
                 then mset_eqb (map obs_payload oes) (map obs_payload prev ++ ref_payloads rows) &&
                      (cnt =? Z.of_nat (List.length prev) + n_bad) &&
                      (Z.of_nat (List.length orows) + n_bad =? Z.of_nat (List.length rows))
                 else mset_eqb (map obs_full oes) (map obs_full prev))
            end
        end in
      match judge_multi keyed mc' exact' (mobs_entries o) steps' os' with
      | Some (a, p) => Some (a1 && a, p1 && p)
      | None => None
      end
  | _, _ => None
  end.

(* ---------- trees: branching pipelines, every builder among the element-wise builders ----------
   in = [keyed source, threads, rows, script]; script op = [0, parent, step] (builder call) |
   [1, handle, exec, partitions] (collect); out = one observation per collect with ALL collectors
   read back: ["ok", rows, colls] | ["panic", colls] | ["err", colls].
   Model: the pipeline graph of Validation/Tree.v (apply_transform = fresh node + edge; collect =
   backwalk from the handle, planner order, the block on the single partition [input]; by
   c17_tree_list_semantics output and payload multisets do not depend on the partitioning).
   Reference: the handle's lineage (computed here from the script, no graph) under list semantics
   in written order.  Both are judged relative to the collectors OBSERVED before the collect:
   completed run: after = before + delta (identifiers exact for collect_seq, payloads for
   collect_par); panicking run: collect_seq: after = before + the appends of the operators in
   front of the failing fail-fast step; collect_par: before <= after <= before + what the log
   steps would append if no fail-fast step failed (which partitions got how far is not
   determined). *)

(* merge sort on integer lists (big collectors) *)
Fixpoint zl_merge (a : list (list Z)) : list (list Z) -> list (list Z) :=
  fix inner (b : list (list Z)) : list (list Z) :=
    match a, b with
    | [], _ => b
    | _, [] => a
    | x :: a', y :: b' => if zl_leb x y then x :: zl_merge a' b else y :: inner b'
    end.
Fixpoint zl_merge_pairs (ls : list (list (list Z))) : list (list (list Z)) :=
  match ls with
  | a :: b :: r => zl_merge a b :: zl_merge_pairs r
  | _ => ls
  end.
Fixpoint zl_msort_fuel (fuel : nat) (ls : list (list (list Z))) : list (list Z) :=
  match fuel with
  | O => List.concat ls
  | S f => match ls with
           | [] => []
           | [l] => l
           | _ => zl_msort_fuel f (zl_merge_pairs ls)
           end
  end.
Definition zl_msort (l : list (list Z)) : list (list Z) :=
  zl_msort_fuel (List.length l) (map (fun x => [x]) l).
Definition mset_eqb2 (a b : list (list Z)) : bool := ll_eqb (zl_msort a) (zl_msort b).
(* a <= b as multisets, both sorted *)
Fixpoint sub_sorted (a : list (list Z)) : list (list Z) -> bool :=
  fix inner (b : list (list Z)) : bool :=
    match a, b with
    | [], _ => true
    | _, [] => false
    | x :: a', y :: b' => if zl_eqb x y then sub_sorted a' b'
                          else if zl_leb y x then inner b' else false
    end.
Definition mset_sub (a b : list (list Z)) : bool := sub_sorted (zl_msort a) (zl_msort b).

Definition dec_coll (z : Z) : option (option nat) :=
  if z =? -1 then Some None
  else if (0 <=? z) && (z <? 3) then Some (Some (Z.to_nat z)) else None.
(* a builder call on a handle of static type `keyed`: the step and the static type of the result *)
Definition dec_tstep (keyed : bool) (j : J) : option (tstep * bool) :=
  match jints j with
  | Some [t; a] =>
      if t =? 0 then Some (if keyed then TMapValues a else TMap a, keyed)
      else if t =? 5 then (if negb keyed && (0 <? a) then Some (TKeyBy a, true) else None)
      else None
  | Some [t; a; b] =>
      if t =? 1 then
        (if 0 <? a then Some (if keyed then TFilterValues a b else TFilter a b, keyed) else None)
      else if t =? 2 then
        match mode_of a, dec_coll b with
        | Some md, Some c =>
            Some ((if keyed then TValidateValues else TValidate) (BWithMode md c), keyed)
        | _, _ => None
        end
      else if t =? 7 then
        (if keyed && (0 <=? a) then Some (TMapValuesBatches (Z.to_nat a) b, true) else None)
      else None
  | Some [t] =>
      if t =? 3 then Some ((if keyed then TValidateValues else TValidate) BSkipInvalid, keyed)
      else if t =? 4 then (if keyed then None else Some (TValidate BFailFast, false))
      else if t =? 6 then (if keyed then Some (TValues, false) else None)
      else None
  | _ => None
  end.

(* rows: explicit, or ["r", n, m, t] = the rows of the big kind *)
Definition dec_tree_rows (keyed : bool) (j : J) : option (list (list Z)) :=
  match j with
  | JL [t; JI n; JI m; JI th] =>
      if jtag_is "r" t then
        (if (0 <=? n) && (1 <=? m) && (0 <=? th) then Some (big_rows keyed m th (Z.to_nat n) 0)
         else None)
      else dec_rows keyed j
  | _ => dec_rows keyed j
  end.
Definition trow_to_val (row : list Z) : val :=
  match row with [v] => VInt v | _ => row_to_val row end.
Definition tval_to_row (v : val) : list Z :=
  match v with VInt z => [z] | _ => val_to_row v end.

(* observations *)
Definition tcolls : Type := list (list (Z * Z * list Z) * Z).
Definition dec_colls (j : J) : option tcolls :=
  match j with
  | JL [c0; c1; c2] =>
      omap (fun c => match c with
                     | JL [je; JI cnt] => match dec_entries je with
                                          | Some e => Some (e, cnt)
                                          | None => None
                                          end
                     | _ => None
                     end) [c0; c1; c2]
  | _ => None
  end.
Inductive tobs := TOOk (rows : list (list Z)) (cs : tcolls) | TOPanic (cs : tcolls)
                | TOErr (cs : tcolls).
Definition dec_tobs (keyed : bool) (j : J) : option tobs :=
  match j with
  | JL [t; jr; jc] =>
      if jtag_is "ok" t then
        match dec_rows keyed jr, dec_colls jc with
        | Some r, Some c => Some (TOOk r c)
        | _, _ => None
        end
      else None
  | JL [t; jc] =>
      match dec_colls jc with
      | Some c => if jtag_is "panic" t then Some (TOPanic c)
                  else if jtag_is "err" t then Some (TOErr c) else None
      | None => None
      end
  | _ => None
  end.
Definition tobs_colls (o : tobs) : tcolls :=
  match o with TOOk _ c | TOPanic c | TOErr c => c end.
(* all entries of all collectors as [collector; prefix; idx; code..] *)
Fixpoint flat_colls (cid : Z) (cs : tcolls) : list (list Z) :=
  match cs with
  | [] => []
  | (es, _) :: r => map (fun e => cid :: obs_full e) es ++ flat_colls (cid + 1) r
  end.
(* error_count = number of entries, identifiers parsed and non-negative, known prefix *)
Definition colls_sane (cs : tcolls) : bool :=
  forallb (fun c : list (Z * Z * list Z) * Z =>
             (snd c =? Z.of_nat (List.length (fst c))) &&
             forallb (fun e => ((fst (fst e) =? 0) || (fst (fst e) =? 1)) && (0 <=? snd (fst e)))
                     (fst c)) cs.
Definition strip_idx (c : list Z) : list Z :=
  match c with a :: b :: _ :: r => a :: b :: r | _ => c end.

Definition tentry_code (e : tentry) : list Z :=
  Z.of_nat (te_coll e) :: (if te_keyed e then 1 else 0) :: Z.of_nat (e_idx (te_entry e))
  :: e_errors (te_entry e).

(* before/after/delta comparisons *)
Definition delta_exact (exact : bool) (prev cur delta : list (list Z)) : bool :=
  if exact then mset_eqb2 cur (prev ++ delta)
  else mset_eqb2 (map strip_idx cur) (map strip_idx (prev ++ delta)).
Definition delta_within (prev cur maybe : list (list Z)) : bool :=
  mset_sub (map strip_idx prev) (map strip_idx cur) &&
  mset_sub (map strip_idx cur) (map strip_idx (prev ++ maybe)).

(* relax_step (Validation/Tree.v): fail-fast steps never failing = an upper bound for what a
   panicking parallel run may append (c17_tree_panic_bound) *)

(* ---- reference: list semantics of a lineage in written order, on integer rows ---- *)
Definition add_last (c : Z) (row : list Z) : list Z :=
  match row with [v] => [v + c] | [k; v] => [k; v + c] | _ => row end.
(* (output or None = the run fails, appends so far as [collector; prefix; position; code..]);
   `relaxed`: fail-fast steps behave like skip steps *)
Fixpoint ref_lineage (relaxed : bool) (ss : list tstep) (rows : list (list Z))
  : option (list (list Z)) * list (list Z) :=
  match ss with
  | [] => (Some rows, [])
  | s :: t =>
      let pure (rows' : list (list Z)) := ref_lineage relaxed t rows' in
      let validate (md : mode) (coll : option nat) (prefix : Z) :=
        match md with
        | FailFast =>
            if relaxed then pure (ref_keep rows)
            else match ref_payloads rows with [] => pure rows | _ => (None, []) end
        | SkipInvalid => pure (ref_keep rows)
        | LogAndContinue =>
            let mine := match coll with
                        | Some c => map (fun pe => Z.of_nat c :: prefix :: pe) (ref_positions 0 rows)
                        | None => []
                        end in
            let '(o, pl) := pure (ref_keep rows) in (o, mine ++ pl)
        end in
      let of_builder (b : builder) (prefix : Z) :=
        match b with
        | BWithMode md c => validate md c prefix
        | BSkipInvalid => validate SkipInvalid None prefix
        | BFailFast => validate FailFast None prefix
        end in
      match s with
      | TMap c | TMapValues c | TMapValuesBatches _ c => pure (map (add_last c) rows)
      | TFilter m r | TFilterValues m r =>
          pure (filter (fun row => negb (row_value row mod m =? r)) rows)
      | TKeyBy m => pure (map (fun row => [row_value row mod m; row_value row]) rows)
      | TValues => pure (map (fun row => [row_value row]) rows)
      | TValidate b => of_builder b 0
      | TValidateValues b => of_builder b 1
      end
  end.

(* planned order = written order? (a lineage without a validation step that the planner sorts
   is finding C02-reorder's subject and must not be generated here) *)
Fixpoint tsteps_same (a b : list nat) : bool :=
  match a, b with
  | [], [] => true
  | x :: a', y :: b' => (x =? y)%nat && tsteps_same a' b'
  | _, _ => false
  end.
Definition plan_is_written (ss : list tstep) : bool :=
  tsteps_same (map op_uid (Planner.reorder_ops (compile_tfrom 0 ss))) (seq 0 (List.length ss)).

Record tstate := mk_tstate {
  ts_g : tgraph; ts_hs : list nat; ts_shapes : list bool; ts_lins : list (list tstep) }.

(* one collect: (agree, prop, flattened collectors after) *)
Definition judge_collect (st : tstate) (rows : list (list Z)) (prev : list (list Z))
           (h : nat) (sq : bool) (j : J) : option (bool * bool * list (list Z)) :=
  match nth_error (ts_shapes st) h, nth_error (ts_hs st) h, nth_error (ts_lins st) h with
  | Some keyed, Some id, Some lin =>
      match dec_tobs keyed j with
      | Some o =>
          if existsb is_tvalidation lin || plan_is_written lin then
            let cur := flat_colls 0 (tobs_colls o) in
            let sane := colls_sane (tobs_colls o) in
            let input := map trow_to_val rows in
            (* model *)
            let a :=
              match tcollect (ts_g st) id [input], o with
              | Some [(Ok out, lg)], TOOk orows _ =>
                  ll_eqb (map tval_to_row out) orows &&
                  delta_exact sq prev cur (map tentry_code lg)
              | Some [(Panic, lg)], TOPanic _ =>
                  if sq then delta_exact true prev cur (map tentry_code lg)
                  else match tcollect (ts_g st) id [input] with
                       | Some _ =>
                           delta_within prev cur
                             (map tentry_code
                                  (snd (trun_steps (map relax_step (plan_tsteps lin)) input)))
                       | None => false
                       end
              | _, _ => false
              end in
            (* reference *)
            let p :=
              match ref_lineage false lin rows, o with
              | (Some out, pl), TOOk orows _ => ll_eqb out orows && delta_exact sq prev cur pl
              | (None, pl), TOPanic _ =>
                  if sq then delta_exact true prev cur pl
                  else delta_within prev cur (snd (ref_lineage true lin rows))
              | _, _ => false
              end in
            Some (sane && a, sane && p, cur)
          else None
      | None => None
      end
  | _, _, _ => None
  end.

Fixpoint judge_tree (st : tstate) (rows : list (list Z)) (prev : list (list Z))
         (script os : list J) : option (bool * bool) :=
  match script with
  | [] => match os with [] => Some (true, true) | _ => None end
  | JL [JI t; JI p; jstep] :: script' =>
      if (t =? 0) && (0 <=? p) then
        let pn := Z.to_nat p in
        match nth_error (ts_shapes st) pn, nth_error (ts_hs st) pn, nth_error (ts_lins st) pn with
        | Some keyed, Some pid, Some plin =>
            match dec_tstep keyed jstep with
            | Some (s, keyed') =>
                let '(id, g') := tg_apply_transform (ts_g st) pid s in
                judge_tree (mk_tstate g' (ts_hs st ++ [id]) (ts_shapes st ++ [keyed'])
                                      (ts_lins st ++ [plin ++ [s]]))
                           rows prev script' os
            | None => None
            end
        | _, _, _ => None
        end
      else None
  | JL [JI t; JI h; JI ex; JI _] :: script' =>
      if (t =? 1) && (0 <=? h) && (ex_ok ex) then
        match os with
        | o :: os' =>
            match judge_collect st rows prev (Z.to_nat h) (ex_seq ex) o with
            | Some (a, p, cur) =>
                match judge_tree st rows cur script' os' with
                | Some (a', p') => Some (a && a', p && p')
                | None => None
                end
            | None => None
            end
        | [] => None
        end
      else None
  | _ => None
  end.

Definition tree_init : tstate :=
  let '(id, g) := tg_from_vec tg_empty in mk_tstate g [id] [] [[]].

(* ---------- views: the collector read through every public view ----------
   in = [keyed, exec, threads, partitions, rows]: one log-mode run with a collector;
   out = [run observation (errors() / error_count()), to_json() parsed back, write_to_file() read
   back, clone(), the count shown by Display].  Every view is judged like the run itself. *)
Definition dec_view (j : J) : option (list (Z * Z * list Z) * Z) :=
  match j with
  | JL [je; JI c] => match dec_entries je with Some e => Some (e, c) | None => None end
  | _ => None
  end.
Definition judge_views (keyed seq : bool) (rows : list (list Z)) (o : obs)
           (views : list (list (Z * Z * list Z) * Z)) (shown : Z) : bool * bool :=
  let '(a0, p0) := judge_run keyed LogAndContinue true seq rows o in
  match o with
  | OOk orows _ cnt =>
      fold_left (fun (acc : bool * bool) (v : list (Z * Z * list Z) * Z) =>
                   let '(a, p) := judge_run keyed LogAndContinue true seq rows
                                            (OOk orows (fst v) (snd v)) in
                   (fst acc && a, snd acc && p))
                views
                (a0 && (shown =? cnt),
                 p0 && (shown =? Z.of_nat (List.length (ref_payloads rows))))
  | _ => (false, false)
  end.

(* views at scale: summaries [entries; sum of codes; number of errors] of errors(), to_json(),
   write_to_file(), clone(), then the displayed count and error_count *)
Definition judge_views_big (keyed : bool) (n : nat) (m t : Z) (o : J) : option (bool * bool) :=
  match o with
  | JL [tg; v0; v1; v2; v3; JI shown; JI cnt] =>
      if jtag_is "ok" tg then
        match omap jints [v0; v1; v2; v3] with
        | Some views =>
            let want_model :=
              match model_big keyed LogAndContinue true n m t 1 0 with
              | Ok (_, lg) => Some (sum_entries lg)
              | _ => None
              end in
            let '(_, tot) := ref_big n m t 1 0 0 0 0 0 in
            let want_ref := match tot with [bad; codes; nerrs; _] => Some [bad; codes; nerrs]
                                         | _ => None end in
            let all_are (w : option (list Z)) :=
              match w with
              | Some l => forallb (zl_eqb l) views && (shown =? hd (-1) l) && (cnt =? hd (-1) l)
              | None => false
              end in
            Some (all_are want_model, all_are want_ref)
        | None => None
        end
      else None
  | JL [tg] => if jtag_is "panic" tg then Some (false, false) else None
  | JL [tg; _] => if jtag_is "err" tg then Some (false, false) else None
  | _ => None
  end.

(* ---------- entry point ---------- *)
Definition finish (r : option (bool * bool)) : verdict :=
  match r with Some (a, p) => ok_verdict a p | None => malformed end.

Definition check_C17 (kind : string) (input output : J) : verdict :=
  if String.eqb kind "run" then
    (* in = [keyed, mode, has_collector, exec (0 seq / 1 par), threads, partitions, rows] *)
    match input with
    | JL [jk; JI md; jhc; JI ex; JI _; JI _; jrows] =>
        match jbit jk, mode_of md, jbit jhc with
        | Some keyed, Some m, Some hc =>
            match dec_rows keyed jrows, dec_obs keyed output with
            | Some rows, Some o =>
                if ex_ok ex then
                  let '(a, p) := judge_run keyed m hc (ex_seq ex) rows o in ok_verdict a p
                else malformed
            | _, _ => malformed
            end
        | _, _, _ => malformed
        end
    | _ => malformed
    end
  else if String.eqb kind "multi" then
    (* in = [keyed, threads, steps]; out = one observation per step *)
    match input, output with
    | JL [jk; JI _; JL jsteps], JL jos =>
        match jbit jk with
        | Some keyed =>
            match omap (dec_mstep keyed) jsteps, omap (dec_mobs keyed) jos with
            | Some steps, Some os => finish (judge_multi keyed [] true [] steps os)
            | _, _ => malformed
            end
        | None => malformed
        end
    | _, _ => malformed
    end
  else if String.eqb kind "big" then
    (* in = [keyed, mode, has_collector, exec, threads, partitions, n, m, t, runs] *)
    match input with
    | JL [jk; JI md; jhc; JI ex; JI _; JI _; JI n; JI m; JI t; JI k] =>
        match jbit jk, mode_of md, jbit jhc, dec_bigobs output with
        | Some keyed, Some mo, Some hc, Some o =>
            if (ex_ok ex) && (0 <=? n) && (1 <=? m) && (0 <=? t) && (1 <=? k)
            then
              ok_verdict
                (agree_big (ex_seq ex)
                           (nth 3 (snd (ref_big (Z.to_nat n) m t (Z.to_nat k) 0 0 0 0 0)) 0)
                           (model_big keyed mo hc (Z.to_nat n) m t (Z.to_nat k) 0) o)
                (prop_big mo hc (ex_seq ex) (Z.to_nat n) m t (Z.to_nat k) o)
            else malformed
        | _, _, _, _ => malformed
        end
    | _ => malformed
    end
  else if String.eqb kind "tree" then
    (* in = [keyed source, threads, rows, script]; out = one observation per collect *)
    match input, output with
    | JL [jk; JI _; jrows; JL script], JL os =>
        match jbit jk with
        | Some keyed =>
            match dec_tree_rows keyed jrows with
            | Some rows =>
                finish (judge_tree (mk_tstate (ts_g tree_init) (ts_hs tree_init) [keyed]
                                              (ts_lins tree_init)) rows [] script os)
            | None => malformed
            end
        | None => malformed
        end
    | _, _ => malformed
    end
  else if String.eqb kind "views" then
    match input, output with
    | JL [jk; JI ex; JI _; JI _; jrows], JL [jo; v1; v2; v3; JI shown] =>
        match jbit jk with
        | Some keyed =>
            match dec_rows keyed jrows, dec_obs keyed jo, omap dec_view [v1; v2; v3] with
            | Some rows, Some o, Some views =>
                if ex_ok ex then
                  let '(a, p) := judge_views keyed (ex_seq ex) rows o views shown in ok_verdict a p
                else malformed
            | _, _, _ => malformed
            end
        | None => malformed
        end
    | _, _ => malformed
    end
  else if String.eqb kind "viewsbig" then
    match input with
    | JL [jk; JI n; JI m; JI t; JI _] =>
        match jbit jk with
        | Some keyed =>
            if (0 <=? n) && (1 <=? m) && (0 <=? t)
            then finish (judge_views_big keyed (Z.to_nat n) m t output)
            else malformed
        | None => malformed
        end
    | _ => malformed
    end
  else if String.eqb kind "row" then
    (* in = [keyed, len, bits, maxp]; out = one outcome per row_cfgs entry *)
    match input, output with
    | JL [jk; JI len; JI bits; JI maxp], JL os =>
        match jbit jk with
        | Some keyed =>
            finish (judge_all keyed (pattern_rows keyed 0 (Z.to_nat len) bits)
                              (row_cfgs (Z.to_nat maxp)) os)
        | None => malformed
        end
    | _, _ => malformed
    end
  else if String.eqb kind "pipe" then
    (* in = [exec, threads, partitions, rows, steps] *)
    match input with
    | JL [JI ex; JI _; JI _; jrows; JL jsteps] =>
        match dec_rows true jrows, omap dec_step jsteps, dec_obs true output with
        | Some rows, Some ss, Some o =>
            if existsb is_validate_step ss && (ex_ok ex) then
              ok_verdict (agree_with 1 (ex_seq ex) None (model_pipe ss rows) o)
                         (prop_pipe ss rows o)
            else malformed   (* blocks without a validation step belong to C02/C03 *)
        | _, _, _ => malformed
        end
    | _ => malformed
    end
  else if String.eqb kind "combine" then
    (* in = [null | [code..], ..]; out = null | [code..] *)
    match input with
    | JL jrs =>
        match omap dec_result jrs, dec_result output with
        | Some rs, Some o =>
            ok_verdict (result_eqb o (combine_validations rs)) (prop_combine rs o)
        | _, _ => malformed
        end
    | _ => malformed
    end
  else malformed.
