(* Correspondence for C11 (checkpointing is transparent, cleans up after success, survives crashes).
   kind "hist": a history of runs of real pipelines over one checkpoint directory; format in
   harness/src/bin/c11.rs.

   agree : for every run, the observed outcome and the observed directory listing after the run are
           what the model (Ckpt/Runner.v on top of the engine and store models) predicts.  Real
           file names carry wall-clock milliseconds; listings are compared after replacing every
           timestamp by its dense rank within the case, and the model's clock is chosen so that two
           checkpoints of one run share a millisecond exactly where the observation shows that an
           earlier one was overwritten (`hints`): the model is then run once and compared exactly.
   prop  : evaluated on the OBSERVATIONS only (the model is not consulted):
           - every run's outcome equals the outcome of the same pipeline run WITHOUT checkpoint
             configuration (same class; rows exactly, or as canonical multisets when a step iterates
             a hash map), and no run hangs or aborts;
           - after a successful run with checkpointing enabled no file of that run's pipeline id is
             left (pipeline id from the real plan length the harness reports and real SHA-256);
           - files not belonging to that pipeline id are the same before and after every run;
           - a run without (enabled) configuration leaves the directory exactly as it was.
   known : none. *)
From Coq Require Import List ZArith Bool String Arith.
From IB Require Import Util.J Engine.Val Engine.Ops Engine.Nodes Engine.Exec Engine.Planner Engine.Lang
     Engine.Denote Engine.Decode Engine.Canon Ckpt.Runner Ckpt.Manager.
From IB Require Ckpt.Bincode Ckpt.Store.
Import ListNotations.
Open Scope Z_scope.

Definition corr_avail : Z := 9223372036854775807.
Definition bytes_eqb := Store.bytes_eqb.

(* ------------------------------------------------------------------ decoding *)
Inductive damage := DTrunc (k : nat) | DSet (b : bytes) | DPatch (off : nat) (b : bytes)
                  | DXor (off : nat) (mask : Z).

Record runspec := mk_run {
  r_src : src; r_pre : option (list step); r_post : list step; r_crash : bool; r_xmode : xmode;
  r_cfg : option cfg; r_damage : option damage
}.
Inductive namespec :=
| NRaw (n : bytes)
| NPid (r : nat) (suffix : bytes)
(* a valid checkpoint of run r's pipeline id, written by the real save_checkpoint *)
| NState (r : nat) (ts idx parts total : Z) (ntype mode : bytes) (pc : Z).

(* a u64 / usize of any size: n (below 2^62) or [hi, lo] = hi * 2^32 + lo *)
Definition dec_big (j : J) : option Z :=
  match j with
  | JI n => if n <? 0 then None else Some n
  | JL [JI hi; JI lo] =>
      if (0 <=? hi) && (hi <? 4294967296) && (0 <=? lo) && (lo <? 4294967296)
      then Some (hi * 4294967296 + lo) else None
  | _ => None
  end.
Definition dec_policy (j : J) : option Store.policy :=
  match j with
  | JL [JS t] => if tag_is t "barrier" then Some Store.AfterEveryBarrier else None
  | JL [JS t; jn] =>
      match dec_big jn with
      | None => None
      | Some n =>
          if tag_is t "every" then Some (Store.EveryNNodes n)
          else if tag_is t "time" then Some (Store.TimeInterval n)
          else None
      end
  | JL [JS t; JB b; jn] =>
      match dec_big jn with
      | None => None
      | Some n => if tag_is t "hybrid" then Some (Store.Hybrid b n) else None
      end
  | _ => None
  end.
Definition dec_max (j : J) : option (option Z) :=
  match j with JN => Some None | _ => option_map Some (dec_big j) end.
Definition dec_cfg (j : J) : option (option cfg) :=
  match j with
  | JN => Some None
  | JL [JB en; jp; jm; JB auto] =>
      match dec_policy jp, dec_max jm with
      | Some p, Some m => Some (Some (mk_cfg en p auto m))
      | _, _ => None
      end
  | _ => None
  end.
Definition dec_damage (j : J) : option (option damage) :=
  match j with
  | JN => Some None
  | JL [JS t; a] =>
      if tag_is t "trunc" then option_map (fun k => Some (DTrunc k)) (dec_nat a)
      else if tag_is t "set" then option_map (fun b => Some (DSet b)) (jbytes a)
      else None
  | JL [JS t; a; b] =>
      if tag_is t "patch" then
        match dec_nat a, jbytes b with Some o, Some x => Some (Some (DPatch o x)) | _, _ => None end
      else if tag_is t "xor" then
        match dec_nat a, b with Some o, JI m => Some (Some (DXor o m)) | _, _ => None end
      else None
  | _ => None
  end.
Definition dec_opt_steps (j : J) : option (option (list step)) :=
  match j with JN => Some None | _ => option_map Some (dec_steps j) end.
(* null = Sequential | n = Parallel{partitions: Some n} | ["par", threads] = Parallel{partitions: None} *)
Definition dec_xmode (j : J) : option xmode :=
  match j with
  | JN => Some XSeq
  | JL [JS t; _] => if tag_is t "par" then Some (XPar None) else None
  | _ => option_map (fun n => XPar (Some n)) (dec_nat j)
  end.
Definition dec_run (j : J) : option runspec :=
  match j with
  | JL [js; jpre; jpost; JB crash; jm; jc; jd] =>
      match dec_src js, dec_opt_steps jpre, dec_steps jpost, dec_xmode jm, dec_cfg jc, dec_damage jd with
      | Some s, Some pre, Some post, Some m, Some c, Some d => Some (mk_run s pre post crash m c d)
      | _, _, _, _, _, _ => None
      end
  | _ => None
  end.
Definition dec_namespec (j : J) : option namespec :=
  match j with
  | JL [JS t; a] => if tag_is t "raw" then option_map NRaw (jbytes a) else None
  | JL [JS t; a; b] =>
      if tag_is t "pid" then
        match dec_nat a, jbytes b with Some r, Some s => Some (NPid r s) | _, _ => None end
      else None
  | _ => None
  end.
Definition dec_seed (j : J) : option (namespec * bytes) :=
  match j with
  | JL [JL [JS t; jr; JI ts]; JL [JI idx; JI parts; jtotal; jn; jm; JI pc]] =>
      if tag_is t "state" then
        match dec_nat jr, jbytes jn, jbytes jm,
              (match jtotal with
               | JI z => Some z
               | JS m => if tag_is m "max" then Some 18446744073709551615 else None
               | _ => None
               end) with
        | Some r, Some n, Some m, Some total => Some (NState r ts idx parts total n m pc, [])
        | _, _, _, _ => None
        end
      else None
  | JL [jn; jb] => match dec_namespec jn, jbytes jb with Some n, Some b => Some (n, b) | _, _ => None end
  | _ => None
  end.
Definition dec_seeds (j : J) : option (option (list (namespec * bytes))) :=
  match j with JN => Some None | JL l => option_map Some (omap dec_seed l) | _ => None end.

(* ---- observed listings ---- *)
Inductive cfields := FOk (idx : Z) (ntype : bytes) (total : Z) (mode : bytes) (parts : Z) | FBad | FAny.
Inductive centry :=
| CRaw (name : bytes) (size : Z)
| CCk (pid : bytes) (rank : Z) (size : Z) (f : cfields).

Definition dec_fields (j : J) : option cfields :=
  match j with
  | JL [JS t] => if tag_is t "bad" then Some FBad else None
  | JL [JS t; JI idx; jn; JI total; jm; JI parts] =>
      if tag_is t "ok" then
        match jbytes jn, jbytes jm with
        | Some n, Some m => Some (FOk idx n total m parts)
        | _, _ => None
        end
      else None
  | _ => None
  end.
Definition dec_centry (j : J) : option centry :=
  match j with
  | JL [JS t; jn; JI size] => if tag_is t "raw" then option_map (fun n => CRaw n size) (jbytes jn) else None
  | JL [JS t; jp; JI rank; JI size; jf] =>
      if tag_is t "ck" then
        match jbytes jp, dec_fields jf with
        | Some p, Some f => Some (CCk p rank size f)
        | _, _ => None
        end
      else None
  | _ => None
  end.
Definition dec_listing (j : J) : option (option (list centry)) :=
  match j with JN => Some None | JL l => option_map Some (omap dec_centry l) | _ => None end.

(* outcomes: Decode.dec_obs, plus ["abort"] read as a hang-like failure *)
Definition dec_obs' (j : J) : option obs :=
  match j with
  | JL [JS t] => if tag_is t "abort" then Some OHang else dec_obs j
  | _ => dec_obs j
  end.

Record runobs := mk_obs { o_out : obs; o_plain : obs; o_len : nat; o_listing : option (list centry);
                          o_sugg : option nat;    (* build_plan(..).suggested_partitions *)
                          o_default : nat         (* Runner::default().default_partitions *) }.
Definition dec_runobs (j : J) : option runobs :=
  match j with
  | JL [jo; jp; jl; jls; jsg; jdf] =>
      match dec_obs' jo, dec_obs' jp, dec_nat jl, dec_listing jls, dec_mode jsg, dec_nat jdf with
      | Some o, Some p, Some l, Some ls, Some sg, Some df => Some (mk_obs o p l ls sg df)
      | _, _, _, _, _, _ => None
      end
  | _ => None
  end.
Definition dec_digest (j : J) : option (bytes * bytes) :=
  match j with
  | JL [a; b] => match jbytes a, jbytes b with Some x, Some y => Some (x, y) | _, _ => None end
  | _ => None
  end.

(* ------------------------------------------------------------------ the model side *)
(* the injected identity map: `c.map(move |r| { if flag { panic!() } r.clone() })`; the closure runs
   once per element, so an empty partition does not panic *)
Definition inj_op (crash : bool) (t : tag) (uid : nat) : dynop :=
  if crash
  then op_custom t t (fun l => match l with [] => Some [] | _ :: _ => None end) false false false 10%nat uid
  else op_map t t (fun x => x) uid.

Definition compile_run (r : runspec) : Lang.cstate :=
  let s0 := {| cs_chain := [src_node (r_src r)]; cs_tag := src_tag (r_src r); cs_uid := uid_base |} in
  match r_pre r with
  | None => compile_steps (steps_size (r_post r)) (r_post r) s0
  | Some pre =>
      let s1 := compile_steps (steps_size pre) pre s0 in
      let s2 := push_op s1 (inj_op (r_crash r) (cs_tag s1)) (cs_tag s1) in
      compile_steps (steps_size (r_post r)) (r_post r) s2
  end.
Definition run_chain (r : runspec) : list node := optimise (cs_chain (compile_run r)).
Definition run_term (r : runspec) : tag := cs_tag (compile_run r).
Definition run_steps (r : runspec) : list step :=
  match r_pre r with Some p => p ++ r_post r | None => r_post r end.
(* the engine mode with the partition count the runner resolves *)
Definition cmode (r : runspec) (ob : runobs) : Canon.mode :=
  match r_xmode r with
  | XSeq => MSeq
  | XPar p => MPar (resolve_parts (o_sugg ob) (o_default ob) p)
  end.

(* SHA-256: the real digests the harness supplies for the pipeline-id strings; any other string (the
   checksums inside files, which the model only ever compares with its own) gets a 32-byte value *)
Definition fallbackH (x : bytes) : bytes :=
  let s := fold_left (fun a b => (a * 31 + b + 7) mod 1000003) x 17 in
  map (fun i => (s / (Z.of_nat i + 1) + Z.of_nat i * 37) mod 256) (seq 0 32).
Definition mkH (tab : list (bytes * bytes)) (x : bytes) : bytes :=
  match find (fun e => bytes_eqb (fst e) x) tab with Some e => snd e | None => fallbackH x end.

Definition T0 : Z := 1700000000000.
Definition count_below (u : list Z) (idx : nat) : Z :=
  Z.of_nat (List.length (filter (fun x => x <? Z.of_nat idx) u)).
(* run r's clock: milliseconds advance exactly after the node indices in `hints` *)
Definition clock_of (r : nat) (hints : list Z) (idx j : nat) : Z :=
  (T0 + 1000 * Z.of_nat r + count_below hints idx) * 1000000 + Z.of_nat idx * 10 + Z.of_nat j.
Definition corr_pct (idx total : nat) : Z :=
  if Nat.eqb total 0 then 0 else Z.of_nat (100 * idx / total) mod 256.

(* ---- canonical form of a model directory ---- *)
Definition is_hex (b : Z) : bool := Bincode.in_rng 48 57 b || Bincode.in_rng 97 102 b.
(* `checkpoint_<16 hex>_<13 digits, no leading zero>.bin` : a name written by a run *)
Definition run_written (n : bytes) : option (bytes * Z) :=
  match Store.strip_prefix Store.s_checkpoint_ n with
  | None => None
  | Some r =>
      match Store.strip_suffix Store.s_bin r with
      | None => None
      | Some mid =>
          let pid := firstn 16 mid in
          let rest := skipn 16 mid in
          match rest with
          | us :: ts =>
              if (us =? Store.c_us) && Nat.eqb (List.length pid) 16 && forallb is_hex pid
                 && Nat.eqb (List.length ts) 13 && forallb Store.is_digit ts
                 && negb (match ts with d :: _ => d =? 48 | [] => true end)
              then match Store.parse_u64 ts with Some t => Some (pid, t) | None => None end
              else None
          | [] => None
          end
      end
  end.

Inductive mentry := MRaw (name : bytes) (size : Z) | MCk (pid : bytes) (ts : Z) (size : Z) (f : cfields).

Definition fields_of (H : bytes -> bytes) (damaged : list bytes) (n b : bytes) : cfields :=
  if existsb (bytes_eqb n) damaged then FAny
  else match Store.load_bytes H corr_avail b with
       | Store.Ok s => FOk (Bincode.completed_node_index s)
                           (Bincode.last_node_type (Bincode.metadata s))
                           (Bincode.total_nodes (Bincode.metadata s)) (Bincode.exec_mode s)
                           (Bincode.partition_count s)
       | _ => FBad
       end.
Definition mlisting (H : bytes -> bytes) (damaged : list bytes) (d : dir) : list mentry :=
  map (fun e => let '(n, b) := e in
                let size := Z.of_nat (List.length b) in
                match run_written n with
                | Some (pid, ts) => MCk pid ts size (fields_of H damaged n b)
                | None => MRaw n size
                end) d.

Definition fields_match (m o : cfields) : bool :=
  match m, o with
  | FAny, _ => true
  | FBad, FBad => true
  | FOk i n t md p, FOk i' n' t' md' p' =>
      (i =? i') && bytes_eqb n n' && (t =? t') && bytes_eqb md md' && (p =? p')
  | _, _ => false
  end.
Definition rank_of (all_ts : list Z) (ts : Z) : Z :=
  1 + Z.of_nat (List.length (filter (fun t => t <? ts) all_ts)).
Definition entry_match (all_ts : list Z) (m : mentry) (o : centry) : bool :=
  match m, o with
  | MRaw n s, CRaw n' s' => bytes_eqb n n' && (s =? s')
  | MCk p ts s f, CCk p' r s' f' =>
      bytes_eqb p p' && (rank_of all_ts ts =? r) && (s =? s') && fields_match f f'
  | _, _ => false
  end.
Definition listing_match (all_ts : list Z) (m : option (list mentry)) (o : option (list centry)) : bool :=
  match m, o with
  | None, None => true
  | Some ms, Some os =>
      Nat.eqb (List.length ms) (List.length os)
      && forallb (fun oe => existsb (fun me => entry_match all_ts me oe) ms) os
      && forallb (fun me => existsb (fun oe => entry_match all_ts me oe) os) ms
  | _, _ => false
  end.
Fixpoint dedup_z (l : list Z) : list Z :=
  match l with [] => [] | x :: r => if existsb (Z.eqb x) r then dedup_z r else x :: dedup_z r end.
Definition ts_of (ls : list (option (list mentry))) : list Z :=
  dedup_z (flat_map (fun l => match l with
                              | Some es => flat_map (fun e => match e with MCk _ t _ _ => [t] | _ => [] end) es
                              | None => []
                              end) ls).

(* ---- hints: node indices of the files of this pipeline that are new in this listing ---- *)
Definition ranks_in (l : option (list centry)) : list Z :=
  match l with
  | Some es => flat_map (fun e => match e with CCk _ r _ _ => [r] | _ => [] end) es
  | None => []
  end.
Definition hints_of (pid : bytes) (prev cur : option (list centry)) : list Z :=
  match cur with
  | Some es =>
      flat_map (fun e => match e with
                         | CCk p r _ (FOk idx _ _ _ _) =>
                             if bytes_eqb p pid && negb (existsb (Z.eqb r) (ranks_in prev)) then [idx] else []
                         | _ => []
                         end) es
  | None => []
  end.

(* ---- damage ---- *)
Fixpoint patch_at (off : nat) (p old : bytes) : bytes :=
  match off, old with
  | _, [] => []
  | S o, x :: r => x :: patch_at o p r
  | O, x :: r => match p with [] => old | y :: p' => y :: patch_at O p' r end
  end.
Definition damaged_content (dm : damage) (old : bytes) : bytes :=
  match dm with
  | DTrunc k => firstn k old
  | DSet b => b
  | DPatch off b => patch_at off b old
  | DXor off m => firstn off old ++ match skipn off old with
                                    | [] => []
                                    | x :: r => Z.lxor x m :: r
                                    end
  end.
Definition apply_damage (pid : bytes) (dm : option damage) (fs : option dir) (damaged : list bytes)
  : option dir * list bytes :=
  match dm, fs with
  | Some dm, Some d =>
      match Store.latest Store.dir_names true pid d with
      | Some n => match Store.dir_lookup d n with
                  | Some old => (Some (Store.dir_write d n (damaged_content dm old)), n :: damaged)
                  | None => (fs, damaged)
                  end
      | None => (fs, damaged)
      end
  | _, _ => (fs, damaged)
  end.

(* ---- one run of the model ---- *)
Definition model_obs (r : runspec) (m : Canon.mode) (o : outcome (list val)) : obs :=
  match o with
  | Ok rows =>
      let steps := run_steps r in
      if minmax_panics (S (steps_size steps)) m (r_src r) [] steps then OPanic else OOk rows
  | _ => obs_of o
  end.

Definition seed_dir (H : bytes -> bytes) (pids : list bytes) (seeds : list (namespec * bytes)) : dir :=
  fold_left (fun d e =>
               let '(ns, b) := e in
               match ns with
               | NRaw n => Store.dir_write d n b
               | NPid r suffix =>
                   Store.dir_write d (Store.s_checkpoint_ ++ nth r pids [] ++ [Store.c_us] ++ suffix) b
               | NState r ts idx parts total ntype mode pc =>
                   let pid := nth r pids [] in
                   Store.dir_write d (Store.ckpt_name pid ts)
                                   (Bincode.encode (mk_state H pid idx ts parts mode total ntype pc))
               end) seeds [].

Record mstate := mk_ms {
  ms_fs : option dir; ms_damaged : list bytes; ms_prev : option (list centry);
  ms_outs : list obs; ms_listings : list (option (list mentry)); ms_idx : nat
}.

Definition model_step (H : bytes -> bytes) (st : mstate) (ro : runspec * runobs) : mstate :=
  let '(r, ob) := ro in
  let chain := run_chain r in
  let mode := r_xmode r in
  let pid := run_pid H mode (o_sugg ob) (o_default ob) chain in
  let hints := hints_of pid (ms_prev st) (o_listing ob) in
  let '(res, fs') := run_collect id_sh Store.dir_names H corr_avail corr_pct
                                 (clock_of (ms_idx st) hints) mode (o_sugg ob) (o_default ob)
                                 (r_cfg r) (ms_fs st)
                                 (run_term r) chain in
  let lst := option_map (mlisting H (ms_damaged st)) fs' in
  let '(fs'', dmg) := apply_damage pid (r_damage r) fs' (ms_damaged st) in
  mk_ms fs'' dmg (o_listing ob) (ms_outs st ++ [model_obs r (cmode r ob) res]) (ms_listings st ++ [lst])
        (S (ms_idx st)).

Definition run_model (H : bytes -> bytes) (seeds : option (list (namespec * bytes)))
           (ros : list (runspec * runobs)) (l0 : option (list centry)) : mstate :=
  let pids := map (fun ro => run_pid H (r_xmode (fst ro)) (o_sugg (snd ro)) (o_default (snd ro))
                                     (run_chain (fst ro))) ros in
  let fs0 := option_map (seed_dir H pids) seeds in
  fold_left (model_step H)
            ros (mk_ms fs0 [] l0 [] [option_map (mlisting H []) fs0] 0%nat).

Definition agree_hist (H : bytes -> bytes) (seeds : option (list (namespec * bytes)))
           (ros : list (runspec * runobs)) (l0 : option (list centry)) : bool :=
  let st := run_model H seeds ros l0 in
  let all_ts := ts_of (ms_listings st) in
  let obs_ls := l0 :: map (fun ro => o_listing (snd ro)) ros in
  Nat.eqb (List.length (ms_listings st)) (List.length obs_ls)
  && forallb (fun p => listing_match all_ts (fst p) (snd p)) (combine (ms_listings st) obs_ls)
  && forallb (fun p => let '(ro, m) := p in
                       obs_agree (cmp_of (run_steps (fst ro))) m (o_out (snd ro)))
             (combine ros (ms_outs st)).

(* ------------------------------------------------------------------ the property on observations *)
Definition cfg_enabled (c : option cfg) : bool := match c with Some c => c_enabled c | None => false end.
Definition is_ok (o : obs) : bool := match o with OOk _ => true | _ => false end.
Definition not_hang (o : obs) : bool := match o with OHang => false | _ => true end.

(* pipeline id from the OBSERVED plan length and the real digest *)
Definition obs_pid (tab : list (bytes * bytes)) (len : nat) (m : Canon.mode) : option bytes :=
  let s := match m with
           | MSeq => Store.dec (Z.of_nat len)
           | MPar n => Store.dec (Z.of_nat len) ++ [58] ++ Store.dec (Z.of_nat n)
           end in
  match find (fun e => bytes_eqb (fst e) s) tab with
  | Some e => Some (firstn 16 (Store.hex (snd e)))
  | None => None
  end.
Definition belongs (pid : bytes) (e : centry) : bool :=
  match e with
  | CRaw n _ => Store.is_ckpt pid n
  | CCk p _ _ _ => bytes_eqb p pid
  end.
(* identity of a file in a canonical listing (content may be damaged between runs) *)
Definition same_file (a b : centry) : bool :=
  match a, b with
  | CRaw n _, CRaw n' _ => bytes_eqb n n'
  | CCk p r _ _, CCk p' r' _ _ => bytes_eqb p p' && (r =? r')
  | _, _ => false
  end.
Definition same_files (a b : list centry) : bool :=
  Nat.eqb (List.length a) (List.length b)
  && forallb (fun x => existsb (same_file x) b) a && forallb (fun y => existsb (same_file y) a) b.
Definition entries (l : option (list centry)) : list centry := match l with Some es => es | None => [] end.
Definition is_some {A} (o : option A) : bool := match o with Some _ => true | None => false end.

Fixpoint prop_runs (tab : list (bytes * bytes)) (prev : option (list centry))
         (ros : list (runspec * runobs)) : bool :=
  match ros with
  | [] => true
  | (r, ob) :: rest =>
      let exact := cmp_of (run_steps r) in
      let transparent :=
        not_hang (o_out ob) && not_hang (o_plain ob) && obs_agree exact (o_plain ob) (o_out ob) in
      let dir_ok :=
        if cfg_enabled (r_cfg r) then
          match obs_pid tab (o_len ob) (cmode r ob) with
          | None => false
          | Some pid =>
              is_some (o_listing ob)
              && (negb (is_ok (o_out ob)) || negb (existsb (belongs pid) (entries (o_listing ob))))
              && same_files (filter (fun e => negb (belongs pid e)) (entries prev))
                            (filter (fun e => negb (belongs pid e)) (entries (o_listing ob)))
          end
        else Bool.eqb (is_some prev) (is_some (o_listing ob))
             && same_files (entries prev) (entries (o_listing ob)) in
      transparent && dir_ok && prop_runs tab (o_listing ob) rest
  end.

(* ------------------------------------------------------------------ the judge *)
Definition failed_out (j : J) : bool :=
  match j with
  | JL [JS t] => tag_is t "abort" || tag_is t "hang" || tag_is t "panic"
  | _ => false
  end.


(* ================================================================== kind "mgr": the manager directly
   in  = [enabled, policy, max|null, ops]
         op = ["calls", total, [idx, ..]]   should_checkpoint(idx, false, total), (idx, true, total) per idx
            | ["save", ts]                  save_checkpoint of the state the harness builds (pipeline id
                                            MGR_PID, node index = position of the op, timestamp ts)
            | ["last", null | ["rel", d] | ["abs", d]]   last_checkpoint_time = None | now + d s | epoch + d s
   out = ["ok", [per op: [bool, ..] | "ok" | "err" | null], [[file name, size], ..]]
   The wall clock is not observed.  The model is run under TWO clocks that bracket every real execution
   (all operations in the same instant of mid 2025 / five seconds apart from early 2036 on): the
   decisions are monotone in the time elapsed since `last`, so when both clocks give the same
   answers every execution in between does; if they differ the case depends on the wall clock and is
   malformed (the generator keeps intervals and offsets apart).
   agree : observed = model.   prop : no panic, and every decision is what the policy's documentation says,
   evaluated by `ref_decision` (written independently of Store.should_checkpoint: elapsed whole seconds by
   division, multiples by gcd) along the observed script. *)
Inductive lastspec := LNone | LRel (d : Z) | LAbs (d : Z).
Inductive mopspec := OCalls (idxs : list Z) | OSave (ts : Z) | OLast (l : lastspec).

Definition dec_mopspec (j : J) : option mopspec :=
  match j with
  | JL [JS t; a; JL l] =>
      if tag_is t "calls" then
        match dec_big a, omap dec_big l with Some _, Some idxs => Some (OCalls idxs) | _, _ => None end
      else None
  | JL [JS t; a] =>
      if tag_is t "save" then option_map OSave (dec_big a)
      else if tag_is t "last" then
        match a with
        | JN => Some (OLast LNone)
        | JL [JS k; JI d] =>
            if tag_is k "rel" then Some (OLast (LRel d))
            else if tag_is k "abs" then Some (OLast (LAbs d)) else None
        | _ => None
        end
      else None
  | _ => None
  end.

Inductive mobs := BCalls (l : list bool) | BSaved (ok : bool) | BSet.
Definition dec_mobs (j : J) : option mobs :=
  match j with
  | JN => Some BSet
  | JS t => if tag_is t "ok" then Some (BSaved true) else if tag_is t "err" then Some (BSaved false) else None
  | JL l => option_map BCalls (omap jbool l)
  | _ => None
  end.
Definition dec_file (j : J) : option (bytes * Z) :=
  match j with
  | JL [jn; JI size] => option_map (fun n => (n, size)) (jbytes jn)
  | _ => None
  end.

Definition NS : Z := 1000000000.
Definition mgr_pid : bytes := string_bytes "00000000000000aa".
Definition clk_lo (k : nat) : Z := 1750000000 * NS.
Definition clk_hi (k : nat) : Z := (2100000000 + 5 * Z.of_nat k) * NS + 999999999.

(* the state the harness builds for the k-th operation *)
Definition mgr_state (H : bytes -> bytes) (k : nat) (ts : Z) : Bincode.cstate :=
  mk_state H mgr_pid (Z.of_nat k) ts 1 (string_bytes "sequential") 1 (string_bytes "Stateless") 0.

Definition timed_ops (H : bytes -> bytes) (clk : nat -> Z) (k : nat) (o : mopspec) : list (Z * mop) :=
  let now := clk k in
  match o with
  | OCalls idxs => flat_map (fun i => [(now, MCall i false); (now, MCall i true)]) idxs
  | OSave ts => [(now, MSave (mgr_state H k ts))]
  | OLast LNone => [(now, MSetLast None)]
  | OLast (LRel d) => [(now, MSetLast (Some (now + d * NS)))]
  | OLast (LAbs d) => [(now, MSetLast (Some (d * NS)))]
  end.
Fixpoint script (H : bytes -> bytes) (clk : nat -> Z) (k : nat) (ops : list mopspec) : list (Z * mop) :=
  match ops with
  | [] => []
  | o :: r => timed_ops H clk k o ++ script H clk (S k) r
  end.

Definition flat_obs (l : list mobs) : list mres :=
  flat_map (fun o => match o with
                     | BCalls bs => map RDecision bs
                     | BSaved ok => [RSaved ok]
                     | BSet => [RSet]
                     end) l.
Definition mres_eqb (a b : mres) : bool :=
  match a, b with
  | RDecision x, RDecision y => Bool.eqb x y
  | RSaved x, RSaved y => Bool.eqb x y
  | RSet, RSet => true
  | _, _ => false
  end.
Fixpoint list_eqb {A} (eq : A -> A -> bool) (a b : list A) : bool :=
  match a, b with
  | [], [] => true
  | x :: a', y :: b' => eq x y && list_eqb eq a' b'
  | _, _ => false
  end.
Definition files_match (d : dir) (fs : list (bytes * Z)) : bool :=
  Nat.eqb (List.length d) (List.length fs)
  && forallb (fun f => existsb (fun e => bytes_eqb (fst e) (fst f)
                                        && (Z.of_nat (List.length (snd e)) =? snd f)) d) fs.

(* the reference, along the observed script: `last` is what the script itself says *)
Definition ref_due (last : option Z) (now secs : Z) : bool :=
  match last with
  | None => true
  | Some t => if now <? t then false else secs <=? (now - t) / NS
  end.
Definition ref_decision (enabled : bool) (p : Store.policy) (last : option Z) (now idx : Z) (barrier : bool) : bool :=
  enabled &&
  match p with
  | Store.AfterEveryBarrier => barrier
  | Store.EveryNNodes n => (1 <=? idx) && (1 <=? n) && (Z.gcd idx n =? n)
  | Store.TimeInterval s => ref_due last now s
  | Store.Hybrid bb s => if ref_due last now s then true else bb && barrier
  end.
Fixpoint ref_script (enabled : bool) (p : Store.policy) (clk : nat -> Z) (k : nat) (last : option Z)
         (ops : list (mopspec * mobs)) : bool :=
  match ops with
  | [] => true
  | (o, ob) :: r =>
      let now := clk k in
      match o, ob with
      | OCalls idxs, BCalls bs =>
          list_eqb Bool.eqb bs
                   (flat_map (fun i => [ref_decision enabled p last now i false;
                                        ref_decision enabled p last now i true]) idxs)
          && ref_script enabled p clk (S k) last r
      | OSave _, BSaved ok => ref_script enabled p clk (S k) (if ok then Some now else last) r
      | OLast l, BSet =>
          ref_script enabled p clk (S k)
                     (match l with LNone => None | LRel d => Some (now + d * NS) | LAbs d => Some (d * NS) end) r
      | _, _ => false
      end
  end.

Definition check_mgr (input output : J) : verdict :=
  match input with
  | JL [JB enabled; jp; jm; JL jops] =>
      match dec_policy jp, dec_max jm, omap dec_mopspec jops with
      | Some p, Some max, Some ops =>
          if failed_out output then ok_verdict false false
          else
            match output with
            | JL [JS t; JL jres; JL jfiles] =>
                match omap dec_mobs jres, omap dec_file jfiles with
                | Some obs, Some files =>
                    if tag_is t "ok" && Nat.eqb (List.length obs) (List.length ops) then
                      let c := mk_cfg enabled p false max in
                      let H := mkH [] in
                      let run clk := mgr_run Store.dir_names c (mk_mgr None []) (script H clk 0 ops) in
                      let '(rlo, mlo) := run clk_lo in
                      let '(rhi, mhi) := run clk_hi in
                      if list_eqb mres_eqb rlo rhi then
                        ok_verdict (list_eqb mres_eqb rlo (flat_obs obs) && files_match (m_dir mlo) files)
                                   (ref_script enabled p clk_lo 0 None (combine ops obs)
                                    && ref_script enabled p clk_hi 0 None (combine ops obs))
                      else malformed
                    else malformed
                | _, _ => malformed
                end
            | _ => malformed
            end
      | _, _, _ => malformed
      end
  | _ => malformed
  end.

Definition check_C11 (kind : string) (input output : J) : verdict :=
  if String.eqb kind "mgr" then check_mgr input output
  else if String.eqb kind "hist" then
    match input with
    | JL [jseeds; JL jruns] =>
        match dec_seeds jseeds, omap dec_run jruns with
        | Some seeds, Some runs =>
            if failed_out output then ok_verdict false false
            else
              match output with
              | JL [JL jdig; jl0; JL jobs] =>
                  match omap dec_digest jdig, dec_listing jl0, omap dec_runobs jobs with
                  | Some tab, Some l0, Some obs =>
                      if Nat.eqb (List.length obs) (List.length runs) then
                        let ros := combine runs obs in
                        ok_verdict (agree_hist (mkH tab) seeds ros l0) (prop_runs tab l0 ros)
                      else malformed
                  | _, _, _ => malformed
                  end
              | _ => malformed
              end
        | _, _ => malformed
        end
    | _ => malformed
    end
  else malformed.
