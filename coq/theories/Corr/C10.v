(* Correspondence for C10: runs the detection model of IO/Compression.v on the cases the harness
   ran through the real writers / readers, and decides agreement and the property instance
   inside Coq.

   The codecs themselves are abstract in the model.  Here `write` / `read` are executed with a
   TOY codec (enc c b = signature c ++ [tag] ++ b, dec = strip that exact header, fail on
   anything else).  What is compared with the implementation is therefore only what the
   detection logic decides:
     - which codec the writer applied  (observable: the real signature at the start of the stored
       bytes, and whether the stored bytes differ from the same writer's output under a neutral
       name),
     - which codec the reader applied  (observable: records come back / the read fails),
   plus the Corr-level assumption (sampled, see props/C10.json) that a real decoder fails on
   bytes that were not produced by its own encoder. *)
From Coq Require Import List ZArith Bool String.
From IB Require Import Util.J IO.Compression IO.CompressionPayload Corr.C10Payload.
Import ListNotations.
Open Scope Z_scope.

(* ---------- toy codec (over every registered codec) ---------- *)
Fixpoint strip (p s : bytes) : option bytes :=
  match p, s with
  | [], _ => Some s
  | _ :: _, [] => None
  | x :: p', y :: s' => if x =? y then strip p' s' else None
  end.
Definition cid_eqb (a b : cid) : bool :=
  match a, b with
  | CBuiltin x, CBuiltin y => codec_eqb x y
  | CCustom i, CCustom j => Nat.eqb i j
  | _, _ => false
  end.
(* the bytes an encoder's output starts with: the format signature of a built-in codec, the
   declared magic of a custom one (the harness's custom codecs write their magic first) *)
Definition sig_of (reg : list centry) (c : cid) : bytes :=
  match c with
  | CBuiltin b => signature b
  | CCustom _ =>
      match find (fun e => cid_eqb (ce_id e) c) reg with
      | Some e => match ce_magic e with Some m => m | None => [] end
      | None => []
      end
  end.
(* not a byte: no real content contains it; different for every codec *)
Definition toy_tag (c : cid) : Z :=
  match c with
  | CBuiltin Gzip => 1000 | CBuiltin Zstd => 1001 | CBuiltin Bzip2 => 1002 | CBuiltin Xz => 1003
  | CCustom k => 2000 + Z.of_nat k
  end.
Definition toy_enc (reg : list centry) (c : cid) (b : bytes) : bytes :=
  sig_of reg c ++ toy_tag c :: b.
Definition toy_dec (reg : list centry) (c : cid) (s : bytes) : option bytes :=
  strip (sig_of reg c ++ [toy_tag c]) s.

(* ---------- independent reference (NOT the model): literal tables, own helpers ---------- *)
Definition ref_sigs : list (Z * bytes) :=
  [(0, [31; 139]); (1, [40; 181; 47; 253]); (2, [66; 90; 104]); (3, [253; 55; 122; 88; 90; 0])].
Definition ref_exts : list (Z * string) :=
  [(0, ".gz"%string); (0, ".gzip"%string); (1, ".zst"%string); (1, ".zstd"%string);
   (2, ".bz2"%string); (2, ".bzip2"%string); (3, ".xz"%string)].

Fixpoint zlist_eqb (a b : list Z) : bool :=
  match a, b with
  | [], [] => true
  | x :: a', y :: b' => (x =? y) && zlist_eqb a' b'
  | _, _ => false
  end.

Definition ref_is_prefix (p s : bytes) : bool := zlist_eqb p (firstn (List.length p) s).
Definition ref_sig (s : bytes) : Z :=
  match find (fun e => ref_is_prefix (snd e) s) ref_sigs with Some e => fst e | None => -1 end.

Definition ref_upper_to_lower (b : Z) : Z := if (b >=? 65) && (b <? 91) then b + 32 else b.
Definition ref_tail (n : nat) (s : bytes) : bytes := skipn (List.length s - n) s.
Definition ref_has_suffix (e : bytes) (s : bytes) : bool :=
  (List.length e <=? List.length s)%nat && zlist_eqb e (map ref_upper_to_lower (ref_tail (List.length e) s)).
(* every codec whose extension the name carries (reference: list ALL matches) *)
Definition ref_ext_all (name : bytes) : list Z :=
  map fst (filter (fun e => ref_has_suffix (string_bytes (snd e)) name) ref_exts).
Definition ref_ext (name : bytes) : Z :=
  match ref_ext_all name with c :: _ => c | [] => -1 end.

(* declared custom codecs (reference side): does the name carry one of their extensions (the
   extension is compared as given with the lower-cased name), does the content start with one
   of their magics *)
Definition ref_custom_ext (decl : list centry) (name : bytes) : bool :=
  existsb (fun e => existsb (fun x => (List.length x <=? List.length name)%nat
                                      && zlist_eqb x (map ref_upper_to_lower (ref_tail (List.length x) name)))
                            (ce_exts e)) decl.
Definition ref_custom_magic (decl : list centry) (h : bytes) : bool :=
  existsb (fun e => match ce_magic e with Some m => ref_is_prefix m h | None => false end) decl.

Definition codec_idx (c : codec) : Z :=
  match c with Gzip => 0 | Zstd => 1 | Bzip2 => 2 | Xz => 3 end.
Definition ocid_eqb (a b : option cid) : bool :=
  match a, b with
  | Some x, Some y => cid_eqb x y
  | None, None => true
  | _, _ => false
  end.

(* ---------- decoding ---------- *)
Definition writer_of (z : Z) : option writer_ep :=
  nth_error [WJsonlVec; WJsonlPar; WPcJsonl; WPcJsonlPar; WCsvVec; WCsv; WCsvPar; WPcCsv;
             WPcCsvPar; WCloudJsonl; WParquetVec] (Z.to_nat z).
Definition reader_of (z : Z) : option reader_ep :=
  nth_error [RJsonlVec; RJsonlRange; RPcJsonl; RPcJsonlGlob; RJsonlStreamSeq; RJsonlStreamPar;
             RCsvVec; RCsvRange; RPcCsv; RPcCsvGlob; RCsvStreamSeq; RCsvStreamPar;
             RCloudJsonl; RCloudJsonlGlob; RParquetVec] (Z.to_nat z).

Definition dec_rec (j : J) : option (bytes * Z) :=
  match j with
  | JL [k; JI v] => match jbytes k with Some kb => Some (kb, v) | None => None end
  | _ => None
  end.
Definition dec_recs (j : J) : option (list (bytes * Z)) :=
  match j with JL l => omap dec_rec l | _ => None end.

Fixpoint recs_eqb (a b : list (bytes * Z)) : bool :=
  match a, b with
  | [], [] => true
  | (k1, v1) :: a', (k2, v2) :: b' => zlist_eqb k1 k2 && (v1 =? v2) && recs_eqb a' b'
  | _, _ => false
  end.

(* read outcome *)
Inductive outc := OOk (rs : list (bytes * Z)) | OErr | OPanic.
Definition dec_outc (j : J) : option outc :=
  match j with
  | JL [t; rs] => if jtag_is "ok" t then match dec_recs rs with Some l => Some (OOk l) | None => None end
                  else None
  | JL [t] => if jtag_is "err" t then Some OErr else if jtag_is "panic" t then Some OPanic else None
  | _ => None
  end.

Definition is_ok_with (o : outc) (rs : list (bytes * Z)) : bool :=
  match o with OOk l => recs_eqb l rs | _ => false end.

(* how a failing read surfaces.
   - every entry point returns Err, except:
   - `collect_par` on a streaming source panics ("cloneable source") when a partition cannot be
     read (for the JSONL streaming source a failure of the pre-scan build_jsonl_shards is an Err,
     a failure at partition time a panic: both are accepted there);
   - CSV readers with has_headers = true: the csv crate swallows an I/O error raised while it
     reads the header row and then reports end of input, so a decoder failure on the first read
     comes back as Ok(no records) (hdr = true only occurs in kind "raw"). *)
Definition is_csv_reader (r : reader_ep) : bool :=
  match r with
  | RCsvVec | RCsvRange | RPcCsv | RPcCsvGlob | RCsvStreamSeq | RCsvStreamPar => true
  | _ => false
  end.
Definition is_fail (r : reader_ep) (hdr : bool) (o : outc) : bool :=
  match o, r with
  | OErr, _ => true
  | OPanic, (RJsonlStreamPar | RCsvStreamPar) => true
  | OOk [], _ => hdr && is_csv_reader r
  | _, _ => false
  end.

(* a parse failure of the plain parser (no decoder involved) is always an error / panic *)
Definition outc_matches (r : reader_ep) (hdr : bool) (decoder_failed : bool) (expect obs : outc)
  : bool :=
  match expect with
  | OOk rs => is_ok_with obs rs
  | _ => is_fail r (hdr && decoder_failed) obs
  end.

Definition shards_ok (j : J) : bool := match j with JN | JI _ => true | _ => false end.

(* ---------- kind "rt" ---------- *)
Definition check_rt_in (reg decl : list centry) (input output : J) : verdict :=
  match input with
  | JL [JI wz; JI rz; jname; jrecs; jshards] =>
      match writer_of wz, reader_of rz, jbytes jname, dec_recs jrecs, shards_ok jshards with
      | Some w, Some r, Some name, Some recs, true =>
          match output with
          | JL [_; JI osig; JB osame; jhs; jhp; jro] =>
              match jbytes jhs, jbytes jhp, dec_outc jro with
              | Some hs, Some hp, Some ro =>
                  (* --- model: run write / read with the toy codec on the plain text's head --- *)
                  let stored_m := write_in (toy_enc reg) reg w name hp in
                  let wc := ep_writer_codec_in reg w name in
                  let read_m := read_in (toy_dec reg) reg r name stored_m in
                  let agree :=
                    (osig =? ref_sig stored_m)
                    && Bool.eqb osame (zlist_eqb stored_m hp)
                    && (match wc with None => zlist_eqb hs hp | Some c => starts_with (sig_of reg c) hs end)
                    && (match read_m with
                        | Some x => zlist_eqb x hp && is_ok_with ro recs
                        | None => is_fail r false ro
                        end) in
                  (* --- property instance on the observed outcome, independent reference --- *)
                  let e := ref_ext name in
                  let prop :=
                    if writer_detects w then
                      if e =? -1 then
                        if ref_custom_ext decl name then
                          (* a registered custom codec claims the name: outside the property
                             (the model still has to predict it: `agree`) *)
                          true
                        else
                        (* neutral name: stored verbatim; read back verbatim unless the text
                           really begins with a format signature (or a registered magic) *)
                        osame && (if (ref_sig hp =? -1) && negb (ref_custom_magic decl hp)
                                  then is_ok_with ro recs else true)
                      else
                        (* codec name: stored compressed with that codec, reads back identical *)
                        (osig =? e) && negb osame && is_ok_with ro recs
                    else
                      (* parquet: outside the codec layer; must simply round-trip *)
                      is_ok_with ro recs in
                  ok_verdict agree prop
              | _, _, _ => malformed
              end
          | JL [t] => if jtag_is "werr" t || jtag_is "panic" t then ok_verdict false false
                      else malformed
          | _ => malformed
          end
      | _, _, _, _, _ => malformed
      end
  | _ => malformed
  end.

(* ---------- kind "raw" ---------- *)
Inductive origin :=
| OLit (content : bytes)
| OEnc (w : writer_ep) (encname : bytes) (recs : list (bytes * Z)).

Definition dec_origin (j : J) : option origin :=
  match j with
  | JL [t; b] => if jtag_is "lit" t then option_map OLit (jbytes b) else None
  | JL [t; JI wz; en; rs; sh] =>
      if jtag_is "enc" t then
        match writer_of wz, jbytes en, dec_recs rs, shards_ok sh with
        | Some w, Some n, Some l, true => Some (OEnc w n l)
        | _, _, _, _ => None
        end
      else None
  | _ => None
  end.

Definition check_raw_in (reg decl : list centry) (input output : J) : verdict :=
  match input with
  | JL [JI rz; jname; jorigin; JB hdr] =>
      match reader_of rz, jbytes jname, dec_origin jorigin with
      | Some r, Some name, Some org =>
          match output with
          | JL [_; jh; jro; jref] =>
              match jbytes jh, dec_outc jro, dec_outc jref with
              | Some h, Some ro, Some ev =>
                  (* ev = harness-side reference: a plain parse of the file content;
                     ed = what decoding gives when the right decoder is applied *)
                  let ed := match org with OEnc _ _ rs => OOk rs | OLit _ => OErr end in
                  (* --- model --- *)
                  let content_m :=
                    match org with OLit b => b | OEnc w en _ => write_in (toy_enc reg) reg w en [] end in
                  let rc := ep_reader_codec_in reg r name content_m in
                  let '(expect, decfail) :=
                    match rc with
                    | None => (ev, false)                         (* handed to the parser verbatim *)
                    | Some c =>
                        match org with
                        | OEnc w en _ =>
                            if ocid_eqb (ep_writer_codec_in reg w en) (Some c) then (ed, false)
                            else (OErr, true)
                        | OLit _ => (OErr, true)                  (* decoder on foreign bytes *)
                        end
                    end in
                  let head_ok :=
                    match org with
                    | OLit b => zlist_eqb h (firstn 16 b)
                    | OEnc w en _ =>
                        match ep_writer_codec_in reg w en with
                        | Some c => starts_with (sig_of reg c) h
                        | None => true
                        end
                    end in
                  let agree := head_ok && outc_matches r hdr decfail expect ro in
                  (* --- property instance --- *)
                  let e := ref_ext name in
                  let s := ref_sig h in
                  let custom := ref_custom_ext decl name || ref_custom_magic decl h in
                  let prop :=
                    if custom then true else
                    match org with
                    | OLit _ =>
                        if (e =? -1) && (s =? -1) then outc_matches r hdr false ev ro else true
                    | OEnc w en _ =>
                        let ce := ref_ext en in
                        if ce =? -1 then true
                        else if negb (writer_detects w) then true
                        else if e =? -1 then (s =? ce) && outc_matches r hdr false ed ro
                        else if e =? ce then outc_matches r hdr false ed ro
                        else true
                    end in
                  ok_verdict agree prop
              | _, _, _ => malformed
              end
          | JL [t] => if jtag_is "werr" t || jtag_is "panic" t then ok_verdict false false
                      else malformed
          | _ => malformed
          end
      | _, _, _ => malformed
      end
  | _ => malformed
  end.

(* kinds "rt" / "raw": a process that never calls register_codec *)
Definition no_ops : list reg_op := [].
Definition check_rt (input output : J) : verdict :=
  check_rt_in (reg_view (reg_run no_ops)) [] input output.
Definition check_raw (input output : J) : verdict :=
  check_raw_in (reg_view (reg_run no_ops)) [] input output.

(* ---------- kind "proc": a script run in a FRESH process ----------
   in  = [steps]; step = ["reg", k, [ext, ...], magic | null, key]
                       | ["rt", w, r, name, recs, shards] | ["raw", r, name, origin, hdr]
   out = [tag, [step output, ...]]; a "reg" step outputs ["reg"], the others what the kinds
   "rt" / "raw" output.  The model state is the list of registry operations so far: every
   I/O step sees reg_view (reg_run ops) and counts as a get_registry call. *)
Definition dec_reg (j : list J) : option centry :=
  match j with
  | [JI k; JL exts; jm; JI _] =>
      match omap jbytes exts with
      | Some es =>
          match jm with
          | JN => Some {| ce_id := CCustom (Z.to_nat k); ce_exts := es; ce_magic := None |}
          | _ => match jbytes jm with
                 | Some m => Some {| ce_id := CCustom (Z.to_nat k); ce_exts := es; ce_magic := Some m |}
                 | None => None
                 end
          end
      | None => None
      end
  | _ => None
  end.

Definition vand (a b : verdict) : verdict :=
  V (v_agree a && v_agree b) (v_prop a && v_prop b) (v_known a || v_known b)
    (v_malformed a || v_malformed b).

Fixpoint check_steps (ops : list reg_op) (decl : list centry) (steps outs : list J) : verdict :=
  match steps, outs with
  | [], [] => ok_verdict true true
  | JL (t :: args) :: steps', o :: outs' =>
      if jtag_is "reg" t then
        match dec_reg args, o with
        | Some e, JL [t'] =>
            if jtag_is "reg" t' then check_steps (ops ++ [OpRegister e]) (decl ++ [e]) steps' outs'
            else malformed
        | _, _ => malformed
        end
      else
        let reg := reg_view (reg_run ops) in
        let v := if jtag_is "rt" t then check_rt_in reg decl (JL args) o
                 else if jtag_is "raw" t then check_raw_in reg decl (JL args) o
                 else malformed in
        vand v (check_steps (ops ++ [OpGet]) decl steps' outs')
  | _, _ => malformed
  end.

Definition check_proc (input output : J) : verdict :=
  match input, output with
  | JL [JL steps], JL [_; JL outs] => check_steps [] [] steps outs
  | JL [JL _], JL [t] => if jtag_is "abort" t then ok_verdict false false else malformed
  | _, _ => malformed
  end.

(* ---------- kinds "big" / "rewrite": payloads given by generator parameters ----------
   gen = [mode, n, klen, seed, k0len] (Corr/C10Payload.v).  Expected record count, digest, text
   length and first 16 text bytes all come from the Coq side. *)
Record gen := { g_mode : Z; g_seed : Z; g_p : pgen }.
Definition dec_gen (j : J) : option gen :=
  match j with
  | JL [JI mode; JI n; JI klen; JI seed; JI k0len] =>
      if (0 <=? mode) && (mode <=? 2) && (0 <=? n) && (0 <=? klen) && (0 <=? seed) && (0 <=? k0len)
      then Some {| g_mode := mode; g_seed := seed;
                   g_p := {| pg_n := Z.to_N n; pg_klen := Z.to_N klen; pg_k0len := Z.to_N k0len |} |}
      else None
  | _ => None
  end.
(* what the model needs to know about a payload, computed once per case *)
Record pinfo := { pi_n : Z; pi_digest : Z; pi_jlen : Z; pi_clen : Z; pi_jhead : bytes; pi_chead : bytes }.
Definition pinfo_of (g : gen) : pinfo :=
  {| pi_n := Z.of_N (pg_n (g_p g));
     pi_digest := pl_digest (g_mode g) (Uint63.of_Z (g_seed g)) (pg_n (g_p g)) (pg_klen (g_p g))
                            (pg_k0len (g_p g));
     pi_jlen := Z.of_N (pl_text_len 14 (g_p g));
     pi_clen := Z.of_N (pl_text_len 2 (g_p g));
     pi_jhead := pl_head false (g_mode g) (g_seed g) (g_p g);
     pi_chead := pl_head true (g_mode g) (g_seed g) (g_p g) |}.

Inductive wformat := FJsonl | FCsv | FParquet.
Definition writer_format (w : writer_ep) : wformat :=
  match w with
  | WCsvVec | WCsv | WCsvPar | WPcCsv | WPcCsvPar => FCsv
  | WParquetVec => FParquet
  | _ => FJsonl
  end.
(* text length / head of the payload in the writer's format (parquet: not modelled) *)
Definition pi_len (f : wformat) (pi : pinfo) : option Z :=
  match f with FJsonl => Some (pi_jlen pi) | FCsv => Some (pi_clen pi) | FParquet => None end.
Definition pi_head (f : wformat) (pi : pinfo) : option bytes :=
  match f with FJsonl => Some (pi_jhead pi) | FCsv => Some (pi_chead pi) | FParquet => None end.

(* read outcome with a digest *)
Inductive doutc := DOk (cnt dg : Z) | DErr | DPanic.
Definition dec_doutc (j : J) : option doutc :=
  match j with
  | JL [t; JI c; JI d] => if jtag_is "ok" t then Some (DOk c d) else None
  | JL [t] => if jtag_is "err" t then Some DErr else if jtag_is "panic" t then Some DPanic else None
  | _ => None
  end.
Definition d_ok (o : doutc) (pi : pinfo) : bool :=
  match o with DOk c d => (c =? pi_n pi) && (d =? pi_digest pi) | _ => false end.
Definition d_fail (r : reader_ep) (o : doutc) : bool :=
  match o, r with
  | DErr, _ => true
  | DPanic, (RJsonlStreamPar | RCsvStreamPar) => true
  | _, _ => false
  end.

(* one (writer, reader, written name, read name) entry of a "big" case *)
Definition check_big_entry (reg : list centry) (pi : pinfo) (entry out : J) : verdict :=
  match entry with
  | JL [JI wz; JI rz; jwname; jrname; jshards] =>
      match writer_of wz, reader_of rz, jbytes jwname, jbytes jrname, shards_ok jshards with
      | Some w, Some r, Some wname, Some rname, true =>
          match out with
          | JL [_; JI osig; JI slen; JI plen; JB osame; jhs; jhp; jro] =>
              match jbytes jhs, jbytes jhp, dec_doutc jro with
              | Some hs, Some hp, Some ro =>
                  let f := writer_format w in
                  (* --- model: the text is the payload's; run write / read on its head --- *)
                  let b := match pi_head f pi with Some h => h | None => hp end in
                  let text_ok :=
                    match pi_head f pi, pi_len f pi with
                    | Some h, Some l => zlist_eqb hp h && (plen =? l)
                    | _, _ => true
                    end in
                  let stored_m := write_in (toy_enc reg) reg w wname b in
                  let wc := ep_writer_codec_in reg w wname in
                  let read_m := read_in (toy_dec reg) reg r rname stored_m in
                  let agree :=
                    text_ok
                    && (osig =? ref_sig stored_m)
                    && Bool.eqb osame (zlist_eqb stored_m b)
                    && (match wc with
                        | None => zlist_eqb hs b && (slen =? plen)
                        | Some c => starts_with (sig_of reg c) hs
                        end)
                    && (match read_m with
                        | Some x => zlist_eqb x b && d_ok ro pi
                        | None => d_fail r ro
                        end) in
                  (* --- property instance on the observed outcome, independent reference --- *)
                  let ew := ref_ext wname in
                  let er := ref_ext rname in
                  let prop :=
                    if writer_detects w then
                      (if ew =? -1 then osame && (slen =? plen)
                       else (osig =? ew) && negb osame)
                      && (if er =? -1 then
                            (* neutral name: compressed content is recognised by its signature;
                               plain content is read verbatim unless it begins with one *)
                            if (ew =? -1) && negb (ref_sig hp =? -1) then true else d_ok ro pi
                          else if er =? ew then d_ok ro pi
                          else true)
                    else d_ok ro pi in
                  ok_verdict agree prop
              | _, _, _ => malformed
              end
          | JL [t] => if jtag_is "werr" t || jtag_is "panic" t then ok_verdict false false
                      else malformed
          | _ => malformed
          end
      | _, _, _, _, _ => malformed
      end
  | _ => malformed
  end.

Fixpoint check_big_entries (reg : list centry) (pi : pinfo) (es os : list J) : verdict :=
  match es, os with
  | [], [] => ok_verdict true true
  | e :: es', o :: os' => vand (check_big_entry reg pi e o) (check_big_entries reg pi es' os')
  | _, _ => malformed
  end.

Definition check_big (input output : J) : verdict :=
  match input, output with
  | JL [jg; JL es], JL [_; JL os] =>
      match dec_gen jg with
      | Some g => let pi := pinfo_of g in check_big_entries (reg_view (reg_run no_ops)) pi es os
      | None => malformed
      end
  | JL [_; JL _], JL [t] => if jtag_is "panic" t then ok_verdict false false else malformed
  | _, _ => malformed
  end.

(* "rewrite": payload A then payload B written to the same name of one directory / object store
   in  = [w, r, name, genA, genB, shards]
   out = [tag, sig(stored after B), len after A, len after B, len of B written to a fresh store,
          stored after B == fresh, first 16 bytes after B, read outcome] *)
Definition oeqb (a b : option bytes) : bool :=
  match a, b with
  | Some x, Some y => zlist_eqb x y
  | None, None => true
  | _, _ => false
  end.
Definition check_rewrite (input output : J) : verdict :=
  let reg := reg_view (reg_run no_ops) in
  match input with
  | JL [JI wz; JI rz; jname; jga; jgb; jshards] =>
      match writer_of wz, reader_of rz, jbytes jname, dec_gen jga, dec_gen jgb, shards_ok jshards with
      | Some w, Some r, Some name, Some ga, Some gb, true =>
          match output with
          | JL [_; JI osig; JI l1; JI l2; JI lf; JB same; jh2; jro] =>
              match jbytes jh2, dec_doutc jro with
              | Some h2, Some ro =>
                  let f := writer_format w in
                  let pa := pinfo_of ga in
                  let pb := pinfo_of gb in
                  (* parquet: no text model; two distinct placeholders *)
                  let ba := match pi_head f pa with Some h => h | None => [0] end in
                  let bb := match pi_head f pb with Some h => h | None => [1] end in
                  let st1 := store_write (toy_enc reg) reg [] w name ba in
                  let st2 := store_write (toy_enc reg) reg st1 w name bb in
                  let stf := store_write (toy_enc reg) reg [] w name bb in
                  let wc := ep_writer_codec_in reg w name in
                  let stored_m := match store_get st2 name with Some s => s | None => [] end in
                  let agree :=
                    Bool.eqb same (oeqb (store_get st2 name) (store_get stf name))
                    && (l2 =? lf)
                    && (match f with FParquet => true | _ => osig =? ref_sig stored_m end)
                    && (match wc, f with
                        | _, FParquet => true
                        | None, _ =>
                            zlist_eqb h2 bb
                            && (match pi_len f pa, pi_len f pb with
                                | Some la, Some lb => (l1 =? la) && (l2 =? lb)
                                | _, _ => true
                                end)
                        | Some c, _ => starts_with (sig_of reg c) h2
                        end)
                    && (match store_read (toy_dec reg) reg st2 r name with
                        | Some x => zlist_eqb x bb && d_ok ro pb
                        | None => d_fail r ro
                        end) in
                  (* property instance: the name holds exactly what writing B alone gives, and B
                     comes back (JSONL / CSV text of these payloads starts with '{' / a letter:
                     never a signature) *)
                  let prop := same && (l2 =? lf) && d_ok ro pb in
                  ok_verdict agree prop
              | _, _ => malformed
              end
          | JL [t] => if jtag_is "werr" t || jtag_is "panic" t then ok_verdict false false
                      else malformed
          | _ => malformed
          end
      | _, _, _, _, _, _ => malformed
      end
  | _ => malformed
  end.

Definition check_C10 (kind : string) (input output : J) : verdict :=
  if String.eqb kind "rt" then check_rt input output
  else if String.eqb kind "raw" then check_raw input output
  else if String.eqb kind "proc" then check_proc input output
  else if String.eqb kind "big" then check_big input output
  else if String.eqb kind "rewrite" then check_rewrite input output
  else malformed.
